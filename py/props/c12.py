"""C12 — flex and grid containers distribute space and place items as specified."""
import itertools
from fractions import Fraction

from extract import c12_tables
from harness import c12_flex as fx
from harness import c12_grid as gx
from harness import c12_oracle as orc
from harness import docs
from harness.c12_section import tolerant_section
from vlib import sx
from vlib.framework import PropCheck

F = Fraction


# --------------------------------------------------------------------------- known findings (replays)

LAST_HTML = [None]       # the document of the last finding replay (py/tools-free way to write corpus/C12)


def _flex_rects(cont_css, items_css):
    """Render a flex container of empty items (container `width:100px` unless overridden)."""
    html = ('<style>@page{size:2000px;margin:0}html,body{margin:0}</style>'
            f'<div id="c" style="display:flex;width:100px;{cont_css}">' +
            ''.join(f'<div id="i{i}" style="{css}"></div>' for i, css in enumerate(items_css)) + '</div>')
    LAST_HTML[0] = html
    with gx.wall_clock(5):
        _, rects = fx.extract(docs.render(html))
    return rects


def _grid_rects(cont_css, items_css):
    html = ('<style>@page{size:2000px;margin:0}html,body{margin:0}</style>'
            f'<div id="c" style="display:grid;width:100px;{cont_css}">' +
            ''.join(f'<div id="i{i}" style="{css}"></div>' for i, css in enumerate(items_css)) + '</div>')
    LAST_HTML[0] = html
    with gx.wall_clock(5):
        _, rects = fx.extract(docs.render(html))
    return rects


def replay_flex_clamp():
    # F5: flex:1 1 0;max-width:10px + flex:1 1 0 in 100px -> 10 + 90
    r = _flex_rects('', ['flex:1 1 0;max-width:10px', 'flex:1 1 0'])
    return not (r[0][3] == 10 and r[1][3] == 90)


def replay_flex_padding():
    r = _flex_rects('', ['flex:1 1 0;padding:0 10px', 'flex:1 1 0;padding:0 10px'])
    return r[0][3] + r[1][3] != 100


def replay_flex_vertical_auto_margin():
    r = _flex_rects('flex-direction:column;height:100px', ['height:10px;margin-top:auto'])
    return r[0][2] != 90


def replay_flex_negative_auto_margin():
    r = _flex_rects('', ['flex:none;width:120px;height:10px;margin-left:auto'])
    return r[0][1] != 0


def replay_flex_cross_auto_margin():
    r = _flex_rects('flex-direction:column;flex-wrap:wrap;height:50px;align-content:flex-start',
                    ['height:40px;width:30px', 'height:40px;width:20px;margin-left:auto'])
    return r[1][1] < 30          # the second column starts at x = 30


def replay_flex_align_content_last_item():
    r = _flex_rects('flex-wrap:wrap;height:100px;align-content:center',
                    ['width:60px;height:10px', 'width:60px;height:30px;align-self:flex-start',
                     'width:30px;height:10px;align-self:flex-end'])
    return r[1][2] != 40         # line 2 starts at y = 40; its flex-start item must be there


def replay_flex_column_clamps_by_width():
    r = _flex_rects('flex-direction:column;height:100px', ['flex:1 1 0;max-width:10px', 'flex:1 1 0'])
    return r[0][4] != 50


def replay_flex_fractional_sum():
    r = _flex_rects('width:80px', ['flex:0.5 1 0;height:10px'])
    return r[0][3] != 40


def replay_flex_content_base_clamped():
    r = _flex_rects('', ['flex:1 1 auto;min-width:20px;height:5px', 'flex:1 1 auto;width:20px;height:5px'])
    return r[0][3] != 40


def replay_grid_justify_gap():
    r = _grid_rects('grid-template-columns:20px 20px;column-gap:10px;justify-content:center',
                    ['height:5px', 'height:5px'])
    return r[0][1] != 25


def replay_grid_locked_first_track():
    r = _grid_rects('grid-template-columns:20px 30px', ['grid-row:1;height:5px'])
    return r[0][1] != 0


def replay_grid_span_crash():
    try:
        _grid_rects('grid-template-columns:20px 30px', ['grid-row:span 2;grid-column:2;height:5px'])
    except UnboundLocalError:
        return True
    return False


def replay_grid_named_span_hang():
    gx.grid_mod()               # the bounded count(): the hang shows as NonTermination
    try:
        _grid_rects('', ['grid-row:1;grid-column:span foo'])
    except (gx.NonTermination, gx.WallClock):
        return True
    return False


def replay_grid_negative_line():
    r = _grid_rects('grid-template-columns:10px 20px 30px', ['grid-column:-2 / -1;height:5px'])
    return not r or r[0][1] != 30 or r[0][3] != 30


def replay_grid_maximize():
    r = _grid_rects('grid-template-columns:minmax(0px, 50px) 5px;justify-content:start', ['height:5px', 'height:5px'])
    return r[0][3] != 50


def replay_grid_named_nth():
    r = _grid_rects('grid-template-columns:[foo] 10px [foo] 20px [foo] 30px;justify-content:start',
                    ['grid-column:2 foo;height:5px'])
    return r[0][1] != 10


def replay_grid_named_span_from_last_line():
    # grid-column: 3 / span 2 foo on two 10px columns (three lines): two implicit tracks, 20px
    r = _grid_rects('grid-template-columns:10px 10px;grid-auto-columns:10px;justify-content:start',
                    ['grid-column:3 / span 2 foo;height:5px'])
    return r[0][3] != 20


def replay_grid_backward_named_span_count():
    # grid-column: span foo / 4 on [foo] 10px [foo] 20px [foo] 30px: the foo line before line 4 is line 3
    r = _grid_rects('grid-template-columns:[foo] 10px [foo] 20px [foo] 30px;justify-content:start',
                    ['grid-column:span foo / 4;height:5px'])
    return not (r[0][1] == 30 and r[0][3] == 30)


def replay_flex_negative_factor():
    # css-flexbox 7.2 / 7.3: negative flex-grow / flex-shrink are invalid, the declaration is ignored (grow 0):
    # the flex:1 1 0 item takes the 100px
    r = _flex_rects('', ['flex:1 1 0;height:5px', 'flex-grow:-1;flex-basis:0;height:5px'])
    return r[0][3] != 100


def replay_grid_inflexible_fr():
    # grid-template-columns: minmax(20px, 0.5fr) 3fr in 64px: the first track keeps its 20px minimum (its share would be
    # 9.1px), the fr size is found again without it: 20 + 44
    r = _grid_rects('width:64px;grid-template-columns:minmax(20px, 0.5fr) 3fr;justify-content:start',
                    ['height:5px', 'height:5px'])
    return r[1][3] != 44


def replay_grid_justify_self_outer():
    r = _grid_rects('', ['justify-self:start;width:20px;padding:0 5px;height:5px'])
    return r[0][3] != 30


def replay_grid_column_flow_implicit_start():
    try:
        _grid_rects('grid-auto-flow:column', ['grid-row-end:1;height:5px', 'height:5px'])
    except IndexError:
        return True
    return False


def replay_grid_leading_implicit_tracks():
    r = _grid_rects('', ['grid-column-end:1;height:5px', 'height:5px'])
    return not (r[0][1] == 0 and r[0][3] == 50 and r[1][1] == 50)


# findings still open (known_findings.txt `finding:` lines)
FINDINGS = {
    'flex-vertical-auto-margins-zeroed': replay_flex_vertical_auto_margin,
    'flex-fractional-factor-sum': replay_flex_fractional_sum,
    'flex-content-base-clamped': replay_flex_content_base_clamped,
    'grid-named-span-hang': replay_grid_named_span_hang,
    'grid-negative-line-numbers': replay_grid_negative_line,
    'grid-maximize-no-redistribution': replay_grid_maximize,
    'grid-leading-implicit-tracks-misindexed': replay_grid_leading_implicit_tracks,
    'grid-inflexible-fr-no-restart': replay_grid_inflexible_fr,
}

# findings repaired in /repo (`fixed:` lines): their replay functions are regression cases; each must stay False
FIXED = {
    'flex-clamp-no-redistribute': replay_flex_clamp,
    'flex-padding-not-counted': replay_flex_padding,
    'flex-negative-auto-margin': replay_flex_negative_auto_margin,
    'flex-cross-auto-margin-not-positioned': replay_flex_cross_auto_margin,
    'flex-align-content-last-item': replay_flex_align_content_last_item,
    'flex-column-clamps-by-width': replay_flex_column_clamps_by_width,
    'grid-justify-ignores-gap': replay_grid_justify_gap,
    'grid-locked-skips-first-track': replay_grid_locked_first_track,
    'grid-span-first-axis-crash': replay_grid_span_crash,
    'grid-named-line-nth-ignored': replay_grid_named_nth,
    'grid-justify-self-outer-width': replay_grid_justify_self_outer,
    'grid-column-flow-implicit-start': replay_grid_column_flow_implicit_start,
    'grid-named-span-from-last-line': replay_grid_named_span_from_last_line,
    'grid-backward-named-span-count': replay_grid_backward_named_span_count,
    'flex-negative-factor-accepted': replay_flex_negative_factor,
}


def _fitem(ident, **kw):
    it = {'id': ident, 'order': 0, 'grow': 0, 'shrink': 1, 'basis': 'auto', 'width': None, 'height': None,
          'minw': None, 'maxw': None, 'minh': None, 'maxh': None, 'ml': 0, 'mr': 0, 'mt': 0, 'mb': 0,
          'pl': 0, 'pr': 0, 'pt': 0, 'pb': 0, 'bl': 0, 'br': 0, 'bt': 0, 'bb': 0, 'align': 'auto'}
    it.update(kw)
    return it


def _fcase(items, **kw):
    case = {'dir': 'row', 'wrap': 'nowrap', 'width': 100, 'height': None, 'colgap': 0, 'rowgap': 0,
            'justify': 'normal', 'align_items': 'normal', 'align_content': 'normal', 'items': items}
    case.update(kw)
    return case


def _gitem(ident, **kw):
    it = {'id': ident, 'order': 0, 'rs': 'auto', 're': 'auto', 'cs': 'auto', 'ce': 'auto', 'width': None, 'height': 5,
          'ml': 0, 'mr': 0, 'mt': 0, 'mb': 0, 'pl': 0, 'pr': 0, 'pt': 0, 'pb': 0, 'bl': 0, 'br': 0, 'bt': 0, 'bb': 0,
          'js': 'auto', 'as': 'auto'}
    it.update(kw)
    return it


def _gdoc(items, **kw):
    doc = {'rows': None, 'cols': None, 'auto_rows': ['auto'], 'auto_cols': ['auto'], 'flow': 'row', 'dense': False,
           'areas': None, 'colgap': 0, 'rowgap': 0, 'width': 100, 'height': None, 'jc': 'normal', 'ac': 'normal',
           'ji': 'normal', 'ai': 'normal', 'items': items}
    doc.update(kw)
    return doc


def _pxcols(*sizes, names=None):
    out = [('names', list(names[0]) if names else [])]
    for k, size in enumerate(sizes):
        out += [('size', ('px', F(size))), ('names', list(names[k + 1]) if names else [])]
    return out


def regression_cases():
    """The inputs of the repaired findings in the wire format of the flex-doc / grid-doc sections (corpus-first:
    they are compared with the model and judged by the oracles on every run)."""
    flex110 = {'grow': 1, 'shrink': 1, 'basis': 0}
    return [
        ('flex-clamp-no-redistribute', 'flex', _fcase([_fitem(0, maxw=10, **flex110), _fitem(1, **flex110)])),
        ('flex-padding-not-counted', 'flex', _fcase([_fitem(0, pl=10, pr=10, **flex110),
                                                     _fitem(1, pl=10, pr=10, **flex110)])),
        ('flex-negative-auto-margin', 'flex', _fcase([_fitem(0, shrink=0, width=120, height=10, ml=None)])),
        ('flex-cross-auto-margin-not-positioned', 'flex',
         _fcase([_fitem(0, height=40, width=30), _fitem(1, height=40, width=20, ml=None)],
                dir='column', wrap='wrap', height=50, align_content='flex-start')),
        ('flex-align-content-last-item', 'flex',
         _fcase([_fitem(0, width=60, height=10), _fitem(1, width=60, height=30, align='flex-start'),
                 _fitem(2, width=30, height=10, align='flex-end')], wrap='wrap', height=100, align_content='center')),
        ('flex-column-clamps-by-width', 'flex',
         _fcase([_fitem(0, maxw=10, **flex110), _fitem(1, **flex110)], dir='column', height=100)),
        ('grid-justify-ignores-gap', 'grid', _gdoc([_gitem(0), _gitem(1)], cols=_pxcols(20, 20), colgap=10,
                                                   jc='center')),
        ('grid-locked-skips-first-track', 'grid', _gdoc([_gitem(0, rs=(None, 1, None))], cols=_pxcols(20, 30))),
        ('grid-span-first-axis-crash', 'grid',
         _gdoc([_gitem(0, rs=('span', 2, None), cs=(None, 2, None), height=None)], cols=_pxcols(20, 30))),
        ('grid-named-line-nth-ignored', 'grid',
         _gdoc([_gitem(0, cs=(None, 2, 'p'))], cols=_pxcols(10, 20, 30, names=[['p'], ['p'], ['p'], []]),
               jc='start')),
        ('grid-justify-self-outer-width', 'grid', _gdoc([_gitem(0, width=20, pl=5, pr=5, js='start')])),
        ('grid-column-flow-implicit-start', 'grid',
         _gdoc([_gitem(0, re=(None, 1, None)), _gitem(1)], flow='column')),
        ('grid-named-span-from-last-line', 'grid',
         _gdoc([_gitem(0, cs=(None, 3, None), ce=('span', 2, 'p'), height=None)], cols=_pxcols(10, 10),
               auto_cols=[('px', F(10))], jc='start')),
        ('grid-backward-named-span-count', 'grid',
         _gdoc([_gitem(0, cs=('span', None, 'p'), ce=(None, 4, None))],
               cols=_pxcols(10, 20, 30, names=[['p'], ['p'], ['p'], []]), jc='start')),
        ('flex-negative-factor-accepted', 'flex',
         _fcase([_fitem(0, grow=1, shrink=1, basis=0, height=5), _fitem(1, grow=-1, basis=0, height=5)])),
    ]


# --------------------------------------------------------------------------- helpers

def model_tags(command, lines):
    """Branch tags of the model for each protocol line (`flex …` -> `flextags …`, `grid …` -> `gridtags …`)."""
    from vlib import lean
    if not lines:
        return []
    outs = lean.run_driver(PROP.driver, [command + line[line.index(' '):] for line in lines])
    return [o.split() if o != 'bad-op' else ['tags:bad-op'] for o in outs]


# every branch tag the models can emit (lean/WpModel/Drive/C12Tags.lean); the evidence lists those never hit
FLEX_BRANCHES = [
    'dir:row', 'dir:row-reverse', 'dir:column', 'dir:column-reverse', 'wrap:nowrap', 'wrap:wrap', 'wrap:wrap-reverse',
    '5:lines=0', '5:lines=1', '5:lines=2', '5:lines=3', '5:lines=3+', '3:content-basis', '3:definite-basis',
    '4:column-auto-height', '4:definite-main', '5:single-overflowing-item',
    '9.7.1:grow', '9.7.1:shrink', '9.7.3:some-frozen', '9.7.3:none-frozen',
    '9.7.5b:factor-sum<1', '9.7.5b:factor-sum>=1', '9.7.5b:magnitude-replaced', '9.7.5b:magnitude-kept',
    '9.7.5c:remaining=0', '9.7.5c:grow', '9.7.5c:shrink', '9.7.5c:shrink-sum=0', '9.7.5c:zero-division',
    '9.7.5d:min-violation', '9.7.5d:no-min-violation', '9.7.5d:max-violation', '9.7.5d:no-max-violation',
    '9.7.5e:freeze-all', '9.7.5e:freeze-min', '9.7.5e:freeze-max',
    '9.7:passes=0', '9.7:passes=1', '9.7:passes=2', '9.7:passes=3', '9.7:passes=3+',
    '8:single-line-definite-cross', '8:cross-from-items', '9:stretch-lines', '9:no-extra', '9:indefinite-cross',
    '9:not-stretch', '11:stretched-item', '11:no-stretch',
    '12:auto-margins', '12:auto-margins-overflow', '12:free<0', '12:free=0', '12:free>0', '12:stretch-quirk',
    '12:justify', '13:auto-cross-margins', '13:auto-cross-margins-no-room', '14:end', '14:center', '14:stretch',
    '14:start', '16:no-extra', '16:shift', '16:space-between', '16:start', '16:single-line',
    'final:min/max-reclamp', 'final:as-computed', 'result:ok', 'result:error']
GRID_BRANCHES = [
    'flow:row', 'flow:row-dense', 'flow:column', 'flow:column-dense', 'areas:yes', 'areas:none',
    'template-columns:none', 'template-columns:list', 'template-rows:none', 'template-rows:list', 'template:repeat',
    'height:auto', 'height:definite',
    '1.1:both-axes-given', '1.2:locked-dense', '1.2:locked-sparse', '1.4:second-given-dense',
    '1.4:second-given-sparse', '1.4:free-dense', '1.4:free-sparse',
    'place:auto', 'place:span', 'place:span-name', 'place:line', 'place:negative', 'place:nth-name', 'place:name',
    '1.3:implicit-tracks-before', '1.3:no-track-before', '1.3:implicit-tracks-after', '1.3:explicit-grid-only',
    '4:negative-row-dropped', '4:all-rows-laid-out', '4:negative-column-index', '4:columns>=0', '4:spanning-area',
    '4:single-cells', '4:auto-inline-margin',
    'err:NonTermination@_get_second_placement.sparse',
    'err:NonTermination@_get_second_placement.dense', 'err:NonTermination@grid_layout.while',
    'err:NonTermination@grid_layout.sparse.count', 'err:NonTermination@grid_layout.dense.count',
    'cols:err:IndexError@tracks_children', 'cols:err:IndexError@tracks_children_(spanning)',
    'rows:err:IndexError@tracks_children_(spanning)', 'err:IndexError@tracks_children',
    'err:IndexError@tracks_children_(spanning)',
    'err:IndexError@columns_positions[x]', 'result:ok', 'result:error'] + [
    f'{axis}:{t}' for axis in ('cols', 'rows') for t in (
        '1.3:maximize', '1.3:no-free-space', 'track:px', 'track:%', 'track:fr', 'track:auto',
        'track:min-content', 'track:max-content', 'track:minmax', '1.2.2:non-spanning-items', '1.2.3:spanning-items',
        '1.4:no-free-space', '1.4:all-flexible', '1.4:inflexible-track', '1.4:factor-sum<1',
        '1.4:factor-sum>=1', '1.4:one-pass', '1.4:several-passes', '1.5:stretch-auto-tracks', '1.5:nothing',
        )] + ['rows:1.3:indefinite', 'rows:1.4:indefinite', 'rows:1.5:indefinite'] + [
    f'3.5:{p}:{v}' for p in ('justify-content', 'align-content') for v in (
        'center', 'end', 'space-around', 'space-between', 'space-evenly', 'normal', 'stretch', 'start')] + [
    f'4:justify-self:{v}' for v in ('stretch', 'stretch-fixed-width', 'center', 'end', 'right', 'start')] + [
    f'4:align-self:{v}' for v in ('stretch', 'stretch-fixed-height', 'center', 'end', 'start')]


def flex_tags(case, out):
    tags = [case['dir'], case['wrap'], f'justify:{case["justify"]}', f'n{len(case["items"])}']
    parsed = fx.parse_out(out)
    if parsed and case['wrap'] != 'nowrap':
        tags.append('multi' if len({(r[2] if case['dir'].startswith('row') else r[1]) for r in parsed[1]}) > 1
                    else 'single')
    if any(it['grow'] for it in case['items']):
        tags.append('grow')
    if any(None in (it['ml'], it['mr'], it['mt'], it['mb']) for it in case['items']):
        tags.append('auto-margin')
    if any(it['minw'] is not None or it['maxw'] is not None for it in case['items']):
        tags.append('min/max')
    return tags


def case_from_meta(meta):
    """JSON round trip: Fractions were stored as strings by the replay writer."""
    def num(v):
        if isinstance(v, str):
            try:
                return Fraction(v)
            except ValueError:
                return v
        return v
    def walk(x):
        if isinstance(x, dict):
            return {k: walk(v) for k, v in x.items()}
        if isinstance(x, list):
            return [walk(v) for v in x]
        return num(x)
    return walk(meta)


def tuple_place(p):
    return p if p == 'auto' or p is None else tuple(p)


def doc_from_meta(meta):
    doc = case_from_meta(meta)
    for it in doc['items']:
        for k in ('rs', 're', 'cs', 'ce'):
            it[k] = tuple_place(it[k])

    def fix_track(t):
        if isinstance(t, list):
            return tuple(fix_track(x) for x in t)
        return t

    def fix_template(t):
        if t is None:
            return None
        out = []
        for e in t:
            if e[0] == 'names':
                out.append(('names', list(e[1])))
            elif e[0] == 'size':
                out.append(('size', fix_track(e[1])))
            else:
                out.append(('repeat', e[1], [('names', list(x[1])) if x[0] == 'names' else ('size', fix_track(x[1]))
                                             for x in e[2]]))
        return out
    doc['rows'], doc['cols'] = fix_template(doc['rows']), fix_template(doc['cols'])
    doc['auto_rows'] = [fix_track(t) for t in doc['auto_rows']]
    doc['auto_cols'] = [fix_track(t) for t in doc['auto_cols']]
    return doc


class C12(PropCheck):
    id = 'C12'
    extractors = (c12_tables.generate,)
    modules = ('WpModel.Props.C12', 'WpModel.Props.C12Tracks', 'WpModel.Props.C12Grid2', 'WpModel.Witness.C12')
    trusted_base = (
        'modelled, not verified: flex_layout (steps 3-16 for empty block items) as Wp.Flex.layout; grid.py '
        '_intersect/_get_line/_get_placement/_get_span/_get_second_placement/_get_template_tracks/'
        '_get_sizing_functions/_resolve_tracks_sizes and grid_layout (placement, implicit tracks, sizing, '
        'alignment, item boxes for empty block items) as Wp.Grid.*',
        'the harness replaces itertools.count inside weasyprint.layout.grid by a counter bounded at 200 values '
        '(same bound in the model) and reads areas / track sizes through a pass-through wrapper of '
        '_resolve_tracks_sizes; a CPU-time limit (ITIMER_PROF) stands for the unbounded `while True` loops of the grid '
        'placement and for the `while not all frozen` loop of flex 9.7.5 (a layout that does not come back is the '
        'outcome err:NonTermination)',
        'float layout results are compared exactly when dyadic, within 1e-9 otherwise (counted as float_rounding)',
    )
    assumptions = (
        'flex items and grid items are empty block boxes with px sizes (no intrinsic content, no baselines)',
        'grid items that may span several tracks have no intrinsic size (no _distribute_extra_space effect)',
        'containers have a definite width, no padding / border / margin, direction ltr, and fit on one page',
    )

    # ------------------------------------------------------------------ correspondence
    def correspondence(self, run):
        docs.quiet()
        rng = run.rng
        rounding = {}

        sec_reg = tolerant_section(
            run, 'regressions',
            'corpus first: the documents of the repaired findings (known_findings.txt `fixed:` lines), compared with the '
            'models and, on a disagreement, judged by the oracles and by their replay functions; non-trivial = always')
        for ident, kind, data in regression_cases():
            if kind == 'flex':
                sec_reg.add(fx.wire(data), fx.impl_out(data), meta={'kind': 'flex', 'case': data, 'regression': ident},
                            tags=[ident])
            else:
                sec_reg.add(gx.wire_doc(data), gx.impl_doc(data, 5), meta={'kind': 'grid', 'doc': data,
                                                                          'regression': ident}, tags=[ident])
        sec_reg.flush()

        sec_tf = tolerant_section(
            run, 'grid-tracks-family',
            'deterministic: _resolve_tracks_sizes on a definite axis mixing a minmax(<length>, <length>) track that reaches '
            'its growth limit in 1.3 with flexible / stretched auto / fixed tracks (boxes 100 and 240, gaps 0 and 10, both '
            'directions): 1.3 -> 1.4 -> 1.5 hand over the free space that is really left; non-trivial = always')
        for case in gx.tracks_family():
            sec_tf.add(gx.wire_tracks_case(case), docs.outcome(lambda: gx.run_tracks_case(case)),
                       meta={'kind': 'tracks', 'case': case}, tags=[case['dir'], case['stretch']])
        sec_tf.flush()

        sec_dense = tolerant_section(
            run, 'grid-dense-family',
            'deterministic: dense packing x {row, column} flow, automatic items that leave a hole before the cursor, '
            'an item locked to one track of the other axis (span 1 or 2 on the auto-flow axis), one more automatic '
            'item (96 grids, the same in every run); non-trivial = always')
        for doc in gx.dense_family():
            sec_dense.add(gx.wire_doc(doc), gx.impl_doc(doc, 5), meta={'kind': 'grid', 'doc': doc},
                          tags=[f'flow:{doc["flow"]}', f'n{len(doc["items"])}'])
        sec_dense.flush()

        sec = tolerant_section(
            run, 'flex-doc',
            'rendered flex containers of 1..8 empty items (row/column, reverse, wrap, gaps, every justify-content / '
            'align-items / align-content, flex-basis/grow/shrink/order/margins/min/max/padding/border, `float` on one '
            'item in ten: it has no effect on flex and grid items): border boxes '
            'of the laid-out children and container height; non-trivial = at least two items or a flexing item')
        cases = [fx.gen_case(rng) for _ in range(run.n(2500, 24000))]
        hangs = 0          # layouts that did not come back (10 s of CPU each): after five the section stops
        for case, mtags in zip(cases, model_tags('flextags', [fx.wire(c) for c in cases])):
            if hangs >= 5:
                run.notes.append('flex-doc stopped early: five layouts did not terminate')
                break
            out = fx.impl_out(case)
            hangs += out == 'err:NonTermination'
            sec.add(fx.wire(case), out, meta={'kind': 'flex', 'case': case},
                    nontrivial=len(case['items']) >= 2 or any(it['grow'] for it in case['items']),
                    tags=mtags + [f'n{len(case["items"])}', f'justify:{case["justify"]}'])
        sec_adv = tolerant_section(
            run, 'flex-doc-adversarial',
            'same, with zero / negative / huge factors, sizes and margins, min > max, empty containers; '
            'non-trivial = the implementation returned a layout')
        cases = [fx.gen_case(rng, adversarial=True) for _ in range(run.n(400, 5000))]
        for case, mtags in zip(cases, model_tags('flextags', [fx.wire(c) for c in cases])):
            if hangs >= 5:
                break
            out = fx.impl_out(case)
            hangs += out == 'err:NonTermination'
            sec_adv.add(fx.wire(case), out, meta={'kind': 'flex', 'case': case}, nontrivial=out.startswith('ok'),
                        tags=mtags + [out.split()[0]])

        import math
        sec_m = run.section('flex-magnitude', 'int(log10(x)) of the 9.7.5.b magnitude test (Python floats) against the '
                            'exact digit count of the model, on dyadic x; non-trivial = x > 0')
        for _ in range(run.n(3000, 40000)):
            x = F(rng.choice([0, 1, 2, 3, 5, 7, 9, 10, 11, 64, 99, 100, 101, 120, 999, 1000, 1001, 5000,
                              rng.randrange(1, 4000)]), rng.choice([1, 1, 2, 4, 8, 64, 1024]))
            x = rng.choice([x, x, x, -x])
            out = str(int(math.log10(float(x)))) if x > 0 else '-inf'
            sec_m.add(sx.line('magnitude', x), out, meta={'kind': 'magnitude', 'x': x}, nontrivial=x > 0,
                      tags=['<1' if 0 < x < 1 else ('>=1' if x >= 1 else '<=0')])

        grid = gx.grid_mod()
        sec_i = run.section('grid-intersect', '_intersect on all positions -3..6 and sizes 0..4; non-trivial = both '
                            'sizes positive')
        for p1, s1, p2, s2 in itertools.product(range(-3, 7), range(0, 5), range(-3, 7), range(0, 5)):
            sec_i.add(sx.line('intersect', p1, s1, p2, s2), str(bool(grid._intersect(p1, s1, p2, s2))).lower(),
                      meta={'kind': 'intersect', 'args': [p1, s1, p2, s2]}, nontrivial=s1 > 0 and s2 > 0)

        sec_l = run.section('grid-get-line', '_get_line on random lines / line-name lists; non-trivial = named or '
                            'negative')
        for _ in range(run.n(3000, 60000)):
            p = gx.gen_place(rng, 0.6, 0.3)
            if p == 'auto':
                continue
            lines, side = gx.gen_lines(rng), rng.choice(['start', 'end'])

            def call(p=p, lines=lines, side=side):
                sp, num, ident, coord = grid._get_line(p, lines, side)
                return (f"({sp or 'none'} {'none' if num is None else num} {ident or 'none'} "
                        f"{'none' if coord is None else coord})")
            sec_l.add(sx.line('getline', gx.wire_place(p), lines, side), docs.outcome(call),
                      meta={'kind': 'getline', 'place': p, 'lines': lines, 'side': side},
                      nontrivial=p[2] is not None or (p[1] or 1) < 0, tags=['named' if p[2] else 'numeric'])

        sec_p = run.section('grid-get-placement', '_get_placement on random start/end pairs (numbers, spans, names, '
                            'negative numbers, and the family of spans counted in named lines towards a line carrying the name) and '
                            'line-name lists; non-trivial = not both auto')
        for _ in range(run.n(12000, 250000)):
            if rng.random() < 0.12:
                s, e, lines = gx.gen_named_span_case(rng)
            else:
                s, e = gx.gen_place(rng, 0.4, 0.25), gx.gen_place(rng, 0.4, 0.25)
                lines = gx.gen_lines(rng)
            out = docs.outcome(lambda: gx.canon_pair(grid._get_placement(s, e, lines)))
            kind = 'named' if any(p != 'auto' and p[2] for p in (s, e)) else 'numeric'
            sec_p.add(sx.line('placement', gx.wire_place(s), gx.wire_place(e), lines), out,
                      meta={'kind': 'placement', 'start': s, 'end': e, 'lines': lines},
                      nontrivial=not (s == 'auto' and e == 'auto'), tags=[kind, 'none' if out == 'none' else 'placed'])
        for p in ['auto', (None, 2, None), ('span', None, 'p'), ('span', 3, None), ('span', 2, 'q'), (None, None, 'p')]:
            sec_p.add(sx.line('span', gx.wire_place(p)), str(grid._get_span(p)),
                      meta={'kind': 'span', 'place': p}, tags=['span'])

        sec_s = run.section('grid-second-placement', '_get_second_placement (sparse and dense, row and column flow) '
                            'against random occupied areas; non-trivial = some area intersects the locked tracks')
        for _ in range(run.n(3000, 60000)):
            fp = (rng.randint(-2, 4), rng.randint(1, 3))
            ss = rng.choice(['auto', 'auto', ('span', rng.choice([1, 2, 3]), None),
                             ('span', rng.choice([1, 2, None]), 'p')])
            se = rng.choice(['auto', ('span', rng.choice([1, 2, 3]), None)]) if ss == 'auto' \
                else gx.gen_place(rng, 0.2, 0.1)
            lines = gx.gen_lines(rng)
            areas = [(rng.randint(-2, 5), rng.randint(-2, 5), rng.randint(1, 3), rng.randint(1, 3))
                     for _ in range(rng.choice([0, 1, 2, 3, 5]))]
            flow, dense = rng.choice(['row', 'column']), rng.random() < 0.5
            positions = dict(enumerate(areas))
            out = docs.outcome(lambda: gx.canon_pair(grid._get_second_placement(fp, ss, se, lines, positions, flow, dense)))
            hit = any(grid._intersect(a[1], a[3], *fp) if flow == 'row' else grid._intersect(a[0], a[2], *fp)
                      for a in areas)
            sec_s.add(sx.line('second', list(fp), gx.wire_place(ss), gx.wire_place(se), lines,
                              [list(a) for a in areas], flow, dense), out,
                      meta={'kind': 'second', 'fp': fp, 'ss': ss, 'se': se, 'lines': lines, 'areas': areas,
                            'flow': flow, 'dense': dense},
                      nontrivial=hit, tags=['dense' if dense else 'sparse', out if out.startswith('err') else 'ok'])

        sec_t = run.section('grid-template', '_get_template_tracks (names, sizes, minmax, repeat) and '
                            '_get_sizing_functions; non-trivial = contains repeat() or minmax()')
        for _ in range(run.n(2000, 40000)):
            t = gx.gen_template(rng, names=0.5)
            out = docs.outcome(lambda: gx.canon_template_result(grid._get_template_tracks(gx.py_template(t))))
            sec_t.add(sx.line('template', gx.wire_template(t)), out, meta={'kind': 'template', 'template': t},
                      nontrivial=t is not None and any(e[0] == 'repeat' for e in t))
            tr = gx.gen_track(rng)
            out = docs.outcome(lambda: '(' + ' '.join(
                gx.show_breadth(b) for b in grid._get_sizing_functions(gx.py_track(tr))) + ')')
            sec_t.add(sx.line('sizing', gx.wire_track(tr)), out, meta={'kind': 'sizing', 'track': tr},
                      nontrivial=isinstance(tr, tuple) and tr[0] == 'minmax')

        sec_r = tolerant_section(run, 'grid-resolve-tracks', '_resolve_tracks_sizes on px / % / fr / auto / min-content / '
                            'max-content / minmax tracks, definite and auto box size, gaps, items of fixed intrinsic '
                            'width; non-trivial = an fr track or an item')
        for _ in range(run.n(5000, 100000)):
            case = gx.gen_tracks_case(rng)
            out = docs.outcome(lambda: gx.run_tracks_case(case))
            has_fr = any(not isinstance(b, str) and b[0] == 'fr' for _, b in case['fns'])
            sec_r.add(gx.wire_tracks_case(case), out, meta={'kind': 'tracks', 'case': case},
                      nontrivial=has_fr or bool(case['contribs']),
                      tags=['fr' if has_fr else 'no-fr', case['dir'], out if out.startswith('err') else 'ok'])

        sec_g = tolerant_section(
            run, 'grid-doc',
            'rendered grids (templates with names / repeat / minmax, template areas, auto tracks, row / column / dense '
            'flow, gaps, every justify-content / align-content, items placed by numbers, spans, names, areas or '
            'automatically, justify-self / align-self): areas chosen by the placement algorithm, track sizes, border '
            'boxes of the laid-out children, container height; non-trivial = some item is auto-placed')
        seconds = 3 if not run.thorough else 10
        gdocs = [gx.gen_doc(rng) for _ in range(run.n(700, 8000))]
        for doc, mtags in zip(gdocs, model_tags('gridtags', [gx.wire_doc(d) for d in gdocs])):
            out = gx.impl_doc(doc, seconds)
            auto = any(it['rs'] == 'auto' or it['cs'] == 'auto' for it in doc['items'])
            sec_g.add(gx.wire_doc(doc), out, meta={'kind': 'grid', 'doc': doc}, nontrivial=auto,
                      tags=mtags + [f'n{len(doc["items"])}'])
        # the same computed values written with the shorthands (`flex`, `flex-flow`, `gap`, `grid-row`, `grid-column`)
        sec_sh = tolerant_section(
            run, 'shorthand-doc',
            'flex and grid documents written with the shorthands flex / flex-flow / gap / grid-row / grid-column / '
            'grid-area (one to four components) '
            'against the models fed with the longhand values; non-trivial = always')
        for _ in range(run.n(250, 3000)):
            case = fx.gen_case(rng)
            if hangs >= 5:
                continue                 # (the random draws above are still made: same documents in the next sections)
            out = fx.impl_out(case, shorthand=True)
            hangs += out == 'err:NonTermination'
            sec_sh.add(fx.wire(case), out, meta={'kind': 'flex', 'case': case, 'shorthand': True}, tags=['flex'])
        for _ in range(run.n(120, 1500)):
            doc = gx.gen_doc(rng)
            sec_sh.add(gx.wire_doc(doc), gx.impl_doc(doc, seconds, shorthand=True),
                       meta={'kind': 'grid', 'doc': doc, 'shorthand': True}, tags=['grid'])
        # `grid-area` in its one- to four-component forms (css-grid 8.4: omitted components are derived from the start
        # values when those are custom idents): the model gets the longhands of the specified expansion
        for _ in range(run.n(160, 2000)):
            doc = gx.area_variant(gx.gen_doc(rng), rng)
            ncomp = [len(gx.area_components(it)) for it in doc['items']]
            sec_sh.add(gx.wire_doc(doc), gx.impl_doc(doc, seconds, shorthand='area'),
                       meta={'kind': 'grid', 'doc': doc, 'shorthand': 'area'},
                       tags=['grid-area'] + sorted({f'grid-area:{n}-components' for n in ncomp}))
        # branches of the models that no case of this run went through
        hit = set(sec.tags) | set(sec_adv.tags) | set(sec_g.tags)
        known = set(FLEX_BRANCHES + GRID_BRANCHES)
        run.extra['model_branches'] = {
            'flex': len(FLEX_BRANCHES), 'grid': len(GRID_BRANCHES),
            'never_hit': [b for b in FLEX_BRANCHES + GRID_BRANCHES if b not in hit],
            'unlisted': sorted(t for t in hit if ':' in t and t not in known and not t.startswith(('justify:',))),
            'histogram': {s.name: dict(s.tags) for s in (sec, sec_adv, sec_g)}}
        for s in (sec_reg, sec_tf, sec_dense, sec, sec_adv, sec_r, sec_g, sec_sh):
            s.flush()
            rounding[s.name] = s.float_rounding
        run.extra['float_rounding'] = rounding
        run.extra['exhaustive'] = True
        run.extra['exhaustive_what'] = '_intersect on all positions -3..6 x sizes 0..4 (2500 quadruples)'

    # ------------------------------------------------------------------ judge
    def judge(self, d):
        meta = d.get('meta') or {}
        kind = meta.get('kind')
        if meta.get('regression') in FIXED:
            ident = meta['regression']
            try:
                back = FIXED[ident]()
            except Exception as exc:  # noqa: BLE001
                back = f'{type(exc).__name__}'
            if back:
                from vlib import findings
                what = {f['id']: f['what'] for f in findings.for_property('C12', kind='fixed')}
                return (f'regression of the repaired finding {ident}: its committed input fails again'
                        + (f' ({what[ident]})' if ident in what else '') + f'; implementation output: {d["impl"][:300]}')
        if kind == 'flex':
            case = case_from_meta(meta['case'])
            if d['impl'].startswith('err:'):
                return f'flex_layout raised {d["impl"][4:]}'
            if d['impl'].startswith('pages='):
                return None
            parsed = fx.parse_out(d['impl'])
            return (orc.flex_violation(case, parsed) or orc.flex_cross_violation(case, parsed)
                    or orc.flex_lines_violation(case, parsed))
        if kind == 'intersect':
            p1, s1, p2, s2 = meta['args']
            want = orc.intersect_reference(p1, s1, p2, s2)
            if s1 > 0 and s2 > 0 and d['impl'] != str(want).lower():
                return f'_intersect({p1}, {s1}, {p2}, {s2}) = {d["impl"]}: half-open intervals overlap is {want}'
            return None
        if kind == 'placement':
            return placement_violation(tuple_place(meta['start']), tuple_place(meta['end']), meta['lines'], d['impl'])
        if kind == 'getline':
            return getline_violation(tuple_place(meta['place']), meta['lines'], meta['side'], d['impl'])
        if kind == 'grid':
            doc = doc_from_meta(meta['doc'])
            return (orc.grid_doc_violation(doc, d['impl']) or orc.dense_violation(doc, d['impl'])
                    or tracks_doc_violation(doc, d['impl'])
                    or orc.grid_geometry_violation(doc, d['impl']))
        if kind == 'tracks':
            return tracks_violation(case_from_meta(meta['case']), d['impl'])
        if kind == 'second':
            return orc.second_violation(second_meta(meta), d['impl'])
        if kind == 'template':
            return template_violation(doc_from_meta({'rows': meta['template'], 'cols': None, 'auto_rows': [],
                                                     'auto_cols': [], 'items': []})['rows'], d['impl'])
        return None

    # ------------------------------------------------------------------ search
    def search(self, run, failures):
        """Documents in the judged domain of the oracles, rendered by the implementation."""
        docs.quiet()
        found = []
        rng = run.rng
        for ident, replay in FIXED.items():            # the repaired findings first: each must stay repaired
            run.search_stats['evaluations'] += 1
            try:
                back = replay()
            except Exception as exc:  # noqa: BLE001
                back = f'{type(exc).__name__}'
            if back:
                found.append({'what': f'regression of the repaired finding {ident}: its committed input fails again',
                              'input': {'meta': {'kind': 'fixed-replay', 'id': ident}, 'html': LAST_HTML[0]},
                              'signature': f'fixed:{ident}'})
        if found:
            return found[:3]

        def try_flex(case):
            out = fx.impl_out(case)
            parsed = fx.parse_out(out)
            what = (f'flex_layout raised {out[4:]}' if out.startswith('err:')
                    else (orc.flex_violation(case, parsed) or orc.flex_cross_violation(case, parsed)
                          or orc.flex_lines_violation(case, parsed)))
            if what:
                found.append({'what': what, 'input': {'meta': {'kind': 'flex', 'case': case},
                                                      'html': fx.html_of(case), 'impl': out},
                              'signature': fx.wire(case)})

        def try_grid(doc):
            out = gx.impl_doc(doc, 6)
            what = (orc.grid_doc_violation(doc, out) or orc.dense_violation(doc, out) or tracks_doc_violation(doc, out)
                    or orc.grid_geometry_violation(doc, out))
            if what:
                found.append({'what': what, 'input': {'meta': {'kind': 'grid', 'doc': doc},
                                                      'html': gx.html_of(doc), 'impl': out},
                              'signature': gx.wire_doc(doc)})

        # 1. the disagreeing documents themselves, projected into the domain the oracles can judge (positive unnamed
        #    lines, no template areas / no paddings, min / max, ...), a few random projections each
        broken = [f['detail'] for f in failures if f.get('kind') == 'correspondence' and isinstance(f.get('detail'), dict)]
        dense_bias = False
        for d in broken[:40]:
            meta = d.get('meta') or {}
            for _ in range(3):
                run.search_stats['evaluations'] += 1
                if meta.get('kind') == 'grid':
                    doc = doc_from_meta(meta['doc'])
                    dense_bias = dense_bias or bool(doc['dense'])
                    try_grid(simplify_grid_doc(doc, rng))
                elif meta.get('kind') == 'flex':
                    try_flex(simplify_flex_case(case_from_meta(meta['case']), rng))
                if len(found) >= 3:
                    return found
        # 2. fresh documents of the judged domain
        grid_only = bool(broken) and all((d.get('meta') or {}).get('kind') == 'grid' for d in broken)
        flex_only = bool(broken) and all((d.get('meta') or {}).get('kind') == 'flex' for d in broken)
        budget = 4000 if run.thorough else 1200
        for k in range(budget):
            run.search_stats['evaluations'] += 1
            if (k % 3 != 2 and not grid_only) or flex_only:
                case = simple_flex_case(rng)
                out = fx.impl_out(case)
                parsed = fx.parse_out(out)
                what = (f'flex_layout raised {out[4:]}' if out.startswith('err:')
                        else (orc.flex_violation(case, parsed) or orc.flex_cross_violation(case, parsed)
                    or orc.flex_lines_violation(case, parsed)))
                if what:
                    found.append({'what': what, 'input': {'meta': {'kind': 'flex', 'case': case},
                                                          'html': fx.html_of(case), 'impl': out},
                                  'signature': fx.wire(case)})
            else:
                doc = simple_grid_doc(rng)
                if dense_bias:
                    doc['dense'] = True
                out = gx.impl_doc(doc, 6)
                what = (orc.grid_doc_violation(doc, out) or orc.dense_violation(doc, out) or tracks_doc_violation(doc, out)
                        or orc.grid_geometry_violation(doc, out))
                if what:
                    found.append({'what': what, 'input': {'meta': {'kind': 'grid', 'doc': doc},
                                                          'html': gx.html_of(doc), 'impl': out},
                                  'signature': gx.wire_doc(doc)})
            if len(found) >= 3:
                break
        return found

    def finding_replays(self):
        return FINDINGS

    def replay(self, data):
        inp = data.get('input', {})
        meta = inp.get('meta') or {}
        kind = meta.get('kind')
        docs.quiet()
        if kind == 'fixed-replay':
            return (f'regression of the repaired finding {meta["id"]}' if FIXED[meta['id']]() else None)
        if kind == 'flex':
            case = case_from_meta(meta['case'])
            out = fx.impl_out(case, shorthand=bool(meta.get('shorthand')))
            if out.startswith('err:'):
                return f'flex_layout raised {out[4:]}'
            parsed = fx.parse_out(out)
            return (orc.flex_violation(case, parsed) or orc.flex_cross_violation(case, parsed)
                    or orc.flex_lines_violation(case, parsed))
        if kind == 'grid':
            doc = doc_from_meta(meta['doc'])
            out = gx.impl_doc(doc, 10, shorthand=meta.get('shorthand') or False)   # True, 'area' or False
            return (orc.grid_doc_violation(doc, out) or orc.dense_violation(doc, out) or tracks_doc_violation(doc, out)
                    or orc.grid_geometry_violation(doc, out))
        grid = gx.grid_mod()
        if kind == 'intersect':
            p1, s1, p2, s2 = meta['args']
            got = bool(grid._intersect(p1, s1, p2, s2))
            if got != orc.intersect_reference(p1, s1, p2, s2):
                return f'_intersect({p1}, {s1}, {p2}, {s2}) = {got}'
            return None
        if kind == 'placement':
            start, end = tuple_place(meta['start']), tuple_place(meta['end'])
            out = docs.outcome(lambda: gx.canon_pair(grid._get_placement(start, end, meta['lines'])))
            return placement_violation(start, end, meta['lines'], out)
        if kind == 'getline':
            place = tuple_place(meta['place'])

            def call():
                sp, num, ident, coord = grid._get_line(place, meta['lines'], meta['side'])
                return (f"({sp or 'none'} {'none' if num is None else num} {ident or 'none'} "
                        f"{'none' if coord is None else coord})")
            return getline_violation(place, meta['lines'], meta['side'], docs.outcome(call))
        if kind == 'second':
            m = second_meta(meta)
            out = docs.outcome(lambda: gx.canon_pair(grid._get_second_placement(
                m['fp'], m['ss'], m['se'], m['lines'], dict(enumerate(m['areas'])), m['flow'], m['dense'])))
            return orc.second_violation(m, out)
        if kind == 'template':
            t = doc_from_meta({'rows': meta['template'], 'cols': None, 'auto_rows': [], 'auto_cols': [],
                               'items': []})['rows']
            out = docs.outcome(lambda: gx.canon_template_result(grid._get_template_tracks(gx.py_template(t))))
            return template_violation(t, out)
        if kind == 'tracks':
            case = case_from_meta(meta['case'])
            case['fns'] = [(tuple(a) if isinstance(a, list) else a, tuple(b) if isinstance(b, list) else b)
                           for a, b in case['fns']]
            case['contribs'] = [tuple(c) for c in case['contribs']]
            return tracks_violation(case, docs.outcome(lambda: gx.run_tracks_case(case)))
        return None


def placement_violation(start, end, lines, impl):
    """`_get_placement` against css-grid 8.3 (numbers, names, spans, named spans; positive numbers)."""
    want = orc.placement_reference(start, end, None)
    if want is None:
        want = orc.placement_reference_named(start, end, lines)
    if want is None:
        return None
    shown = 'none' if want == 'auto' else f'({want[0]} {want[1]})'
    if impl != shown:
        return (f'_get_placement({orc.show_place(start)} / {orc.show_place(end)}, line names {lines}) = {impl}, '
                f'css-grid line placement gives {shown}')
    return None


def getline_violation(place, lines, side, impl):
    """`_get_line` for `<integer> <name>` / `<name>` / `<integer>` (positive): index of the line."""
    want = orc.named_line_reference(place, lines, side)
    if want is None or not impl.startswith('('):
        return None if want is None or impl.startswith('(') else f'_get_line({place}) raised {impl[4:]}'
    got = impl.strip('()').split()[-1]
    if got != str(want):
        return (f'_get_line({orc.show_place(place)}, line names {lines}, {side}) gives line index {got}, css-grid '
                f'gives {want}')
    return None


def second_meta(meta):
    m = dict(meta)
    m['fp'] = tuple(m['fp'])
    m['ss'], m['se'] = tuple_place(m['ss']), tuple_place(m['se'])
    m['areas'] = [tuple(a) for a in m['areas']]
    return m


def simple_flex_case(rng):
    """A flex case inside the judged domain of the oracle (factor sums >= 1, definite or zero base sizes)."""
    return simplify_flex_case(fx.gen_case(rng), rng)


def simplify_flex_case(case, rng):
    """Project a flex case into the judged domain of the oracle."""
    case['justify'] = rng.choice(sorted(orc.JUDGED_JUSTIFY) + ['left', 'right', 'start', 'end'])
    for it in case['items']:
        it['grow'] = rng.choice([0, 1, 1, 2, 3])
        it['shrink'] = rng.choice([0, 1, 1, 2])
        if it['basis'] == 'content':
            it['basis'] = 'auto'
        if not case['dir'].startswith('row'):
            it['mt'] = it['mt'] or 0
            it['mb'] = it['mb'] or 0
    return case


def simple_grid_doc(rng):
    """A grid whose items use positive unnamed lines, numeric spans or auto."""
    return simplify_grid_doc(gx.gen_doc(rng), rng)


def simplify_grid_doc(doc, rng):
    """Project a grid document into the judged domain of the oracles (positive unnamed lines, numeric spans, auto)."""
    doc['areas'] = None

    def plain(p):
        if p == 'auto':
            return p
        span, number, _ = p
        number = abs(number) if number else number
        if span:
            return 'auto' if rng.random() < 0.5 else ('span', number or 1, None)
        return (None, number or 1, None)
    for it in doc['items']:
        it['rs'], it['re'], it['cs'], it['ce'] = (plain(it[k]) for k in ('rs', 're', 'cs', 'ce'))
        for a, b in (('rs', 're'), ('cs', 'ce')):
            start, end = it[a], it[b]
            if start != 'auto' and start[0] == 'span':
                if end != 'auto' and end[0] != 'span':
                    # `span n / line`: keep the area inside the grid (no track before the explicit grid)
                    it[b] = (None, max(end[1], start[1] + 1), None)
                elif end != 'auto':
                    it[b] = 'auto'           # two spans: the end one is dropped anyway
            elif start == 'auto' and end != 'auto' and end[0] != 'span':
                it[b] = (None, max(end[1], 2), None)
            # an item that may span several tracks has no intrinsic size (assumption of the models)
            spanning = any(p != 'auto' and p[0] == 'span' and p[1] > 1 for p in (it[a], it[b])) or (
                it[a] != 'auto' and it[b] != 'auto' and it[a][0] is None and it[b][0] is None)
            if spanning:
                for k in (('height', 'mt', 'mb', 'pt', 'pb', 'bt', 'bb') if a == 'rs' else
                          ('width', 'ml', 'mr', 'pl', 'pr', 'bl', 'br')):
                    it[k] = None if k in ('height', 'width') else 0
    for key in ('rows', 'cols'):
        t = doc[key]
        if t is not None:
            doc[key] = [('names', []) if e[0] == 'names' else e for e in t]
    return doc


def bounded_tracks_violation(case, out):
    """Tracks that are all `px` / `%` or `minmax()` of those (no fr, no content sizing), definite box, no item:
    every track stays within [min, max(min, max)], and reaches its maximum when there is room for all maxima."""
    def length(b):
        if isinstance(b, str) or b[0] == 'fr':
            return None
        return F(b[1]) if b[0] == 'px' else F(case['box']) * F(b[1]) / 100
    bounds = []
    for mn, mx in case['fns']:
        lo, hi = length(mn), length(mx)
        if lo is None or hi is None:
            return None
        bounds.append((lo, max(lo, hi)))
    sizes = [F(t[0]) for t in sx.loads_line(out)[0]]
    room = F(case['box']) - F(case['gap']) * (len(bounds) - 1)
    for k, ((lo, hi), size) in enumerate(zip(bounds, sizes)):
        if not lo <= size <= hi:
            return f'tracks {case["fns"]} in {case["box"]}: track {k} is {size}, outside [{lo}, {hi}]'
    # (that every track reaches its maximum when there is room for all of them is the known finding
    # grid-maximize-no-redistribution: one pass, the share of the tracks already at their limit is lost)
    if room >= sum(h for _, h in bounds) and all(size + room / len(bounds) <= hi or size == hi
                                                   for (_, hi), size in zip(bounds, sizes)) \
            and any(size != hi for (_, hi), size in zip(bounds, sizes)):
        return (f'tracks {case["fns"]} in {case["box"]} with gap {case["gap"]}: sizes {sizes} although there is room '
                f'for every maximum')
    return None


def tracks_fit_violation(case, out):
    """css-grid 12.3-12.7 on a definite axis without items, tracks `px` / `%` / `minmax(<length>, <length> | <flex>)` /
    `<flex>`: when the minimum sizes and the gaps fit in the container, the tracks and the gaps never overflow it
    (maximize, expand-flexible and stretch only hand out free space that exists), and they fill it exactly when a
    flexible track with an `auto` minimum can absorb what is left (factor sum >= 1, or any factor sum under
    `normal` / `stretch` content alignment, where the auto minimum is stretched)."""
    def length(b):
        return F(b[1]) if b[0] == 'px' else F(case['box']) * F(b[1]) / 100
    lows, frs, absorbing = [], F(0), True
    for mn, mx in case['fns']:
        if isinstance(mx, str) or (isinstance(mn, str) and mn != 'auto'):
            return None                  # content-sized tracks: not judged here
        if mx[0] == 'fr':
            if mn != 'auto':
                return None              # known finding grid-inflexible-fr-no-restart (a flexible track below its minimum)
            frs += F(mx[1])
            lows.append(F(0))
        elif mn == 'auto':
            return None
        else:
            lows.append(length(mn))
    n = len(lows)
    room = F(case['box']) - F(case['gap']) * (n - 1)
    if sum(lows) > room:
        return None
    sizes = [F(t[0]) for t in sx.loads_line(out)[0]]
    total = sum(sizes) + F(case['gap']) * (n - 1)
    if total > F(case['box']) + F(1, 10**6):
        return (f'tracks {case["fns"]} in {case["box"]} with gap {case["gap"]}: sizes {[float(v) for v in sizes]} and the '
                f'gaps add up to {float(total)}: they overflow the container although the minimum sizes fit')
    fills = frs >= 1 or (frs > 0 and case['stretch'] in ('normal', 'stretch'))
    if fills and absorbing and abs(total - F(case['box'])) > F(1, 10**6):
        return (f'tracks {case["fns"]} in {case["box"]} with gap {case["gap"]}: sizes {[float(v) for v in sizes]} and the '
                f'gaps add up to {float(total)}, not to the container size, although a flexible track can absorb the rest')
    return None


def tracks_violation(case, out):
    """`tracks_partition` stated on `_resolve_tracks_sizes`: with a definite box size, no item, px / % tracks and at
    least one `fr` track (factor sum >= 1) whose share is not below a fixed minimum: sizes + gaps = box size,
    px / % tracks keep their size, fr tracks are proportional to their factors."""
    if out.startswith('err:'):
        return None if case['contribs'] else f'_resolve_tracks_sizes raised {out[4:]}'
    if case['box'] == 'auto' or case['contribs']:
        return None
    bounded = bounded_tracks_violation(case, out) or tracks_fit_violation(case, out)
    if bounded:
        return bounded
    fns = case['fns']
    if (case['stretch'] in ('normal', 'stretch') and any(f == ('auto', 'auto') for f in fns) and
            all(f == ('auto', 'auto') or (f[0] == f[1] and not isinstance(f[0], str) and f[0][0] == 'px') for f in fns)):
        free = F(case['box']) - sum(F(f[0][1]) for f in fns if f != ('auto', 'auto')) - F(case['gap']) * (len(fns) - 1)
        if free > 0:
            share = free / sum(1 for f in fns if f == ('auto', 'auto'))
            got = [F(t[0]) for t in sx.loads_line(out)[0]]
            for k, f in enumerate(fns):
                want = share if f == ('auto', 'auto') else F(f[0][1])
                if got[k] != want:
                    return (f'tracks {fns} in {case["box"]} with gap {case["gap"]} ({case["stretch"]}): track {k} is '
                            f'{got[k]}, expected {want} (auto tracks share the free space equally)')
        return None
    fixed, frs = F(0), []
    for k, (mn, mx) in enumerate(case['fns']):
        if mn != mx and not (mn == 'auto' and not isinstance(mx, str) and mx[0] == 'fr'):
            return None
        if isinstance(mx, str):
            return None
        if mx[0] == 'fr':
            frs.append((k, F(mx[1])))
        elif mx[0] == 'px':
            fixed += F(mx[1])
        else:
            fixed += F(case['box']) * F(mx[1]) / 100
    if not frs:
        return None
    fr_sum = sum(f for _, f in frs)
    if fr_sum < 1 and case['stretch'] in ('normal', 'stretch'):
        return None                      # the rest of the space is given to the tracks by 1.5 (stretch)
    n = len(case['fns'])
    free = F(case['box']) - fixed - F(case['gap']) * (n - 1)
    if free <= 0:
        return None
    sizes = [F(t[0]) for t in sx.loads_line(out)[0]]
    # css-grid 12.7.1: a factor sum below 1 counts as 1 (the tracks only take their fraction)
    unit = free / max(fr_sum, 1)
    problems = []
    for k, (mn, mx) in enumerate(case['fns']):
        if mx[0] == 'fr':
            want = unit * F(mx[1])
        elif mx[0] == 'px':
            want = F(mx[1])
        else:
            want = F(case['box']) * F(mx[1]) / 100
        if sizes[k] != want:
            problems.append(f'track {k} ({mx[0]} {mx[1]}) is {sizes[k]}, expected {want}')
    if problems:
        return f'tracks {case["fns"]} in {case["box"]} with gap {case["gap"]}: ' + '; '.join(problems[:3])
    return None


def template_violation(template, out):
    """`repeat(n, …)` is expanded n times, line names of adjacent entries are merged, sizes keep their order."""
    if template is None:
        return None if out == '((n))' else f'_get_template_tracks(none) = {out}'
    if out.startswith('err:'):
        return f'_get_template_tracks raised {out[4:]}'
    want = [[]]
    for e in template:
        if e[0] == 'names':
            want[-1].extend(e[1])
        elif e[0] == 'size':
            want += [e[1], []]
        else:
            for _ in range(e[1]):
                for x in e[2]:
                    if x[0] == 'names':
                        want[-1].extend(x[1])
                    else:
                        want += [x[1], []]
    shown = '(' + ' '.join('(' + ' '.join(['n'] + list(w)) + ')' if isinstance(w, list)
                           else f'(s {gx.show_track(gx.py_track(w))})' for w in want) + ')'
    if out != shown:
        return f'_get_template_tracks({gx.css_template(template)}) = {out}, expected {shown}'
    return None


def tracks_doc_violation(doc, out):
    """Tracks of a rendered grid made of px and fr tracks only, on an axis with a definite size and no item
    contributing a size on that axis: px tracks keep their size, fr tracks share the free space in proportion to
    their factors (a factor sum below 1 counting as 1, css-grid 12.7.1), and with a sum >= 1 tracks and gaps
    partition the container."""
    if not out.startswith('ok '):
        return None
    toks = sx.loads_line(out)
    found = {}
    for k, t in enumerate(toks):
        if t in ('cols=', 'rows='):
            found[t[:-1]] = [F(v) for v in toks[k + 1]]
    axes = (('cols', 'columns', doc['cols'], doc['width'], doc['colgap'], doc['jc'],
             ('width', 'ml', 'mr', 'pl', 'pr', 'bl', 'br')),
            ('rows', 'rows', doc['rows'], doc['height'], doc['rowgap'], doc['ac'],
             ('height', 'mt', 'mb', 'pt', 'pb', 'bt', 'bb')))
    for key, what, template, box, gap, content, keys in axes:
        sizes = found.get(key)
        if sizes is None:
            continue
        tracks = []
        for e in template or []:
            if e[0] == 'size':
                tracks.append(e[1])
            elif e[0] == 'repeat':
                tracks.extend([x[1] for x in e[2] if x[0] == 'size'] * e[1])
        auto = doc['auto_cols'] if key == 'cols' else doc['auto_rows']
        positions_ok = 'pos=' in toks and all(int(p[1]) >= 0 and int(p[2]) >= 0 for p in toks[toks.index('pos=') + 1])
        if (len(sizes) > len(tracks) and positions_ok and doc['areas'] is None and
                all(not isinstance(t, str) and t[0] == 'px' for t in auto)):
            # implicit tracks after the explicit grid take the grid-auto-rows / -columns sizes in turn
            for k in range(len(tracks), len(sizes)):
                want = F(auto[(k - len(tracks)) % len(auto)][1])
                if sizes[k] != want:
                    return (f'{what}: implicit track {k} is {float(sizes[k])}, grid-auto-{what} '
                            f'{[gx.css_track(t) for t in auto]} gives {float(want)}')
        if template is None or box is None:
            continue
        if any(any(it[k] for k in keys) for it in doc['items']):
            continue                     # an item's contribution may make an fr track inflexible
        if len(tracks) != len(sizes) or not tracks:
            continue                     # implicit tracks were added
        if (all(t == 'auto' or (not isinstance(t, str) and t[0] == 'px') for t in tracks) and 'auto' in tracks
                and content in ('normal', 'stretch')):
            # 1.5: the free space is shared equally by the auto tracks
            free = F(box) - sum(F(t[1]) for t in tracks if t != 'auto') - F(gap) * (len(tracks) - 1)
            if free > 0:
                share = free / sum(1 for t in tracks if t == 'auto')
                for t, size in zip(tracks, sizes):
                    want = share if t == 'auto' else F(t[1])
                    if abs(size - want) > F(1, 10**6):
                        return (f'{what} {[gx.css_track(t) for t in tracks]} in {box}px with gap {gap} '
                                f'({content}): sizes {[float(c) for c in sizes]}, expected {float(want)} for '
                                f'{gx.css_track(t)} (auto tracks share the free space equally)')
            continue
        if any(isinstance(t, str) or t[0] not in ('px', 'fr') for t in tracks):
            continue
        frs = sum(F(t[1]) for t in tracks if t[0] == 'fr')
        if frs == 0:
            continue
        if frs < 1:
            if content in ('normal', 'stretch'):
                continue                 # stretched over the free space by 1.5
            frs = F(1)
        free = F(box) - sum(F(t[1]) for t in tracks if t[0] == 'px') - F(gap) * (len(tracks) - 1)
        if free <= 0:
            continue
        for t, size in zip(tracks, sizes):
            want = F(t[1]) if t[0] == 'px' else free * F(t[1]) / frs
            if abs(size - want) > F(1, 10**6):
                return (f'{what} {[gx.css_track(t) for t in tracks]} in {box}px with gap {gap}: sizes '
                        f'{[float(c) for c in sizes]}, expected {float(want)} for {gx.css_track(t)} (px tracks keep '
                        f'their size, fr tracks share the free space in proportion, a factor sum below 1 counts as 1)')
    return None


def write_corpus():
    """corpus/C12/<finding id>.json: the minimal document of every listed finding (run by hand)."""
    import json
    from vlib import findings
    from vlib.paths import CORPUS
    (CORPUS / 'C12').mkdir(parents=True, exist_ok=True)
    what = {f['id']: f['what'] for f in findings.for_property('C12') + findings.for_property('C12', kind='fixed')}
    for ident, replay in list(FINDINGS.items()) + list(FIXED.items()):
        LAST_HTML[0] = None
        try:
            still = bool(replay())
        except Exception as exc:  # noqa: BLE001
            still = f'{type(exc).__name__}'
        (CORPUS / 'C12' / f'{ident}.json').write_text(json.dumps(
            {'id': ident, 'html': LAST_HTML[0], 'what': what.get(ident), 'fails_on_pinned_tree': still}, indent=1))


PROP = C12()

MANIFEST = {
    'design_ref': 'DESIGN.md §4 C12',
    'technique': 'Lean 4 theorems over hand-written executable models of flex_layout and of the grid placement / track '
                 'sizing functions; exact executable correspondence with the real code (rendered documents for flex '
                 'and grid_layout, direct calls for the private grid functions); model branch tags per case',
    'text': 'Proved for all inputs on the models: order-modified document order is a stable sort and survives the whole '
            'layout (lines, wrap-reverse, *-reverse); step-5 lines partition the items, fit the main size and are '
            'maximal; the 9.7 loop freezes an item per pass (min violations, max violations or all) and terminates; '
            'whatever the number of passes, what is left of the main size after the last pass is exactly minus its total '
            'min/max violation, so a line whose last violations cancel is filled exactly, with proportional shares in '
            'the single-pass case; every used main size is within the item min / max sizes; justify-content spacing, '
            'auto margins absorb positive free space only, align-self / stretch / auto cross margins, align-content '
            'stretch and one translation per line; _intersect is half-open interval overlap; numeric line placement '
            '(positive numbers), named lines (n-th occurrence) and template areas; auto-placed grid items (step 1.4, '
            'dense step 1.2) overlap nothing placed before, the sparse cursor never moves backwards; px / % / minmax / fr '
            'tracks: 1.3 conserves space and keeps tracks within bounds, tracks and gaps partition the container; an '
            'item margin box is its area (stretch) or aligned inside it (start / center / end, any margins, paddings, '
            'borders). Keyword sets of the alignment branches and the graphs of _intersect / _get_placement / _get_span '
            'are regenerated from the source each run.',
    'note': 'Trusted: Lean kernel, the AST/graph translator, the correspondence harness (sampled, empty block items, '
            'definite container width). Seven known findings (auto top/bottom margins zeroed, fractional factor sums, '
            'content base size clamped, negative grid lines, tracks before the explicit grid, hang of a span to a '
            'missing line name, single-pass maximize) are witnessed in Witness/C12.lean and replayed each run '
            '(corpus/C12); the corresponding theorems carry explicit hypotheses. Fifteen repaired findings are kept as '
            'regression theorems (Witness/C12.lean `..._fixed`), as corpus-first correspondence cases (section '
            '`regressions`) and as replay functions run first by the failing-input search. Intrinsic sizing, baselines, '
            'auto-fit/auto-fill, subgrid and spanning items over content-sized tracks are not modelled.',
}
