"""C11 — floats and positioned boxes obey the CSS 2.1 placement rules."""
from fractions import Fraction as F
import itertools
import math

from extract import float_tests
from harness import c11_docs, docs
from harness import c11_mocks as mk
from vlib import sx
from vlib.framework import PropCheck

SIDES = ('left', 'right')
CLEARS = ('none', 'left', 'right', 'both')


# ---------------------------------------------------------------------------------------------
# wire helpers

def shape_wire(box):
    return [box.position_x, box.position_y, box.margin_width(), box.margin_height(), box.style['float']]


def fmt(*values):
    return ' '.join(sx.dumps(v) for v in values)


def fmt_len(v):
    return 'auto' if v == 'auto' else sx.atom(v)


# ---------------------------------------------------------------------------------------------
# generators (every choice from the rng passed in)

def gen_cb(rng, adversarial=False):
    if adversarial and rng.random() < 0.3:
        return [mk.dyadic(rng, -50, 50), rng.choice([F(0), F(1, 4), F(10 ** 6), mk.dyadic(rng, 0, 30)]),
                rng.random() < 0.5]
    return [mk.dyadic(rng, 0, 40, 2), F(rng.choice([60, 80, 100, 120, 150, 200, 300])), rng.random() < 0.3]


def gen_float_box(rng, cb, y, adversarial=False):
    """wire of a float to place: (px py mt mb ml mr bw bh float clear kind)."""
    cw = cb[1]
    r = rng.random()
    if adversarial and r < 0.25:
        bw = rng.choice([F(0), cw, cw + F(1, 4), cw * 2, F(10 ** 6)])
    elif r < 0.7:
        bw = F(rng.randint(1, max(1, int(cw * 4 * 0.6))), 4)
    else:
        bw = F(rng.randint(1, max(1, int(cw))), 1)
    r = rng.random()
    if adversarial and r < 0.3:
        bh = rng.choice([F(0), F(0), F(1, 4), F(10 ** 5)])
    else:
        bh = F(rng.randint(1, 160), 4)

    def margin():
        r = rng.random()
        if r < 0.55:
            return F(0)
        if r < 0.95 or not adversarial:
            return F(rng.randint(0, 40), 4)
        return -F(rng.randint(1, 60), 4)
    clear = rng.choice(CLEARS) if rng.random() < 0.35 else 'none'
    return [cb[0], y, margin(), margin(), margin(), margin(), bw, bh, rng.choice(SIDES), clear, 'bfc']


def gen_probe_box(rng, cb, shapes, adversarial=False):
    """A non-floating box (or a float) handed to avoid_collisions directly."""
    cw = cb[1]
    ys = [s[1] for s in shapes] + [s[1] + s[3] for s in shapes] + [F(0)]
    y = rng.choice(ys) + rng.choice([F(0), F(0), F(1, 4), -F(1, 4), F(3), -F(5), mk.dyadic(rng, -20, 60)])
    kind = rng.choice(['line', 'line', 'table', 'replaced', 'bfc', 'bfc', 'other'])
    float_ = rng.choice(['none', 'none', 'none', 'left', 'right'])
    bw = rng.choice([F(0), cw, cw / 2, mk.dyadic(rng, 0, int(cw) + 20), mk.dyadic(rng, 0, int(cw))])
    bh = rng.choice([F(0), F(10), mk.dyadic(rng, 0, 60)])

    def margin():
        r = rng.random()
        if r < 0.5:
            return F(0)
        if r < 0.9 or not adversarial:
            return mk.dyadic(rng, 0, 10)
        return -mk.dyadic(rng, 0, 15)
    return [cb[0], y, margin(), margin(), margin(), margin(), bw, bh, float_, rng.choice(CLEARS), kind]


def gen_wild_shapes(rng, n):
    """Arbitrary (not necessarily placeable) shape lists: overlapping, zero / negative extents, huge."""
    out = []
    for _ in range(n):
        r = rng.random()
        mh = F(0) if r < 0.15 else -mk.dyadic(rng, 0, 10) if r < 0.2 else F(10 ** 6) if r < 0.23 else mk.dyadic(rng, 0, 60)
        r = rng.random()
        mw = F(0) if r < 0.1 else -mk.dyadic(rng, 0, 10) if r < 0.13 else mk.dyadic(rng, 0, 150)
        out.append([mk.dyadic(rng, -20, 200), mk.dyadic(rng, -20, 150), mw, mh, rng.choice(SIDES)])
    return out


# ---------------------------------------------------------------------------------------------
# real calls

def call_avoid(rng, shapes, box, cb, outer):
    from weasyprint.layout import float as float_
    ctx = mk.Ctx([mk.real_shape(rng, s) for s in shapes])
    real = mk.real_abox(box)
    out = mk.outcome(lambda: float_.avoid_collisions(ctx, real, mk.real_cb(cb, rng), outer=outer))
    return out if isinstance(out, str) else fmt(*out)


def call_clearance(rng, shapes, clear, py, collapsed):
    from weasyprint.layout import float as float_
    ctx = mk.Ctx([mk.real_shape(rng, s) for s in shapes])
    box = mk.real_abox([F(0), py, F(0), F(0), F(0), F(0), F(10), F(10), 'none', clear, 'bfc'])
    out = mk.outcome(lambda: float_.get_clearance(ctx, box, collapsed))
    return out if isinstance(out, str) else sx.atom(out)


def place_float(real_shapes, box, cb_box):
    """The placement statements of float_layout, on real objects: clearance, find_float_position,
    excluded_shapes.append.  -> (x, y) or err string."""
    from weasyprint.layout import float as float_
    ctx = mk.Ctx(real_shapes)
    real = mk.real_abox(box)

    def run():
        clearance = float_.get_clearance(ctx, real)
        if clearance is not None:
            real.position_y += clearance
        placed = float_.find_float_position(ctx, real, cb_box)
        ctx.excluded_shapes.append(placed)
        return placed
    out = mk.outcome(run)
    if isinstance(out, str):
        return out
    return fmt(out.position_x, out.position_y, [shape_wire(s) for s in real_shapes])


def call_float_width(args):
    """The real `float_width` (decorated by handle_min_max_width) on a mock float."""
    from weasyprint.layout import float as float_
    boxes = mk.boxes_mod()
    width, min_w, max_w, min_c, max_c, cb_w, spacing = args
    box = boxes.BlockBox('div', mk.Style({'float': 'left'}), None, [])
    box.width, box.min_width, box.max_width, box._minc, box._maxc = width, min_w, max_w, min_c, max_c
    (box.margin_left, box.margin_right, box.padding_left, box.padding_right, box.border_left_width,
     box.border_right_width) = spacing
    box.position_x = F(0)
    cb = mk.real_cb([F(0), cb_w, False])

    def run_it():
        with mk.patched_content_widths():
            float_.float_width(box, None, cb)
        return box.width
    out = mk.outcome(run_it)
    return out if isinstance(out, str) else sx.atom(out)


# ---------------------------------------------------------------------------------------------
# absolute: function level

H_FIELDS = ('left', 'right', 'width', 'ml', 'mr')


def gen_hbox(rng, pattern, adversarial=False):
    """pattern: 5 booleans (auto?) for left, right, width, margin-left, margin-right."""
    def val(lo=0, hi=60):
        r = rng.random()
        if adversarial and r < 0.15:
            return rng.choice([F(0), -mk.dyadic(rng, 0, 40), F(10 ** 6), F(1, 4)])
        return mk.dyadic(rng, lo, hi)
    left, right, width, ml, mr = ['auto' if a else val() for a in pattern]
    if width != 'auto' and width < 0 and not adversarial:
        width = -width
    small = lambda: rng.choice([F(0), F(0), mk.dyadic(rng, 0, 8)])
    min_w = rng.choice([F(0), F(0), F(0), mk.dyadic(rng, 0, 80)])
    max_w = rng.choice([math.inf, math.inf, math.inf, mk.dyadic(rng, 0, 120)])
    min_c = mk.dyadic(rng, 0, 60)
    max_c = min_c + rng.choice([F(0), mk.dyadic(rng, 0, 150)])
    if adversarial and rng.random() < 0.1:
        max_c = min_c - mk.dyadic(rng, 0, 10)
    return [left, right, width, ml, mr, small(), small(), small(), small(), min_w, max_w, min_c, max_c,
            mk.dyadic(rng, -20, 120)]


def real_hbox(wire, ltr):
    boxes = mk.boxes_mod()
    left, right, width, ml, mr, pl, pr, bl, br, min_w, max_w, min_c, max_c, px = wire
    style = mk.Style({'direction': 'ltr', 'position': 'absolute', 'float': 'none'})
    style.parent_style = {'direction': 'ltr' if ltr else 'rtl'}
    box = boxes.BlockBox('div', style, None, [])
    box.left, box.right, box.width, box.margin_left, box.margin_right = left, right, width, ml, mr
    box.padding_left, box.padding_right, box.border_left_width, box.border_right_width = pl, pr, bl, br
    box.min_width, box.max_width, box._minc, box._maxc = min_w, max_w, min_c, max_c
    box.position_x, box.position_y = px, F(0)
    return box


def call_abs_width(wire, ltr, cb_x, cb_w):
    from weasyprint.layout import absolute
    box = real_hbox(wire, ltr)

    def run():
        with mk.patched_content_widths():
            tbw, tx = absolute.absolute_width(box, None, cb_x, F(0), cb_w, F(0))
        # absolute_block: translate_x -= new_box.width if translate_box_width; new_box.translate(translate_x, …)
        box.translate(tx - box.width if tbw else tx, 0)
        return tbw, tx
    out = mk.outcome(run)
    if isinstance(out, str):
        return out
    return fmt(fmt_len(box.width), fmt_len(box.margin_left), fmt_len(box.margin_right), out[0], out[1],
               box.position_x)


def gen_vbox(rng, pattern, adversarial=False):
    def val():
        r = rng.random()
        if adversarial and r < 0.15:
            return rng.choice([F(0), -mk.dyadic(rng, 0, 40), F(10 ** 6), F(1, 4)])
        return mk.dyadic(rng, 0, 60)
    top, bottom, height, mt, mb = ['auto' if a else val() for a in pattern]
    small = lambda: rng.choice([F(0), F(0), mk.dyadic(rng, 0, 8)])
    return [top, bottom, height, mt, mb, small(), small(), small(), small(), mk.dyadic(rng, -20, 120)]


def call_abs_height(wire, cb_y, cb_h, used_h):
    from weasyprint.layout import absolute
    boxes = mk.boxes_mod()
    top, bottom, height, mt, mb, pt, pb, bt, bb, py = wire
    box = boxes.BlockBox('div', mk.Style({'position': 'absolute', 'float': 'none'}), None, [])
    box.top, box.bottom, box.height, box.margin_top, box.margin_bottom = top, bottom, height, mt, mb
    box.padding_top, box.padding_bottom, box.border_top_width, box.border_bottom_width = pt, pb, bt, bb
    box.position_x, box.position_y = F(0), py

    def run():
        tbh, ty = absolute.absolute_height(box, None, F(0), cb_y, F(0), cb_h)
        new_height = used_h if box.height == 'auto' else box.height     # block_container_layout's result
        box.translate(0, ty - new_height if tbh else ty)
        return tbh, ty
    out = mk.outcome(run)
    if isinstance(out, str):
        return out
    return fmt(fmt_len(box.height), fmt_len(box.margin_top), fmt_len(box.margin_bottom), out[0], out[1],
               box.position_y)


def gen_rbox(rng, pattern, adversarial=False):
    """pattern: 8 booleans for left right top bottom ml mr mt mb."""
    def val():
        r = rng.random()
        if adversarial and r < 0.15:
            return rng.choice([F(0), -mk.dyadic(rng, 0, 40), F(10 ** 6), F(1, 4)])
        return mk.dyadic(rng, 0, 60)
    head = ['auto' if a else val() for a in pattern]
    small = lambda: rng.choice([F(0), F(0), mk.dyadic(rng, 0, 8)])
    return head + [mk.dyadic(rng, 0, 90), mk.dyadic(rng, 0, 90)] + [small() for _ in range(8)] + [
        mk.dyadic(rng, -20, 120), mk.dyadic(rng, -20, 120)]


def call_abs_replaced(wire, ltr, cb_x, cb_y, cb_w, cb_h):
    from weasyprint.css.properties import Dimension
    from weasyprint.layout import absolute
    boxes = mk.boxes_mod()
    (left, right, top, bottom, ml, mr, mt, mb, width, height, pl, pr, bl, br, pt, pb, bt, bb, px, py) = wire
    style = mk.Style({'position': 'absolute', 'float': 'none', 'width': Dimension(width, 'px'),
                      'height': Dimension(height, 'px'), 'image_resolution': 1, 'font_size': 16})
    style.parent_style = {'direction': 'ltr' if ltr else 'rtl'}
    box = boxes.BlockReplacedBox('img', style, None, mk.FakeReplacement())
    box.left, box.right, box.top, box.bottom = left, right, top, bottom
    box.margin_left, box.margin_right, box.margin_top, box.margin_bottom = ml, mr, mt, mb
    box.width, box.height = width, height
    box.min_width = box.min_height = F(0)
    box.max_width = box.max_height = math.inf
    box.padding_left, box.padding_right, box.border_left_width, box.border_right_width = pl, pr, bl, br
    box.padding_top, box.padding_bottom, box.border_top_width, box.border_bottom_width = pt, pb, bt, bb
    box.position_x, box.position_y = px, py
    out = mk.outcome(lambda: absolute.absolute_replaced(None, box, cb_x, cb_y, cb_w, cb_h))
    if isinstance(out, str):
        return out
    return fmt(*[fmt_len(v) for v in (out.left, out.right, out.top, out.bottom, out.margin_left,
                                       out.margin_right, out.margin_top, out.margin_bottom)],
               out.position_x, out.position_y)


# ---------------------------------------------------------------------------------------------
# relative positioning: function level

def gen_dim(rng, p_auto=0.5):
    r = rng.random()
    if r < p_auto:
        return 'auto'
    if r < p_auto + (1 - p_auto) * 0.7:
        return ['px', mk.dyadic(rng, -30, 30)]
    return ['pct', rng.choice([F(0), F(25, 2), F(25), F(50), F(100), -F(25)])]


def gen_rel_tree(rng, depth, inline_parent=True):
    """(rel rtl inl left right top bottom x y kids)"""
    inl = rng.random() < (0.7 if depth else 0.3)
    kids = []
    if depth and rng.random() < 0.85:
        kids = [gen_rel_tree(rng, depth - 1, inl) for _ in range(rng.choice([1, 1, 2, 3]))]
    return [rng.random() < 0.6, rng.random() < 0.4, inl, gen_dim(rng), gen_dim(rng), gen_dim(rng), gen_dim(rng),
            mk.dyadic(rng, 0, 100), mk.dyadic(rng, 0, 100), kids]


def real_rel_tree(tree, top=True):
    from weasyprint.css.properties import Dimension
    boxes = mk.boxes_mod()
    rel, rtl, inl, left, right, t, b, x, y, kids = tree

    def dim(d):
        return 'auto' if d == 'auto' else Dimension(d[1], 'px' if d[0] == 'px' else '%')
    style = mk.Style({'position': 'relative' if rel else 'static', 'direction': 'rtl' if rtl else 'ltr',
                      'left': dim(left), 'right': dim(right), 'top': dim(t), 'bottom': dim(b), 'float': 'none'})
    children = [real_rel_tree(k, False) for k in kids]
    if inl:
        cls = boxes.LineBox if top else boxes.InlineBox
    else:
        cls = boxes.BlockBox if top else boxes.InlineBlockBox
    box = cls('span', style, None, children)
    box.position_x, box.position_y = x, y
    return box


def rel_positions(box):
    return [box.position_x, box.position_y, [rel_positions(c) for c in box.children]]


def call_relative(tree, cb_w, cb_h):
    from weasyprint.layout import block
    box = real_rel_tree(tree)
    out = mk.outcome(lambda: block.relative_positioning(box, (cb_w, cb_h)))
    if isinstance(out, str):
        return out
    return sx.dumps(rel_positions(box))


def expected_rel_offset(tree, cb_w, cb_h):
    """The clause stated directly (judge): offset of the box itself."""
    rel, rtl, inl, left, right, t, b, x, y, kids = tree
    if not rel:
        return F(0), F(0)

    def res(d, ref):
        return None if d == 'auto' else d[1] if d[0] == 'px' else ref * d[1] / 100
    l, r, t, b = res(left, cb_w), res(right, cb_w), res(t, cb_h), res(b, cb_h)
    dx = (l if (r is None or not rtl) else -r) if l is not None else (-r if r is not None else F(0))
    dy = t if t is not None else (-b if b is not None else F(0))
    return dx, dy


# ---------------------------------------------------------------------------------------------
# the clauses stated directly on implementation outputs (judge / search)

def rect_overlap(a, b):
    """Open-interior intersection of two rectangles (x, y, w, h) with positive area."""
    ax, ay, aw, ah = a
    bx, by, bw, bh = b
    if aw <= 0 or ah <= 0 or bw <= 0 or bh <= 0:
        return False
    return ax < bx + bw and bx < ax + aw and ay < by + bh and by < ay + ah


def judge_float_place(shapes, box, cb, impl, check_clear=True):
    """C11 on one float placement: inside the containing block when it fits and nothing forces it out,
    no overlap with an earlier float, not higher than earlier floats / its static position, pushed
    to its side."""
    if impl.startswith('err:'):
        return f'float placement raised {impl}'
    parts = sx.loads_line(impl)
    x, y = F(parts[0]), F(parts[1])
    px, py, mt, mb, ml, mr, bw, bh, float_, clear, kind = box
    mw, mh = bw + ml + mr, bh + mt + mb
    cx, cw, rtl = cb
    if any(s[3] <= 0 or s[2] < 0 for s in shapes) or mh <= 0 or mw < 0:
        return None            # degenerate geometry: the clauses below are about boxes with area
    for s in shapes:
        if rect_overlap((x, y, mw, mh), (s[0], s[1], s[2], s[3])):
            return f'float margin box {(x, y, mw, mh)} overlaps earlier float {s}'
    if shapes and y < max(s[1] for s in shapes) and y < shapes[-1][1]:
        return f'float top {y} higher than the previous float top {shapes[-1][1]}'
    if y < py:
        return f'float top {y} higher than its static position {py}'
    for s in shapes:
        if check_clear and clear in (s[4], 'both') and y < s[1] + s[3]:
            return f'clear:{clear} float at {y} not below float {s}'
    inside = cx <= x and x + mw <= cx + cw
    if not inside and mw <= cw:
        # it may legitimately stick out only when nothing lower could take it: no colliding shape
        # with a bottom below y
        blockers = [s for s in shapes if s[1] < y + mh and y < s[1] + s[3]]
        if any(s[1] + s[3] > y for s in blockers) is False:
            return f'float {(x, y, mw, mh)} outside its containing block {(cx, cw)} with no float beside it'
    return None


def judge_avoid(shapes, box, cb, outer, impl):
    if impl.startswith('err:AssertionError'):
        return None
    if impl.startswith('err:'):
        return f'avoid_collisions raised {impl}'
    px, py, mt, mb, ml, mr, bw, bh, float_, clear, kind = box
    x, y, avail = [F(v) for v in sx.loads_line(impl)]
    w = bw + ml + mr if outer else bw
    h = bh + mt + mb if outer else bh
    bx = x if outer else x + ml
    by = y if outer else y + mt
    if cb[2] and float_ == 'none' and kind == 'line':
        bx = bx - w       # the line is positioned by its right end
    if h <= 0 or w <= 0 or any(s[3] <= 0 or s[2] < 0 for s in shapes):
        return None
    if w <= avail:
        for s in shapes:
            if rect_overlap((bx, by, w, h), (s[0], s[1], s[2], s[3])):
                return f'box {(bx, by, w, h)} said to fit (available {avail}) overlaps float {s}'
    y0 = py if outer else py + mt
    if by < y0:
        return f'box moved up from {y0} to {by}'
    return None


def model_tags(prop, lines):
    """Branch labels computed by the instrumented model (Model/FloatTrace.lean) for a batch of cases."""
    from vlib import lean
    out = []
    for start in range(0, len(lines), 20000):
        out.extend(lean.run_driver(prop.driver, lines[start:start + 20000]))
    return out


AVOID_BRANCHES = (
    ['assert-fails'] +
    [f'moves{k} {e} {p} {o}' for k in range(4) for e in ('free', 'fits', 'gave-up')
     for p in ('left-bound', 'rtl-line', 'rtl-box') for o in ('outer', 'inner')
     if not (e == 'free' and k > 0 and False)])


class C11(PropCheck):
    id = 'C11'
    extractors = (float_tests.generate,)
    modules = ('WpModel.Props.C11', 'WpModel.Props.C11Flow', 'WpModel.Props.C11Inline', 'WpModel.Props.C11Events', 'WpModel.Props.C11AbsDoc', 'WpModel.Witness.C11')
    trusted_base = (
        'modelled, not verified: layout/float.py avoid_collisions / find_float_position / get_clearance / float_width, '
        'layout/absolute.py absolute_width / absolute_height / absolute_replaced / absolute_block translation, '
        'layout/block.py relative_positioning, the restarts of get_next_linebox, layout_fixed_boxes / make_page (hand transcriptions in Model/Floats.lean, '
        'Model/Absolute.lean, Model/FloatFlow.lean, Model/FixedPages.lean)',
        'mock boxes: real box classes with dict styles and Fraction used values; shrink_to_fit is the real function '
        'over patched min/max-content widths',
    )
    assumptions = (
        'document-level inputs use dyadic lengths so that float arithmetic is exact',
        'line shortening next to floats is only covered through the avoid_collisions call of get_next_linebox',
    )

    # -- correspondence ---------------------------------------------------------------------
    def correspondence(self, run):
        docs.quiet()
        c11_docs.sec_regressions(run)
        self.sec_float_seq(run)
        self.sec_avoid_wild(run)
        self.sec_clearance(run)
        self.sec_float_width(run)
        self.sec_abs_width(run)
        self.sec_abs_height(run)
        self.sec_abs_replaced(run)
        self.sec_relative(run)
        c11_docs.sec_float_docs(run)
        c11_docs.sec_abs_docs(run)
        c11_docs.sec_fixed_docs(run)
        c11_docs.sec_fixed_area_docs(run)
        c11_docs.sec_fixed_fragments(run)
        c11_docs.sec_wide_docs(run)

    def sec_float_seq(self, run):
        rng = run.rng
        sec = run.section(
            'float-seq', 'sequences of 1..12 floats placed one after the other by the real get_clearance + '
            'find_float_position (mock excluded_shapes), then non-floating boxes (line / BFC root / replaced / table '
            'wrapper) probed with avoid_collisions and get_clearance on the resulting float list; non-trivial = at '
            'least one earlier float')
        pending = []     # avoid_collisions probes, tagged afterwards with the branch the model took
        for _ in range(run.n(500, 8000)):
            adversarial = rng.random() < 0.25
            cb = gen_cb(rng, adversarial)
            cb_box = mk.real_cb(cb, rng)
            real_shapes = []
            y = mk.dyadic(rng, 0, 20)
            for _i in range(rng.randint(1, 12)):
                y += rng.choice([F(0), F(0), F(0), mk.dyadic(rng, 0, 30)])
                box = gen_float_box(rng, cb, y, adversarial)
                before = [shape_wire(s) for s in real_shapes]
                out = place_float(real_shapes, box, cb_box)
                tags = [f'n{min(len(before), 12)}', 'float-' + box[8], 'clear-' + box[9]]
                if box[7] == 0:
                    tags.append('zero-height')
                elif not out.startswith('err:'):
                    fx, fy = (F(v) for v in out.split(' ')[:2])
                    mw_ = box[6] + box[4] + box[5]
                    tags.append('moved-down' if fy > box[1] else 'at-static-y')
                    tags.append('inside-cb' if cb[0] <= fx and fx + mw_ <= cb[0] + cb[1] else 'overflows-cb')
                sec.add(sx.line('floatplace', before, box, cb), out,
                        meta={'kind': 'floatplace', 'shapes': before, 'box': box, 'cb': cb},
                        nontrivial=bool(before), tags=tags)
                if out.startswith('err:'):
                    break
            shapes = [shape_wire(s) for s in real_shapes]
            for _j in range(4):
                probe = gen_probe_box(rng, cb, shapes, adversarial)
                outer = rng.random() < 0.4
                out = call_avoid(rng, shapes, probe, cb, outer)
                pending.append((sx.line('avoid', shapes, probe, cb, outer), out,
                                {'kind': 'avoid', 'shapes': shapes, 'box': probe, 'cb': cb, 'outer': outer},
                                bool(shapes), ['probe-' + probe[10]],
                                sx.line('avoidinfo', shapes, probe, cb, outer)))
            clear = rng.choice(CLEARS)
            py, cm = mk.dyadic(rng, 0, 80), rng.choice([F(0), mk.dyadic(rng, 0, 10)])
            sec.add(sx.line('clearance', shapes, clear, py, cm), call_clearance(rng, shapes, clear, py, cm),
                    meta={'kind': 'clearance', 'shapes': shapes, 'clear': clear, 'py': py, 'cm': cm},
                    nontrivial=bool(shapes), tags=['clearance-' + clear])

        self.flush_pending(run, sec, pending)

    def flush_pending(self, run, sec, pending):
        labels = model_tags(self, [p[5] for p in pending])
        seen = run.extra.setdefault('avoid_branches_seen', {})
        for (line, out, meta, nontrivial, tags, _info), label in zip(pending, labels):
            seen[label] = seen.get(label, 0) + 1
            sec.add(line, out, meta=meta, nontrivial=nontrivial, tags=tags + ['branch: ' + label])
        run.extra['avoid_branches_never_hit'] = sorted(set(AVOID_BRANCHES) - set(seen))

    def sec_avoid_wild(self, run):
        rng = run.rng
        sec = run.section(
            'avoid-wild', 'avoid_collisions / find_float_position on arbitrary shape lists (overlapping, zero and '
            'negative extents, huge values) and arbitrary boxes, outer and inner; non-trivial = some shape collides '
            'vertically with the requested position')
        pending = []
        for _ in range(run.n(3000, 60000)):
            cb = gen_cb(rng, True)
            shapes = gen_wild_shapes(rng, rng.randint(0, 12))
            probe = gen_probe_box(rng, cb, shapes, True)
            outer = rng.random() < 0.5
            h = probe[7] + (probe[2] + probe[3] if outer else 0)
            y = probe[1] if outer else probe[1] + probe[2]
            if rng.random() < 0.06:
                # the "no solution" exit: only zero-height shapes collide (none of them ends lower)
                shapes = [s for s in shapes if not (s[1] < y + h and y < s[1] + s[3])]
                shapes.append([cb[0], y + rng.choice([F(0), h]), cb[1], F(0), rng.choice(SIDES)])
            touching = any(s[1] < y + h and y < s[1] + s[3] for s in shapes)
            if rng.random() < 0.3 and probe[8] != 'none':
                from weasyprint.layout import float as float_
                ctx = mk.Ctx([mk.real_shape(rng, s) for s in shapes])
                real = mk.real_abox(probe)
                out = mk.outcome(lambda: float_.find_float_position(ctx, real, mk.real_cb(cb, rng)))
                out = out if isinstance(out, str) else fmt(out.position_x, out.position_y)
                sec.add(sx.line('findpos', shapes, probe, cb), out,
                        meta={'kind': 'findpos', 'shapes': shapes, 'box': probe, 'cb': cb},
                        nontrivial=touching, tags=['findpos'])
            else:
                out = call_avoid(rng, shapes, probe, cb, outer)
                pending.append((sx.line('avoid', shapes, probe, cb, outer), out,
                                {'kind': 'avoid', 'shapes': shapes, 'box': probe, 'cb': cb, 'outer': outer},
                                touching, ['err' if out.startswith('err') else 'ok', 'probe-' + probe[10]],
                                sx.line('avoidinfo', shapes, probe, cb, outer)))
        self.flush_pending(run, sec, pending)

    def sec_float_width(self, run):
        """`float_width` (under handle_min_max_width) with the real shrink_to_fit over patched content widths, as
        float_layout calls it: for every non-replaced float, auto or specified width."""
        from weasyprint.layout import float as float_
        rng = run.rng
        boxes = mk.boxes_mod()
        sec = run.section(
            'float-width', 'float_width on floats with auto and specified widths: random min/max-content widths, '
            'min-width, max-width (also min > max), own margins / paddings / borders (also negative margins), '
            'containing block widths; non-trivial = a min/max constraint is active or the float\'s own spacing is not 0')
        for _ in range(run.n(900, 15000)):
            min_w = rng.choice([F(0), F(0), mk.dyadic(rng, 0, 80)])
            max_w = rng.choice([math.inf, math.inf, mk.dyadic(rng, 0, 120)])
            min_c = mk.dyadic(rng, 0, 60)
            max_c = min_c + rng.choice([F(0), mk.dyadic(rng, 0, 150)])
            cb_w = rng.choice([F(0), F(100), mk.dyadic(rng, 0, 300)])
            width = 'auto' if rng.random() < 0.6 else mk.dyadic(rng, 0, 200)

            def small(neg=False):
                r = rng.random()
                return F(0) if r < 0.5 else -mk.dyadic(rng, 0, 10) if neg and r < 0.58 else mk.dyadic(rng, 0, 20)
            spacing = [small(True), small(True), small(), small(), small(), small()]     # ml mr pl pr bl br
            args = [width, min_w, max_w, min_c, max_c, cb_w, spacing]
            out = call_float_width(args)
            natural = width if width != 'auto' else min(max(min_c, cb_w - sum(spacing)), max_c)
            sec.add(sx.line('floatwidth', *args), out, meta={'kind': 'floatwidth', 'args': args},
                    nontrivial=natural < min_w or natural > max_w or any(spacing),
                    tags=['auto' if width == 'auto' else 'specified',
                          'below-min' if natural < min_w else 'above-max' if natural > max_w else 'unclamped'])

    def sec_clearance(self, run):
        rng = run.rng
        sec = run.section('clearance', 'get_clearance on arbitrary shape lists; non-trivial = result is not None')
        for _ in range(run.n(1500, 30000)):
            shapes = gen_wild_shapes(rng, rng.randint(0, 10))
            clear = rng.choice(CLEARS)
            py, cm = mk.dyadic(rng, -20, 150), rng.choice([F(0), mk.dyadic(rng, -5, 20)])
            out = call_clearance(rng, shapes, clear, py, cm)
            sec.add(sx.line('clearance', shapes, clear, py, cm), out,
                    meta={'kind': 'clearance', 'shapes': shapes, 'clear': clear, 'py': py, 'cm': cm},
                    nontrivial=out != 'none', tags=['clearance-' + clear, 'none' if out == 'none' else 'some'])

    def sec_abs_width(self, run):
        rng = run.rng
        sec = run.section(
            'abs-width', 'absolute_width (with its min/max wrapper and the real shrink_to_fit) + the translation of '
            'absolute_block: all 2^5 auto patterns of (left, right, width, margin-left, margin-right) x ltr/rtl, '
            'K value draws each; non-trivial = every case (each pattern is a distinct branch)')
        pending = []
        for pattern in itertools.product((False, True), repeat=5):
            for ltr in (True, False):
                for k in range(run.n(24, 400)):
                    adversarial = k % 4 == 3
                    wire = gen_hbox(rng, pattern, adversarial)
                    cb_x, cb_w = mk.dyadic(rng, 0, 50), rng.choice([F(100), F(200), mk.dyadic(rng, 0, 300)])
                    out = call_abs_width(wire, ltr, cb_x, cb_w)
                    pending.append((sx.line('abswidth', wire, ltr, cb_x, cb_w), out,
                                    {'kind': 'abswidth', 'wire': wire, 'ltr': ltr, 'cb_x': cb_x, 'cb_w': cb_w},
                                    ['h-' + ''.join('a' if a else 'v' for a in pattern), 'ltr' if ltr else 'rtl'],
                                    sx.line('abswidthinfo', wire, ltr, cb_x, cb_w)))
        labels = model_tags(self, [p[4] for p in pending])
        seen = {}
        for (line, out, meta, tags, _info), label in zip(pending, labels):
            seen[label] = seen.get(label, 0) + 1
            sec.add(line, out, meta=meta, tags=tags + ['minmax: ' + label])
        run.extra['abs_width_minmax_branches'] = seen
        run.extra['abs_patterns'] = 'all 2^5 x 2 horizontal, 2^5 vertical, 2^8 x 2 replaced auto patterns'

    def sec_abs_height(self, run):
        rng = run.rng
        sec = run.section(
            'abs-height', 'absolute_height + the vertical translation of absolute_block: all 2^5 auto patterns of '
            '(top, bottom, height, margin-top, margin-bottom), K value draws each')
        for pattern in itertools.product((False, True), repeat=5):
            for k in range(run.n(40, 600)):
                wire = gen_vbox(rng, pattern, k % 4 == 3)
                cb_y, cb_h = mk.dyadic(rng, 0, 50), rng.choice([F(100), F(200), mk.dyadic(rng, 0, 300)])
                used_h = mk.dyadic(rng, 0, 80)
                out = call_abs_height(wire, cb_y, cb_h, used_h)
                sec.add(sx.line('absheight', wire, cb_y, cb_h, used_h), out,
                        meta={'kind': 'absheight', 'wire': wire, 'cb_y': cb_y, 'cb_h': cb_h, 'used_h': used_h},
                        tags=['v-' + ''.join('a' if a else 'v' for a in pattern)])

    def sec_abs_replaced(self, run):
        rng = run.rng
        sec = run.section(
            'abs-replaced', 'absolute_replaced: all 2^8 auto patterns of (left, right, top, bottom, four margins) x '
            'ltr/rtl, K value draws each')
        for pattern in itertools.product((False, True), repeat=8):
            for ltr in (True, False):
                for k in range(run.n(4, 60)):
                    wire = gen_rbox(rng, pattern, k % 4 == 3)
                    cb = [mk.dyadic(rng, 0, 50), mk.dyadic(rng, 0, 50), rng.choice([F(100), mk.dyadic(rng, 0, 300)]),
                          rng.choice([F(100), mk.dyadic(rng, 0, 300)])]
                    out = call_abs_replaced(wire, ltr, *cb)
                    sec.add(sx.line('absrepl', wire, ltr, *cb), out,
                            meta={'kind': 'absrepl', 'wire': wire, 'ltr': ltr, 'cb': cb},
                            tags=['r-' + ''.join('a' if a else 'v' for a in pattern[:4])])

    def sec_relative(self, run):
        rng = run.rng
        sec = run.section(
            'relative', 'relative_positioning on random trees of real Block / Line / Inline / InlineBlock boxes with '
            'px, % and auto offsets, ltr and rtl; non-trivial = the root or an inline descendant is relative')
        for _ in range(run.n(1200, 20000)):
            tree = gen_rel_tree(rng, rng.randint(0, 3))
            cb_w, cb_h = mk.dyadic(rng, 0, 200), mk.dyadic(rng, 0, 200)
            out = call_relative(tree, cb_w, cb_h)
            sec.add(sx.line('relpos', cb_w, cb_h, tree), out,
                    meta={'kind': 'relpos', 'tree': tree, 'cb_w': cb_w, 'cb_h': cb_h},
                    nontrivial='true' in sx.dumps(tree), tags=['rel-root' if tree[0] else 'static-root'])

    # -- judge --------------------------------------------------------------------------------
    def judge(self, d):
        meta = d.get('meta') or {}
        kind = meta.get('kind')
        impl = d['impl']
        if kind == 'floatplace':
            return judge_float_place(meta['shapes'], meta['box'], meta['cb'], impl)
        if kind == 'avoid':
            return judge_avoid(meta['shapes'], meta['box'], meta['cb'], meta['outer'], impl)
        if kind == 'findpos':
            # find_float_position alone: clearance is applied by its caller
            return judge_float_place(meta['shapes'], meta['box'], meta['cb'], impl, check_clear=False)
        if kind == 'clearance':
            return judge_clearance(meta, impl)
        if kind in ('abswidth', 'absheight', 'absrepl'):
            return judge_abs(kind, meta, impl)
        if kind == 'relpos':
            return judge_rel(meta, impl)
        if kind == 'floatwidth':
            return judge_float_width(meta['args'], impl)
        if kind in ('float-doc', 'abs-doc', 'fixed-doc', 'wide-doc', 'regression', 'fixed-area-doc', 'fixed-fragment'):
            return c11_docs.judge(meta, impl, d.get('line'))
        return None

    # -- search -------------------------------------------------------------------------------
    def search(self, run, failures):
        docs.quiet()
        return c11_docs.search(run, failures)

    def finding_replays(self):
        return c11_docs.FINDING_REPLAYS

    def replay(self, data):
        docs.quiet()
        inp = data.get('input', {})
        if 'html' in inp:
            return c11_docs.replay_html(inp)
        meta = inp.get('meta') or {}
        if meta.get('kind') == 'regression':
            return c11_docs.regression_violation(meta['id'])
        if meta.get('kind') in ('float-doc', 'abs-doc', 'fixed-doc', 'fixed-late', 'wide-doc', 'fixed-area-doc', 'fixed-fragment'):
            return c11_docs.replay_html({'kind': meta['kind'], 'doc': meta['doc']})
        if meta.get('kind'):
            meta = unjson(meta)
            line = inp.get('line', '')
            impl = recompute(meta)
            return self.judge({'meta': meta, 'impl': impl, 'line': line, 'model': inp.get('model')})
        return None


def judge_float_width(args, impl):
    """CSS 2.1 §10.3.5 + §10.4 on the used width of a float."""
    width, min_w, max_w, min_c, max_c, cb_w, spacing = args
    if impl.startswith('err:'):
        return f'float_width raised {impl}'
    w = F(impl)
    if w < min_w:
        return f'used width {w} of a float (width: {width}) is below min-width {min_w}'
    if min_w <= max_w and w > max_w:
        return f'used width {w} of a float (width: {width}) is above max-width {max_w}'
    natural = width if width != 'auto' else min(max(min_c, cb_w - sum(spacing)), max_c)
    if min_w <= natural <= max_w and w != natural:
        if width == 'auto':
            return (f'used width {w} of an auto-width float is not the shrink-to-fit width {natural} for the width '
                    f'{cb_w - sum(spacing)} left by its own margins, borders and paddings in {cb_w}')
        return f'used width {w} is not the specified width {width}'
    return None


def judge_clearance(meta, impl):
    if impl.startswith('err:'):
        return f'get_clearance raised {impl}'
    hyp = meta['py'] + meta['cm']
    named = [s for s in meta['shapes'] if meta['clear'] in (s[4], 'both')]
    need = max([s[1] + s[3] - hyp for s in named] + [F(0)])
    got = F(0) if impl == 'none' else F(impl)
    if got != need:
        return (f'clear:{meta["clear"]} at border edge {hyp}: clearance {impl}, but the least amount that puts the '
                f'edge below the named floats is {need}')
    if (impl == 'none') != (need == 0):
        return f'clearance is {impl} while the box is {"not " if need else ""}already below the named floats'
    return None


def judge_abs(kind, meta, impl):
    """The constraint equation stated directly on the implementation's used values, every auto pattern."""
    if impl.startswith('err:'):
        return f'{kind} raised {impl}'
    out = sx.loads_line(impl)
    if kind == 'abswidth':
        left, right, width, ml, mr, pl, pr, bl, br, min_w, max_w, min_c, max_c, px = meta['wire']
        w, uml, umr, x = F(out[0]), F(out[1]), F(out[2]), F(out[5])
        cb_x, cb_w = meta['cb_x'], meta['cb_w']
        border_left = x + uml
        border_right = border_left + pl + pr + bl + br + w
        if width != 'auto' and w != min(max(width, min_w), max_w) and max_w >= min_w:
            return f'used width {w} is not the specified width {width} clamped to [{min_w}, {max_w}]'
        ltr = meta['ltr']
        over = 'auto' not in (left, right, width, ml, mr)
        if left != 'auto':
            if border_left != cb_x + left + uml:
                return f'left edge: border box starts at {border_left}, expected cb_x + left + margin-left'
        if right != 'auto':
            if border_right + umr != cb_x + cb_w - right:
                return (f'right edge: margin box ends at {border_right + umr}, expected cb right edge - right = '
                        f'{cb_x + cb_w - right}: left + margins + borders + paddings + width + right != width of '
                        f'the containing block')
        if 'auto' not in (left, right, width):
            # a specified margin is kept unless nothing is auto (then the end margin is re-solved)
            if ml != 'auto' and (mr == 'auto' or ltr) and uml != ml:
                return f'specified margin-left {ml} became {uml}'
            if mr != 'auto' and (ml == 'auto' or not ltr) and umr != mr:
                return f'specified margin-right {mr} became {umr}'
        if left == 'auto' and right == 'auto' and ltr and x != px:
            return f'static position not kept: {x} != {px}'
        return None
    if kind == 'absheight':
        top, bottom, height, mt, mb, pt, pb, bt, bb, py = meta['wire']
        umt, umb, y = F(out[1]), F(out[2]), F(out[5])
        h = meta['used_h'] if out[0] == 'auto' else F(out[0])
        cb_y, cb_h = meta['cb_y'], meta['cb_h']
        if top != 'auto' and y != cb_y + top:
            return f'top edge: margin box starts at {y}, expected {cb_y + top}'
        if bottom != 'auto':
            end = y + umt + umb + pt + pb + bt + bb + h
            if end != cb_y + cb_h - bottom:
                return (f'bottom edge: margin box ends at {end}, expected {cb_y + cb_h - bottom}: top + margins + '
                        f'borders + paddings + height + bottom != height of the containing block')
        if 'auto' not in (top, bottom, height):
            if mt != 'auto' and umt != mt:
                return f'specified margin-top {mt} became {umt}'
            if mb != 'auto' and mt == 'auto' and umb != mb:
                return f'specified margin-bottom {mb} became {umb}'
        if top == 'auto' and bottom == 'auto' and y != py:
            return f'static position not kept: {y} != {py}'
        return None
    if kind == 'absrepl':
        (left, right, top, bottom, ml, mr, mt, mb, width, height, pl, pr, bl, br, pt, pb, bt, bb, px, py) = meta['wire']
        cb_x, cb_y, cb_w, cb_h = meta['cb']
        ltr = meta['ltr']
        if any(v == 'auto' for v in out[:8]):
            return f'absolute_replaced left an auto value: {impl}'
        ul, ur, ut, ub, uml, umr, umt, umb, x, y = (F(v) for v in out)
        bw_, bh_ = width + pl + pr + bl + br, height + pt + pb + bt + bb
        if ul + uml + bw_ + umr + ur != cb_w:
            return f'left + margins + border box + right = {ul + uml + bw_ + umr + ur}, containing block width {cb_w}'
        if ut + umt + bh_ + umb + ub != cb_h:
            return f'top + margins + border box + bottom = {ut + umt + bh_ + umb + ub}, containing block height {cb_h}'
        for name, given, used in (('margin-left', ml, uml), ('margin-right', mr, umr), ('margin-top', mt, umt),
                                  ('margin-bottom', mb, umb)):
            if given != 'auto' and used != given:
                return f'specified {name} {given} became {used}'
        over_h = 'auto' not in (left, right, ml, mr)
        if left != 'auto' and not (over_h and not ltr) and ul != left:
            return f'specified left {left} became {ul}'
        if right != 'auto' and not (over_h and ltr) and ur != right:
            return f'specified right {right} became {ur}'
        if top != 'auto' and ut != top:
            return f'specified top {top} became {ut}'
        if left == right == 'auto' and ltr and x != px:
            return f'static position not kept: {x} != {px}'
        if top == bottom == 'auto' and y != py:
            return f'static position not kept: {y} != {py}'
        if (x, y) != (cb_x + ul, cb_y + ut):
            return f'box at {(x, y)}, expected containing block origin + (left, top) = {(cb_x + ul, cb_y + ut)}'
        if 'auto' not in (left, right) and ml == mr == 'auto' and cb_w - (bw_ + left + right) >= 0 and uml != umr:
            return f'auto margins not equal: {uml} / {umr}'
        return None
    return None


def judge_rel(meta, impl):
    if impl.startswith('err:'):
        return f'relative_positioning raised {impl}'
    tree = meta['tree']
    got = sx.loads_line(impl)[0]
    dx, dy = expected_rel_offset(tree, meta['cb_w'], meta['cb_h'])
    if (F(got[0]), F(got[1])) != (tree[7] + dx, tree[8] + dy):
        return (f'relatively positioned box moved to {(got[0], got[1])}, expected '
                f'{(tree[7] + dx, tree[8] + dy)} (offset {(dx, dy)})')
    return None


def unjson(x):
    """Replay files store Fractions as strings 'n/d'."""
    if isinstance(x, dict):
        return {k: unjson(v) for k, v in x.items()}
    if isinstance(x, list):
        return [unjson(v) for v in x]
    if isinstance(x, str):
        try:
            return F(x)
        except (ValueError, ZeroDivisionError):
            return math.inf if x == 'inf' else x
    return x


def recompute(meta):
    """Re-run the implementation on the stored input."""
    import random
    rng = random.Random(0)
    kind = meta['kind']
    if kind == 'avoid':
        return call_avoid(rng, meta['shapes'], meta['box'], meta['cb'], meta['outer'])
    if kind in ('floatplace', 'findpos'):
        real_shapes = [mk.real_shape(rng, s) for s in meta['shapes']]
        if kind == 'floatplace':
            return place_float(real_shapes, meta['box'], mk.real_cb(meta['cb']))
        from weasyprint.layout import float as float_
        real = mk.real_abox(meta['box'])
        out = mk.outcome(lambda: float_.find_float_position(mk.Ctx(real_shapes), real, mk.real_cb(meta['cb'])))
        return out if isinstance(out, str) else fmt(out.position_x, out.position_y)
    if kind == 'clearance':
        return call_clearance(rng, meta['shapes'], meta['clear'], meta['py'], meta['cm'])
    if kind == 'abswidth':
        return call_abs_width(meta['wire'], meta['ltr'], meta['cb_x'], meta['cb_w'])
    if kind == 'absheight':
        return call_abs_height(meta['wire'], meta['cb_y'], meta['cb_h'], meta['used_h'])
    if kind == 'absrepl':
        return call_abs_replaced(meta['wire'], meta['ltr'], *meta['cb'])
    if kind == 'relpos':
        return call_relative(meta['tree'], meta['cb_w'], meta['cb_h'])
    if kind == 'floatwidth':
        return call_float_width(meta['args'])
    return ''


PROP = C11()

MANIFEST = {
    'design_ref': 'DESIGN.md §4 C11',
    'technique': 'Lean 4 theorems over hand-written models of float.py (avoid_collisions, find_float_position, '
                 'get_clearance, float_width under its min/max wrapper, the front and placement parts of float_layout), '
                 'inline.py (get_next_linebox loop with its restarts, text_align, floats '
                 'met inside a line), block.py (clearance from the collapsed margin, BFC roots / replaced blocks / tables '
                 'next to floats, relative_positioning), absolute.py (absolute_width with its min/max wrapper, '
                 'absolute_height, absolute_replaced, absolute_block translation, containing-block choice) and the '
                 'fixed-box plumbing of make_page / layout_fixed_boxes (fixed boxes nested in fixed boxes, pages whose '
                 'page areas differ, content cut at the page bottom by absolute_block / _in_flow_layout); the three arithmetic tests of avoid_collisions are regenerated from the source (AST) '
                 'on every run; exact executable correspondence with the real functions (mock boxes, Fractions) and with '
                 'rendered documents; a verified trace checker (checkEvents, proved sound, complete on floats and '
                 'accepting everything the model produces) run on rendered wide-grammar documents whose lines are broken '
                 'by the real line breaker; the committed inputs of repaired findings are the first correspondence section',
    'text': 'Unbounded theorems: the collision test is open-interval overlap; the avoidance loop terminates within '
            'len(shapes)+1 iterations; a box that fits the returned width overlaps no float, lies inside the containing '
            'block and is not above the request; every skipped position was blocked; the loop never gives up among floats '
            'with area; float side / top rules and no overlap for every float whose margin box has area (empty border boxes '
            'included); after any sequence of '
            'placements — and after any document of block-level floats, floats met inside the lines of paragraphs (lines '
            'started again included), BFC roots, images, tables and blocks with collapsing margins laid out by the flow '
            'model — the reported floats are exactly the float list of the context, pairwise disjoint with tops in document '
            'order; a BFC root, image or table with height never overlaps a float, fitting or not; the verified checker '
            'accepts the whole event stream (all floats and all such boxes) of every document the flow model lays out; clearance is the least sufficient amount and is added to the collapsed position; a float met in a line '
            'is never above the line, and after a deferred float every float of the line is deferred; get_next_linebox '
            'terminates; the used width of a float respects min/max-width and an auto-width float leaves room for its own '
            'margins, borders and paddings; the containing block is the nearest positioned ancestor else the page; a '
            'collected fixed box is laid out on every page, and every fixed box drawn on a page — nested ones included — is '
            'placed against the area of that page; a fixed box repeated on another page holds all its content, and the same '
            'content on its own page when that ends above the page bottom; the containing block of the absolute children of '
            'an absolutely positioned box is its final padding box; the absolute constraint equations (CSS 2.1 10.3.7 / 10.6.4 / 10.3.8 / '
            '10.6.5) for every auto pattern in ltr and rtl without exception, static positions, centring, shrink-to-fit, '
            'min/max re-entry, and the same equations for the document-level function absolute_box_layout + absolute_block '
            '(percentages, paddings, borders, min/max-width) and absolute_box_layout + absolute_replaced (used offsets, '
            'ignored offset when nothing is auto, static position); absolute_replaced total with exact halves; relative positioning is a translation by the '
            'CSS 2.1 offset and the identity elsewhere.',
    'note': 'Trusted: Lean kernel, the hand transcription of the Python functions (tied only by the correspondence), the '
            'AST translator of the three float tests, mock boxes. Partial: the content of a line (Pango) is a parameter of '
            'the model (one word or one inline-block per line); multi-word lines are covered by the trace checker only. '
            'Float fragmentation across pages belongs to C01. Theorems with explicit hypotheses (witnesses in '
            'Witness/C11.lean, five known findings): abs_block_equation_v_partial (abs-height-min-max-not-resolved: a specified '
            'or solved height clamped by min/max-height after absolute_height, nothing re-solved; the horizontal equation '
            'abs_block_equation_h is full, min/max-width included), cb_height_of_relative_box_partial (abs-cb-height-before-min-max: a '
            'relative block lays its absolute children out before min/max-height; modelled, generated and compared), '
            'fixed_same_content_partial (fixed-box-fragmented-on-own-page: content cut at the page bottom on the page of '
            'origin only; modelled by fixedKept and compared in section fixed-fragments), fixed_on_every_page excludes fixed '
            'boxes collected late (fixed-in-absolute-not-repeated); overlap checks skip shifted tall lines '
            '(tall-line-aligned-in-strut-band). Ten repaired findings are regression theorems (Witness/C11.lean) and '
            'regression cases (section regressions).',
}
