"""C02 — rendering is total: no internal error, no hang, at least one page."""
from harness import c02_total, docs, pm, pm_col_corr, pm_corr, pm_foot_corr, pm_oof_corr, pm_stage2, widegen, wide_trace
from vlib import sx
from vlib.framework import PropCheck

INTERNAL = ('AssertionError', 'AttributeError', 'IndexError', 'TypeError', 'UnboundLocalError',
            'ZeroDivisionError', 'KeyError', 'ValueError', 'RecursionError')


def adversarial_doc(rng):
    """PM documents with adversarial-but-legal parameters: zero/tiny/huge lengths, deep nesting, tiny pages."""
    from fractions import Fraction
    doc = pm.gen_doc(rng, size=rng.choice([1, 2, 4, 10, 16]))
    doc['pageH'] = Fraction(rng.choice([1, 2, 5, 10, 20, 1000]))

    def walk(box):
        st = box['st']
        if rng.random() < 0.15:
            st[rng.choice(['mt', 'mb', 'pt', 'pb'])] = Fraction(rng.choice([0, 1, 64, 512]))
        if rng.random() < 0.05:
            st['height'] = Fraction(rng.choice([0, 1, 2048]))
        for kid in box['kids']:
            walk(kid)
    walk(doc['root'])
    return doc


class C02(PropCheck):
    id = 'C02'
    extractors = ()
    modules = ('WpModel.Props.C02', 'WpModel.Props.C02Pm2', 'WpModel.Props.C02Oof', 'WpModel.Props.C03Foot',
               'WpModel.Props.C02Extra', 'WpModel.Witness.C02Growth', 'WpModel.Props.C02RowEnding')
    trusted_base = (
        'modelled, not verified: the pagination functions of block.py / page.py (see C01); everything outside the '
        'model (inline layout, tables, flex, grid, drawing, PDF writing) is exercised only by the sampled totality runs',
    )
    assumptions = ()

    def correspondence(self, run):
        sec = run.section(
            'pm-outcomes',
            'random and adversarial block/paragraph documents (page heights from 1px, lengths up to 2048px, fixed '
            'heights 0): outcome kind (pages / exception class) and full pagination compared with the model; '
            'non-trivial = at least 2 pages')
        pm_corr.add_cases(run, sec, run.n(90, 3000), skip_errors=False)
        pm_corr.add_cases(run, sec, run.n(90, 3000), gen=adversarial_doc, skip_errors=False)
        sec_oof = run.section(
            'pm-oof-outcomes',
            'stage 2a of the pagination model: documents with absolutely positioned boxes, full-width floats and clear; '
            'outcome kind and full pagination compared with Model/PaginateOof; non-trivial = at least 2 pages')
        pm_oof_corr.add_cases(run, sec_oof, run.n(60, 2500), skip_errors=False)
        sec_foot = run.section(
            'pm-foot-outcomes',
            'stage 2b of the pagination model: documents with footnotes (every policy, area with max-height, named '
            'pages); outcome kind and full pagination compared with Model/PaginateFoot; non-trivial = at least 2 pages '
            'and one footnote')
        pm_foot_corr.add_cases(run, sec_foot, run.n(60, 2500), skip_errors=False)
        sec_col = run.section(
            'pm-col-outcomes',
            'stage 2c of the pagination model: documents with multi-column containers; outcome kind (the model has the '
            'Python failure points of columns_layout as explicit outcomes) and full pagination compared with '
            'Model/PaginateCol; non-trivial = at least 2 pages and a container')
        pm_col_corr.add_cases(run, sec_col, run.n(60, 2500), skip_errors=False)
        sec2 = run.section(
            'write-pdf-total',
            'the same documents rendered through the public API and written to PDF: the model of the unmodelled '
            'stages is "returns at least one page and PDF bytes"; non-trivial = at least 2 pages')
        docs.quiet()
        for _ in range(run.n(30, 800)):
            doc = adversarial_doc(run.rng) if run.rng.random() < 0.5 else pm.gen_doc(run.rng)
            html = pm.doc_html(doc)

            def go():
                document = docs.render(html)
                data = document.write_pdf()
                return 'ok' if len(document.pages) >= 1 and data[:5] == b'%PDF-' else 'bad-output'
            out = docs.outcome(go)
            sec2.add(sx.line('total'), out, meta={'doc': pm_corr.doc_json(doc), 'html': html})
        sec3 = run.section(
            'wide-total',
            'documents of the wide grammar (inline markup, lists, tables, columns, flex, grid, floats, positioned '
            'boxes, footnotes, breaks; pages down to one line) rendered and written to PDF: outcome kind with the '
            'innermost weasyprint frame vs the model "returns"; non-trivial = uses at least 3 features')
        for _ in range(run.n(80, 3000)):
            doc = widegen.gen(run.rng, adversarial=True)
            out = wide_trace.render_outcome(doc['html'])
            sec3.add(sx.line('total'), out, meta={'html': doc['html'], 'features': doc['features']},
                     nontrivial=len(doc['features']) >= 3, tags=doc['features'])

        sec4 = run.section(
            'totality-families',
            'deterministic adversarial-but-legal corners (harness/families.py totality_documents): zero-size floats '
            'before floats that do not fit, auto tables with constrained empty columns, short paragraphs on tiny pages '
            'with large orphans/widows, degenerate multi-column / flex / grid containers, pages smaller than their '
            'margins, grid placements, form controls with pdf_forms, CSS functions of every small arity - each rendered '
            'and written with a 5 s CPU limit (a document takes ~30 ms); documents already failing on the pinned tree '
            'are in corpus/C02/family_known.json as {id: [outcome, finding id]}; non-trivial = every case')
        import json
        from harness import families
        from vlib.paths import CORPUS
        known_path = CORPUS / 'C02' / 'family_known.json'
        self._family_known = json.loads(known_path.read_text()) if known_path.exists() else {}
        for doc_id, html, *rest in families.totality_documents():
            options = rest[0] if rest else {}
            out = wide_trace.render_outcome(html, limit_s=5, options=options)
            sec4.add(sx.line('total'), out, meta={'doc_id': doc_id, 'html': html, 'options': options},
                     tags=[doc_id.split('-')[1]])
        # inline_block_baseline, thumbnail size, display x table parts, output options, cost of nesting
        c02_total.add_sections(self, run)

    def classify(self, d):
        if d['section'] in c02_total.SECTIONS:
            return c02_total.classify(self, d)
        if d['section'] == 'totality-families':
            # a listed document is explained only by the very outcome recorded for it
            outcome, finding = self._family_known.get(d['meta']['doc_id'], (None, None))
            return finding if outcome == d['impl'] else None
        if d['section'] in ('pm-outcomes', 'pm-oof-outcomes', 'pm-foot-outcomes', 'pm-col-outcomes') and (
                d['impl'] == 'err:IndexError@page.py:_update_page_groups'):
            return 'page-groups-indexerror'
        if d['section'] == 'pm-foot-outcomes':
            return pm_foot_corr.classify(pm_foot_corr.doc_from_json(d['meta']['doc']), d['impl'])
        if d['section'] == 'wide-total' and d['impl'].startswith('err:'):
            if d['impl'].endswith('@inline.py:skip_first_whitespace') and 'flex' in d['meta'].get('features', ()):
                return 'flex-item-resume-crash'
        return None

    def finding_replays(self):
        return {**pm_stage2.finding_replays(),
                'flex-item-resume-crash': flex_resume_crash, 'page-groups-indexerror': page_groups_crash,
                'grid-named-span-hang': grid_named_span, **c02_total.FINDING_REPLAYS}

    def judge(self, d):
        if d['section'] in c02_total.SECTIONS:
            return c02_total.judge(self, d)
        if d['impl'].startswith('err:'):
            return f'rendering failed with {d["impl"]}'
        if d['impl'] == 'bad-output':
            return 'no page or no PDF produced'
        if d['section'] == 'pm-outcomes' or d['section'] in pm_stage2.SECTIONS:
            doc = pm_stage2.corr(d['section']).doc_from_json(d['meta']['doc'])
            return pm_stage2.corr(d['section']).progress_violation(doc, d['impl'])
        return None

    def search(self, run, failures):
        return c02_total.search(self, run, failures)

    def replay(self, data):
        inp = data.get('input', {})
        meta = inp.get('meta') or inp
        handled, what = c02_total.replay(self, meta)
        if handled:
            return what
        if 'html' in meta and 'doc' not in meta:
            out = wide_trace.render_outcome(meta['html'], options=meta.get('options'))
            return None if out == 'ok' else f'rendering failed with {out}'
        if 'doc' in meta:
            module, doc, out = pm_stage2.doc_and_real(inp)
            if out.startswith('err:'):
                return f'rendering failed with {out}'
            return module.progress_violation(doc, out)
        return None


FLEX_CRASH = (
    '<style>@page{size:60px 21px;margin:5px}html,body{margin:0}body{font-size:10px;line-height:10px}p{margin:0}</style>'
    '<div style="columns:3;column-gap:4px"><div style="display:flex;flex-direction:row"><div style="flex:1">'
    '<p style="margin:4px 0">w1 w2 w3</p></div><div style="flex:1"><p style="padding:4px;border:2px solid;orphans:4;'
    'widows:3">w4 <b>w5 w6 w7</b> w8 w9 w10 w11 <b style="padding:0 2px">w12</b> w13 w14 w15<br> w16</p></div>'
    '<div style="flex:1"><p style="padding:4px">w17</p></div></div></div>')


PAGE_GROUPS_CRASH = (
    '<style>@page{size:200px 115.5px;margin:0}html,body,p,div{margin:0}p{font-size:2px;line-height:12.5px}</style>'
    '<p>w5x0<br>w5x1<br>w5x2</p><div style="height:80px"><div><div style="break-before:avoid"></div>'
    '<p style="page:pb">w7x0</p></div></div>')


GRID_NAMED_SPAN = [
    # (declarations of the item, grid-auto-flow, expected class of outcome)
    ('grid-row:1;grid-column:span a', 'row', 'err:Hang'),
    ('grid-row-end:span a', 'column', 'err:Hang'),
    ('grid-row-start:span a', 'row', 'err:IndexError'),
]


def grid_named_span():
    """A span to a line name that the grid does not have: placement never terminates, or the item lands on tracks
    before the grid and track sizing raises IndexError."""
    for decl, flow, _ in GRID_NAMED_SPAN:
        html = f'<div style="display:grid;grid-auto-flow:{flow}"><div style="{decl}">x</div></div>'
        if wide_trace.render_outcome(html, limit_s=2) != 'ok':
            return True
    return False


COLUMNS_FOOTNOTE_REPORT = (
    '<style>@page{size:160px 40px;margin:2px}html,body{margin:0}body{font-size:10px;line-height:10px}p{margin:0}'
    '</style><p>w1</p><div style="columns:2;column-gap:4px"><p>w6</p><p>w10 w11 w12<span style="float:footnote">w8'
    '</span> w13</p></div>')


def columns_footnote_report_crash():
    """Regression probe (repaired by ca6bcce, was the finding columns-footnote-report-typeerror; the same class is
    run in every check by the tot-fn-cols-* documents of the totality families): the last footnote of a page
    reported from a multi-column container - _report_footnotes read the margin height of the emptied footnote area,
    whose height is 'auto' since repair 84e5b27 (TypeError)."""
    return wide_trace.render_outcome(COLUMNS_FOOTNOTE_REPORT).startswith('err:TypeError')


def page_groups_crash():
    return wide_trace.render_outcome(PAGE_GROUPS_CRASH).startswith('err:IndexError')


def flex_resume_crash():
    return wide_trace.render_outcome(FLEX_CRASH).startswith('err:')


PROP = C02()

MANIFEST = {
    'design_ref': 'DESIGN.md §4 C02',
    'technique': 'Lean 4 totality theorems on the pagination model (root assertion unreachable for every document), '
                 'outcome-kind correspondence with the real layout and PDF writer on adversarial documents',
    'text': 'Proved for all documents of the block/paragraph grammar: make_page never fails its root assertion; pagination terminates with at most 2*size(document) pages and at least one (C02.paginate_terminates, from the strict-progress theorem), so the explicit fuel of the model is irrelevant. Outcome kinds (pages vs exception class) are compared with the real code on random and adversarial documents, through layout and through write_pdf. Outside the pagination model: inline_block_baseline is modelled with its two indexings explicit and proved total for every box tree (C02x.inlineBlockBaseline_total), the size asked of Pillow thumbnail() under the dpi option is proved >= 1x1 (C02x.thumbSize_pos), both tied to the real functions on every small input; every display value x every sequence of table parts and every output option x degenerate image geometries are rendered and written; the cost of one construct nested 6/9/12 deep (count of function calls, deterministic, capped) is judged by a Lean growth checker proved to accept every polynomial cost up to degree 3 and to reject a cost doubling per level.',
    'note': 'Partial: totality is a theorem only for the pagination model (no fixed heights, orphans/widows >= 1); code outside it (inline layout, tables, flex, grid, drawing, PDF writing) is covered by the sampled totality runs, which are validation, not proof. Known findings (printed, not alarms): flex item resume crash, page-groups IndexError / AttributeError, grid span to a line name that does not exist (hang or IndexError; the family documents showing it are listed with their exact outcome in corpus/C02/family_known.json), rendering cost exponential in the nesting depth of flex, grid, multi-column containers and padded inline boxes (nested-*-exponential, exact outcomes in corpus/C02/growth_known.json).',
}
