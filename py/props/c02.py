"""C02 — rendering is total: no internal error, no hang, at least one page."""
from harness import docs, pm, pm_corr
from vlib import sx
from vlib.framework import PropCheck

INTERNAL = ('AssertionError', 'AttributeError', 'IndexError', 'TypeError', 'UnboundLocalError',
            'ZeroDivisionError', 'KeyError', 'ValueError', 'RecursionError')


def adversarial_doc(rng):
    """PM documents with adversarial-but-legal parameters: zero/tiny/huge lengths, deep nesting, tiny pages."""
    from fractions import Fraction
    doc = pm.gen_doc(rng, size=rng.choice([1, 2, 4, 10, 16]))
    doc['pageH'] = Fraction(rng.choice([1, 2, 5, 10, 20, 1000]))

    def walk(box):
        st = box['st']
        if rng.random() < 0.15:
            st[rng.choice(['mt', 'mb', 'pt', 'pb'])] = Fraction(rng.choice([0, 1, 64, 512]))
        if rng.random() < 0.05:
            st['height'] = Fraction(rng.choice([0, 1, 2048]))
        for kid in box['kids']:
            walk(kid)
    walk(doc['root'])
    return doc


class C02(PropCheck):
    id = 'C02'
    extractors = ()
    modules = ('WpModel.Props.C02',)
    trusted_base = (
        'modelled, not verified: the pagination functions of block.py / page.py (see C01); everything outside the '
        'model (inline layout, tables, flex, grid, drawing, PDF writing) is exercised only by the sampled totality runs',
    )
    assumptions = ()

    def correspondence(self, run):
        sec = run.section(
            'pm-outcomes',
            'random and adversarial block/paragraph documents (page heights from 1px, lengths up to 2048px, fixed '
            'heights 0): outcome kind (pages / exception class) and full pagination compared with the model; '
            'non-trivial = at least 2 pages')
        pm_corr.add_cases(run, sec, run.n(120, 3000))
        pm_corr.add_cases(run, sec, run.n(120, 3000), gen=adversarial_doc)
        sec2 = run.section(
            'write-pdf-total',
            'the same documents rendered through the public API and written to PDF: the model of the unmodelled '
            'stages is "returns at least one page and PDF bytes"; non-trivial = at least 2 pages')
        docs.quiet()
        for _ in range(run.n(40, 800)):
            doc = adversarial_doc(run.rng) if run.rng.random() < 0.5 else pm.gen_doc(run.rng)
            html = pm.doc_html(doc)

            def go():
                document = docs.render(html)
                data = document.write_pdf()
                return 'ok' if len(document.pages) >= 1 and data[:5] == b'%PDF-' else 'bad-output'
            out = docs.outcome(go)
            sec2.add(sx.line('total'), out, meta={'doc': pm_corr.doc_json(doc), 'html': html})

    def judge(self, d):
        if d['impl'].startswith('err:'):
            return f'rendering failed with {d["impl"]}'
        if d['impl'] == 'bad-output':
            return 'no page or no PDF produced'
        if d['section'] == 'pm-outcomes':
            doc = pm_corr.doc_from_json(d['meta']['doc'])
            return pm_corr.progress_violation(doc, d['impl'])
        return None

    def search(self, run, failures):
        return []

    def replay(self, data):
        inp = data.get('input', {})
        meta = inp.get('meta') or inp
        if 'doc' in meta:
            doc = pm_corr.doc_from_json(meta['doc'])
            out = pm_corr.real_line(doc)
            if out.startswith('err:'):
                return f'rendering failed with {out}'
            return pm_corr.progress_violation(doc, out)
        return None


PROP = C02()

MANIFEST = {
    'design_ref': 'DESIGN.md §4 C02',
    'technique': 'Lean 4 totality theorems on the pagination model (root assertion unreachable for every document), '
                 'outcome-kind correspondence with the real layout and PDF writer on adversarial documents',
    'text': 'Proved for all documents of the block/paragraph grammar: make_page never fails its root assertion; pagination terminates with at most 2*size(document) pages and at least one (C02.paginate_terminates, from the strict-progress theorem), so the explicit fuel of the model is irrelevant. Outcome kinds (pages vs exception class) are compared with the real code on random and adversarial documents, through layout and through write_pdf.',
    'note': 'Partial: totality is a theorem only for the pagination model (no fixed heights, orphans/widows >= 1); code outside it (inline layout, tables, flex, grid, drawing, PDF writing) is covered by the sampled totality runs, which are validation, not proof.',
}
