"""C14 — paged-media furniture: page boxes, margin boxes, page counters, running strings."""
import collections
import copy
from fractions import Fraction as F
import math
import types

from extract import margin_boxes, page_sizes
from harness import c14_docs, c14_gen as g, c14_marks, c14_percent, c14_regress, c14_sheet
from harness import docs
from vlib import lean, sx
from vlib.framework import PropCheck

AUTO = 'auto'
BREAKS = ['auto', 'avoid', 'avoid-page', 'avoid-column', 'page', 'column', 'left', 'right', 'recto', 'verso']


def _mods():
    from weasyprint import css
    from weasyprint.formatting_structure import boxes, build
    from weasyprint.layout import page
    import weasyprint.layout as layout
    return css, boxes, build, page, layout


def show3(*vals):
    return ' '.join(sx.atom(v) for v in vals)


# ---- implementation side of each direct-call family (also used by replay) ---------------------------

def make_box(cls_name, inner, ma, mb, spacing, vertical, extra=None):
    """A real PageBox / MarginBox with a dict style and used values set by hand.
    spacing = (padding_a, padding_b, border_a, border_b)."""
    _, boxes, _, page, _ = _mods()
    if cls_name == 'PageBox':
        box = boxes.PageBox(page.PageType('right', False, '', 0, ()), {})
    else:
        box = boxes.MarginBox('@top-left', {})
    for side in ('top', 'right', 'bottom', 'left'):
        setattr(box, f'margin_{side}', 0)
        setattr(box, f'padding_{side}', 0)
        setattr(box, f'border_{side}_width', 0)
    box.width = box.height = 0
    a, b = ('top', 'bottom') if vertical else ('left', 'right')
    setattr(box, 'height' if vertical else 'width', inner)
    setattr(box, f'margin_{a}', ma)
    setattr(box, f'margin_{b}', mb)
    setattr(box, f'padding_{a}', spacing[0])
    setattr(box, f'padding_{b}', spacing[1])
    setattr(box, f'border_{a}_width', spacing[2])
    setattr(box, f'border_{b}_width', spacing[3])
    for key, value in (extra or {}).items():
        setattr(box, key, value)
    return box


def read_box(box, vertical):
    if vertical:
        return box.height, box.margin_top, box.margin_bottom
    return box.width, box.margin_left, box.margin_right


def impl_pwh(inner, ma, mb, spacing, cb, vertical):
    _, _, _, page, _ = _mods()
    box = make_box('PageBox', inner, ma, mb, spacing, vertical)
    oriented = (page.VerticalBox if vertical else page.HorizontalBox)(None, box)
    page.page_width_or_height(oriented, cb)
    return show3(*read_box(box, vertical))


def impl_pdim(inner, ma, mb, spacing, cb, mn, mx, vertical):
    _, _, _, page, _ = _mods()
    dim = 'height' if vertical else 'width'
    box = make_box('PageBox', inner, ma, mb, spacing, vertical, {f'min_{dim}': mn, f'max_{dim}': mx})
    (page.page_height if vertical else page.page_width)(box, None, cb)
    return show3(*read_box(box, vertical))


def impl_fixed(inner, ma, mb, spacing, outer, vertical, top_or_left):
    _, _, _, page, _ = _mods()
    box = make_box('MarginBox', inner, ma, mb, spacing, vertical)
    page.compute_fixed_dimension(None, box, outer, vertical, top_or_left)
    return show3(*read_box(box, vertical))


class _StubContent:
    """Replace preferred.min/max_content_width as imported by layout/page.py by stub widths."""

    def __enter__(self):
        _, _, _, page, _ = _mods()
        self.page = page
        self.saved = page.min_content_width, page.max_content_width
        page.min_content_width = lambda context, box, outer=True: box.stub_min
        page.max_content_width = lambda context, box, outer=True: box.stub_max
        return self

    def __exit__(self, *exc):
        self.page.min_content_width, self.page.max_content_width = self.saved


def impl_variable(specs, vertical, avail, b_generated):
    """specs: three (inner, ma, mb, spacing, min_content, max_content)."""
    _, _, _, page, _ = _mods()
    side_boxes = []
    for i, (inner, ma, mb, spacing, mn, mx) in enumerate(specs):
        box = make_box('MarginBox', inner, ma, mb, spacing, vertical, {'stub_min': mn, 'stub_max': mx})
        box.is_generated = b_generated if i == 1 else True
        side_boxes.append(box)
    with _StubContent():
        page.compute_variable_dimension(None, side_boxes, vertical, avail)
    return [read_box(box, vertical) for box in side_boxes]


def impl_initside(brk, ltr):
    _, boxes, _, _, layout = _mods()
    root = boxes.BlockBox('html', {'break_before': brk, 'direction': 'ltr' if ltr else 'rtl', 'page': ''}, None, [])
    ctx = types.SimpleNamespace()
    layout.initialize_page_maker(ctx, root)
    resume_at, next_page, right_page, page_state, remake_state = ctx.page_maker[0]
    assert resume_at is None and next_page == {'break': 'any', 'page': ''}
    assert page_state == ([0], {'pages': [0]}, [{'pages'}])
    return str(bool(right_page)).lower()


def impl_remake(index, brk, name, right_page, ltr, fn):
    """The real `remake_page` with `make_page`, `set_page_type_computed_styles`, `_update_page_groups`
    replaced by recorders: what is compared is the PageType it builds and the right_page it stores."""
    _, boxes, _, page, _ = _mods()
    seen = {}

    def fake_make_page(context, root_box, page_type, resume_at, page_number, page_state):
        seen['page_type'] = page_type
        seen['page_number'] = page_number
        return 'PAGE', {0: None}, {'break': 'any', 'page': None}

    saved = page.make_page, page.set_page_type_computed_styles, page._update_page_groups
    page.make_page = fake_make_page
    page.set_page_type_computed_styles = lambda *a: None
    page._update_page_groups = lambda *a: None
    try:
        ctx = types.SimpleNamespace(
            page_maker=[None] * index + [(None if fn else {0: None}, {'break': brk, 'page': name}, right_page,
                                          ([0], {'pages': [0]}, [{'pages'}]), {})],
            reported_footnotes=['footnote'] if fn else [], style_for=None)
        root = boxes.BlockBox('html', {'direction': 'ltr' if ltr else 'rtl'}, None, [])
        page.remake_page(index, [], ctx, root, None)
    finally:
        page.make_page, page.set_page_type_computed_styles, page._update_page_groups = saved
    pt = seen['page_type']
    assert seen['page_number'] == index + 1
    stored = ctx.page_maker[index + 1][2]
    return (f"{pt.side} {str(bool(pt.blank)).lower()} {g.s(pt.name)} {pt.index} {str(bool(stored)).lower()}")


def impl_standardize(is_page, cset, creset, cincr):
    _, _, _, page, _ = _mods()
    style = {'counter_set': cset, 'counter_reset': creset, 'counter_increment': cincr}
    page._standardize_page_based_counters(style, None if is_page else '@top-left')
    return ' '.join(g.show_pairs(style[k]) for k in ('counter_set', 'counter_reset', 'counter_increment'))


def impl_update(values, scope, creset, cset, cincr, list_item):
    _, _, build, _, _ = _mods()
    state = ([0], {k: list(v) for k, v in values}, [set(scope)])
    style = {'counter_reset': creset, 'counter_set': cset, 'counter_increment': cincr,
             'display': ('block', 'flow', 'list-item') if list_item else ('block', 'flow')}
    build.update_counters(state, style)
    return g.show_state(state[1], state[2][-1])


def impl_pagestates(styles):
    """The page-state protocol of remake_page / make_page / layout_document on given @page counter styles."""
    _, _, build, page, _ = _mods()
    state = ([0], {'pages': [0]}, [{'pages'}])
    states = []
    for cset, creset, cincr in styles:
        state = copy.deepcopy(state)                      # remake_page
        style = {'counter_set': cset, 'counter_reset': creset, 'counter_increment': cincr,
                 'display': ('block', 'flow')}
        page._standardize_page_based_counters(style, None)    # make_page
        build.update_counters(state, style)
        states.append(state)
    for state in states:                                   # layout_document
        state[1]['pages'] = [len(states)]
    return ' '.join('(' + g.show_state(st[1], st[2][-1]) + ')' for st in states)


def impl_getstring(store_pages, current, keyword, chain, name='h'):
    _, boxes, _, _, layout = _mods()
    store = collections.defaultdict(dict)
    store[name] = {p: list(v) for p, v in store_pages}
    element = None
    for sets in reversed(chain):
        style = {'string_set': 'none' if sets is None else tuple((n, (('string', 'x'),)) for n in sets)}
        element = boxes.BlockBox('div', style, None, [element] if element is not None else [])
    ctx = types.SimpleNamespace(current_page=current)
    out = layout.LayoutContext.get_string_or_element_for(ctx, store, element, name, keyword)
    return 'none' if out is None else g.s(out)


def impl_parsesel(text):
    """-> (wire tokens | None, rendered result)"""
    import tinycss2
    css, *_ = _mods()
    rule = tinycss2.parse_one_rule('@page' + (' ' if text and not text.startswith(' ') else '') + text + '{}')
    if rule.type != 'at-rule':
        return None, None
    toks = g.wire_tokens(rule.prelude)
    try:
        data = css.parse_page_selectors(rule)
    except Exception as exc:  # an exception of the implementation is an outcome
        return toks, f'err:{type(exc).__name__}'
    out = 'none' if data is None else '(' + ' '.join(g.show_sel(d) for d in data) + ')'
    return toks, out


def impl_match(sel, pt):
    css, _, _, page, _ = _mods()
    st = css.PageSelectorType(side=sel['side'], blank=sel['blank'], first=sel['first'], index=sel['index'],
                              name=sel['name'])
    ptype = page.PageType(pt['side'], pt['blank'], pt['name'], pt['index'], pt['groups'])
    return str(bool(css.StyleFor._page_type_match(st, ptype))).lower()


def impl_cascade(pt, pseudo, rules):
    """rules: [(origin, sel dict, spec, pseudo, [(name, value, important)])] through the real
    `StyleFor.add_page_declarations` (object built without running the element cascade)."""
    css, _, _, page, _ = _mods()
    style_for = object.__new__(css.StyleFor)
    style_for._cascaded_styles = {}
    style_for._computed_styles = {}
    sheets = []
    for origin, sel, spec, ps, decls in rules:
        st = css.PageSelectorType(side=sel['side'], blank=sel['blank'], first=sel['first'], index=sel['index'],
                                  name=sel['name'])
        sheet = types.SimpleNamespace(page_rules=[(None, [(list(spec), ps or None, st)], list(decls))])
        sheets.append((sheet, {'ua': 'user agent'}.get(origin, origin), None))
    style_for._sheets = sheets
    ptype = page.PageType(pt['side'], pt['blank'], pt['name'], pt['index'], pt['groups'])
    style_for.add_page_declarations(ptype)
    cascaded = style_for._cascaded_styles.get((ptype, pseudo or None), {})
    return '(' + ' '.join(
        f'({g.s(name)} {value} {weight[0]} ({weight[1][0]} {weight[1][1]} {weight[1][2]}))'
        for name, (value, weight) in cascaded.items()) + ')'


def impl_prec(origin, important):
    css, *_ = _mods()
    return str(css.declaration_precedence({'ua': 'user agent'}.get(origin, origin), important))


def ra_wire(ra):
    """resume_at (None | nested dict) -> wire"""
    if ra is None:
        return 'none'
    return [[k, ra_wire(v)] for k, v in ra.items()]


def show_ra(ra):
    if ra is None:
        return 'none'
    return '(' + ' '.join(f'({k} {show_ra(v)})' for k, v in ra.items()) + ')'


def tree_wire(t):
    page, is_parent, in_flow, kids = t
    return [g.s(page), is_parent, in_flow, [tree_wire(k) for k in kids]]


def tree_boxes(t):
    _, boxes, _, _, _ = _mods()
    page, is_parent, in_flow, kids = t
    style = {'page': page, 'float': 'none' if in_flow else 'left', 'position': 'static'}
    if is_parent:
        return boxes.BlockBox('div', style, None, [tree_boxes(k) for k in kids])
    return boxes.TextBox('span', style, None, 'x')


def impl_includes(resume, group):
    _, _, _, page, _ = _mods()
    return str(bool(page._includes_resume_at(copy.deepcopy(resume), copy.deepcopy(group)))).lower()


def impl_groups(groups, resume, brk, name, tree):
    _, _, _, page, _ = _mods()
    page_groups = [[n, i, copy.deepcopy(r)] for n, i, r in groups]
    page._update_page_groups(page_groups, copy.deepcopy(resume), {'break': brk, 'page': name}, tree_boxes(tree))
    return '(' + ' '.join(f'({g.s(n)} {i} {show_ra(r)})' for n, i, r in page_groups) + ')'


# ---- property clauses stated directly (judge) -----------------------------------------------------

def num(atom):
    return F(atom)


def clause_page_box(inner, ma, mb, ppb, cb, out):
    """css-page-3 §7 / CSS 2.1 10.3.3 on the implementation's result."""
    w, a, b = [num(x) for x in out.split()]
    given = [v for v in (inner, ma, mb) if v != AUTO]
    if len(given) == 3:
        if (w, a, b) != tuple(given):
            return f'over-constrained page box: given values changed to {out}'
        return None
    if a + ppb + w + b != cb:
        return f'page box: margin_a + padding/border + inner + margin_b = {a + ppb + w + b} != {cb}'
    if inner != AUTO and w != inner:
        return f'page box: specified size {inner} changed to {w}'
    if ma != AUTO and inner == AUTO and a != ma:
        return f'page box: specified margin {ma} changed to {a}'
    if ma == AUTO and mb == AUTO and inner != AUTO and a != b:
        return f'page box: auto margins not equal: {a} {b}'
    return None


def clause_fixed(inner, ma, mb, ppb, outer, out, top_or_left=None):
    if out.startswith('err:'):
        return f'compute_fixed_dimension raised {out}'
    w, a, b = [num(x) for x in out.split()]
    if a + ppb + w + b != outer:
        return f'margin box fixed dimension: {a} + {ppb} + {w} + {b} != {outer}'
    if inner == AUTO and w < 0:
        return f'margin box fixed dimension: auto size resolved to negative {w}'
    if inner != AUTO and w != inner:
        return f'margin box fixed dimension: given size {inner} changed to {w}'
    if top_or_left is not None and AUTO not in (inner, ma, mb):
        # css-page-3 5.3.1 rule 3: over-constrained -> the margin away from the page edge gives way
        if top_or_left and b != mb:
            return f'over-constrained box in the top/left half: margin_b {mb} changed to {b} (margin_a should give way)'
        if not top_or_left and a != ma:
            return f'over-constrained box in the bottom/right half: margin_a {ma} changed to {a} (margin_b should give way)'


def clause_variable(specs, avail, b_generated, out):
    if isinstance(out, str) and out.startswith('err:'):
        return f'compute_variable_dimension raised {out}'
    for (inner, ma, mb, spacing, mn, mx), (w, a, b) in zip(specs, out):
        if inner == AUTO and mn <= mx and not (mn <= w <= mx):
            return f'auto size {w} outside [min-content {mn}, max-content {mx}]'
        if inner != AUTO and w != inner:
            return f'specified size {inner} changed to {w}'
    return None


def clause_variable_symmetric(specs, vertical, avail, b_generated, res):
    """css-page-3 §5.3.2: a generated centre box is resolved against the imaginary box "AC", twice the larger of its
    two neighbours (min- and max-content contributions alike): exchanging A and C must leave B's size unchanged and
    exchange the sizes of A and C."""
    if not b_generated or isinstance(res, str):
        return None
    swapped = docs.outcome(lambda: impl_variable([specs[2], specs[1], specs[0]], vertical, avail, b_generated))
    if isinstance(swapped, str):
        return f'compute_variable_dimension raised {swapped} with the two outer boxes exchanged'
    if swapped[1][0] != res[1][0]:
        return (f'centre box resolved to {res[1][0]} but to {swapped[1][0]} when its neighbours A and C are exchanged '
                f'(it is sized against 2 x the larger neighbour, whichever side that is): avail {avail}, '
                f'A/B/C (inner, margins, min-content, max-content) = '
                f'{[(str(sp[0]), str(sp[1]), str(sp[2]), str(sp[4]), str(sp[5])) for sp in specs]}')
    if (swapped[0][0], swapped[2][0]) != (res[2][0], res[0][0]):
        return (f'outer boxes resolved to {res[0][0]}, {res[2][0]} but to {swapped[2][0]}, {swapped[0][0]} when exchanged '
                f'(avail {avail})')
    return None


# fixed family run first in `variable-dimension`: a generated auto centre box between a narrow box and a wide box with
# wrappable content, at available sizes in each of the three flex-fit branches, the wide box on either side
def fixed_variable_family():
    Z = [F(0)] * 4
    narrow, wide, centre = (AUTO, F(0), F(0), Z, F(10), F(20)), (AUTO, F(0), F(0), Z, F(10), F(100)), \
        (AUTO, F(0), F(0), Z, F(10), F(40))
    given = (F(30), F(2), F(1), Z, F(5), F(60))
    out = []
    for avail in (F(400), F(150), F(90), F(40), F(20)):
        for a, c in ((narrow, wide), (wide, narrow), (given, wide), (wide, given)):
            for vertical in (False, True):
                out.append(([a, centre, c], vertical, avail, True))
    return out


class C14(PropCheck):
    id = 'C14'
    extractors = (margin_boxes.generate, page_sizes.generate)
    modules = ('WpModel.Props.C14', 'WpModel.Props.C14Strings', 'WpModel.Props.C14Variable', 'WpModel.Props.C14Groups',
               'WpModel.Props.C14Parse', 'WpModel.Props.C14Percent', 'WpModel.Props.C14Sheet', 'WpModel.Props.C14Exact', 'WpModel.Props.C14Symm', 'WpModel.Props.C14Doc', 'WpModel.Props.C14Marks',
               'WpModel.Witness.C14')
    trusted_base = (
        'modelled, not verified: layout/page.py page_width_or_height, page_width/page_height (+ min_max.py), '
        'compute_fixed_dimension, compute_variable_dimension, make_margin_boxes (geometry), make_page (geometry), '
        'remake_page (side/blank), _standardize_page_based_counters; layout/__init__.py initialize_page_maker, '
        'get_string_or_element_for; build.update_counters; css parse_page_selectors, _page_type_match, '
        'add_page_declarations, declaration_precedence; pdf generate_pdf page boxes; layout/percent.py percentage, '
        'resolve_one_percentage, resolve_percentages (definite and indefinite containing-block height), adjust_box_sizing; css/utils.py '
        'get_length, get_keyword; validation/properties.py size, marks, bleed; computed_values.py length (absolute '
        'units, em, rem), length_tuple, bleed; draw/__init__.py draw_background (the SVG of crop / cross marks) — hand transcriptions tied by the executable correspondence of every run',
        'PAGE_SIZES / INITIAL_PAGE_SIZE / LENGTHS_TO_PIXELS / LENGTH_UNITS regenerated from computed_values.py and '
        'utils.py by AST each run (Gen/PageSizes.lean), cross-checked against the imported objects',
        'side / corner tables of make_margin_boxes regenerated from page.py by AST each run (Gen/MarginBoxes.lean)',
        'tinycss2 tokeniser and tinycss2.nth.parse_nth (oracle table), preferred.min/max_content_width (stubbed in '
        'direct calls; real with the fixed-pitch test font in documents), Pango line breaking of margin-box text',
    )
    assumptions = (
        'document level: lengths are dyadic px; implementation floats within 1e-9 relative of the exact model value '
        'are counted as float rounding (never for a discrete decision: sides, blank, names, texts, box lists)',
        'document level: sections are small enough to fit their page (pagination proper is C01-C04)',
    )

    # ------------------------------------------------------------------------------------------------
    def correspondence(self, run):
        docs.quiet()
        rng = run.rng
        self._tagged = []
        c14_regress.correspondence(self, run)          # corpus first: inputs of the repaired findings
        self._page_box(run, rng)
        c14_percent.correspondence(self, run)
        c14_sheet.correspondence(self, run)
        c14_marks.correspondence(self, run)
        self._fixed(run, rng)
        self._variable(run, rng)
        self._sides(run, rng)
        self._counters(run, rng)
        self._strings(run, rng)
        self._selectors(run, rng)
        self._cascade(run, rng)
        self._groups(run, rng)
        c14_docs.correspondence(self, run)
        self._model_branches(run)

    TAGGED = ('pwh', 'pdim', 'fixed', 'variable', 'remake', 'update', 'getstring', 'parsesel', 'match')

    def _section(self, run, name, rule):
        """A section whose protocol lines are also sent to the driver as `tag <line>`: the branch the
        *model* takes on each input feeds the branch histogram of the evidence."""
        sec = run.section(name, rule)
        if getattr(run, 'found', None) is not None:         # search mode: no model run
            return sec
        prop = self

        class Tagged:
            def add(self, line, impl_out, **kw):
                if line.split(' ', 1)[0] in prop.TAGGED:
                    prop._tagged.append((sec, line))
                sec.add(line, impl_out, **kw)
        return Tagged()

    def _model_branches(self, run):
        if not getattr(self, '_tagged', None):
            return
        tags = lean.run_driver(self.driver, ['tag ' + line for _, line in self._tagged])
        seen = collections.Counter()
        for (sec, _), tag in zip(self._tagged, tags):
            sec.tags[tag] += 1
            seen[tag] += 1
        every = lean.run_driver(self.driver, ['alltags'])[0].split()
        run.extra['model_branches'] = len(every)
        run.extra['model_branches_hit'] = sum(1 for t in every if seen[t])
        run.extra['model_branches_never_hit'] = [t for t in every if not seen[t]]
        run.extra['fixed_dimension_rule_paths'] = {t: n for t, n in sorted(seen.items()) if t.startswith('fixed:')}
        self._tagged = []

    # -- page_width_or_height / page_width / page_height ----------------------------------------------
    def _page_box(self, run, rng):
        sec = self._section(run, 
            'page-box', 'page_width_or_height on real PageBox + Horizontal/VerticalBox with Fractions, all 8 auto '
            'patterns, adversarial lengths; non-trivial = at least one auto value')
        for i in range(run.n(3000, 40000)):
            pattern = i % 8
            vertical = rng.random() < 0.5
            adv = rng.random() < 0.2
            kw = dict(neg=0.3, big=0.2, zero=0.3) if adv else {}
            inner, ma, mb = g.pattern_lengths(rng, pattern, **kw)
            spacing = [g.length(rng, top=20, **kw) for _ in range(4)]
            cb = g.length(rng, top=800, **kw)
            out = docs.outcome(lambda: impl_pwh(inner, ma, mb, spacing, cb, vertical))
            sec.add(sx.line('pwh', inner, ma, mb, sum(spacing), cb), out,
                    meta={'fn': 'pwh', 'args': [inner, ma, mb, spacing, cb, vertical]}, nontrivial=pattern != 0,
                    tags=[f'auto{pattern}', 'adversarial' if adv else 'plain'])
        sec = self._section(run, 
            'page-min-max', 'page_width / page_height (handle_min_max_*) with min/max (inf included); non-trivial = '
            'a min or max constraint is active')
        for i in range(run.n(3000, 40000)):
            pattern = i % 8
            vertical = rng.random() < 0.5
            adv = rng.random() < 0.15
            kw = dict(neg=0.2, big=0.1, zero=0.3) if adv else {}
            inner, ma, mb = g.pattern_lengths(rng, pattern, **kw)
            spacing = [g.length(rng, top=20, **kw) for _ in range(4)]
            cb = g.length(rng, top=800, **kw)
            mn = g.length(rng, top=600, zero=0.5)
            mx = math.inf if rng.random() < 0.4 else g.length(rng, top=900)
            out = docs.outcome(lambda: impl_pdim(inner, ma, mb, spacing, cb, mn, mx, vertical))
            plain = impl_pwh(inner, ma, mb, spacing, cb, vertical)
            sec.add(sx.line('pdim', inner, ma, mb, sum(spacing), cb, mn, mx), out,
                    meta={'fn': 'pdim', 'args': [inner, ma, mb, spacing, cb, mn, 'inf' if mx == math.inf else mx, vertical]},
                    nontrivial=out != plain, tags=[f'auto{pattern}', 'clamped' if out != plain else 'free'])

    # -- compute_fixed_dimension ----------------------------------------------------------------------
    def _fixed(self, run, rng):
        sec = self._section(run, 
            'fixed-dimension', 'compute_fixed_dimension on real MarginBox, all 8 auto patterns x vertical x '
            'top_or_left; non-trivial = not the plain one-auto case')
        for i in range(run.n(4000, 60000)):
            pattern = i % 8
            vertical, top_or_left = bool(i // 8 % 2), bool(i // 16 % 2)
            adv = rng.random() < 0.25
            kw = dict(neg=0.3, big=0.15, zero=0.3) if adv else {}
            inner, ma, mb = g.pattern_lengths(rng, pattern, top=40, **kw)
            spacing = [g.length(rng, top=6, **kw) for _ in range(4)]
            outer = g.length(rng, top=160, **kw)
            out = docs.outcome(lambda: impl_fixed(inner, ma, mb, spacing, outer, vertical, top_or_left))
            total = sum(spacing) + sum(v for v in (inner, ma, mb) if v != AUTO)
            tag = 'over' if total > outer else ('constrained' if pattern == 0 else 'fits')
            sec.add(sx.line('fixed', inner, ma, mb, sum(spacing), outer, top_or_left), out,
                    meta={'fn': 'fixed', 'args': [inner, ma, mb, spacing, outer, vertical, top_or_left]},
                    nontrivial=tag != 'fits' or pattern in (3, 5, 6, 7), tags=[f'auto{pattern}', tag])

    # -- compute_variable_dimension -------------------------------------------------------------------
    def _variable(self, run, rng):
        sec = self._section(run, 
            'variable-dimension', 'compute_variable_dimension on three real MarginBoxes with stub min/max-content '
            'widths (horizontal, Fractions) — every combination of auto inner sizes, B generated or not; '
            'non-trivial = a flex-fit branch runs (two autos or auto B)')
        snap = g.Snap()
        vertical_cases = []
        for specs, vertical, avail, b_generated in fixed_variable_family():
            wire = [[sp[0], sp[1], sp[2], sum(sp[3]), sp[4], sp[5]] for sp in specs]
            line = sx.line('variable', vertical, avail, b_generated, *wire)
            meta = {'fn': 'variable', 'args': [specs, vertical, avail, b_generated]}
            res = docs.outcome(lambda: impl_variable(specs, vertical, avail, b_generated))
            tags = ['vertical' if vertical else 'horizontal', 'B', 'fixed-family']
            if vertical:
                vertical_cases.append((line, res, meta, True, tags))
            else:
                out = res if isinstance(res, str) else ' '.join('(' + show3(*r) + ')' for r in res)
                sec.add(line, out, meta=meta, nontrivial=True, tags=tags)
        for i in range(run.n(5000, 80000)):
            vertical = i % 5 == 4
            b_generated = rng.random() < 0.6
            adv = rng.random() < 0.15
            kw = dict(neg=0.2, big=0.05, zero=0.3) if adv else {}
            draw = (lambda **k: g.dyadic(rng, **k)) if vertical else (lambda top=200, **k: g.length(rng, top=top, **kw))
            specs = []
            autos = i // 5 % 8
            degenerate = rng.choice([0] * 16 + [1, 1, 2])
            for j in range(3):
                if j == 1 and not b_generated:
                    specs.append((F(0), F(0), F(0), [F(0)] * 4, F(0), F(0)))
                    continue
                inner = AUTO if autos >> j & 1 else draw(top=150)
                ma = AUTO if rng.random() < 0.15 else draw(top=15)
                mb = AUTO if rng.random() < 0.15 else draw(top=15)
                spacing = [draw(top=6) for _ in range(4)]
                mn = draw(top=120)
                mx = mn + draw(top=200) if rng.random() < 0.9 else draw(top=120)
                if degenerate == 1:        # equal min- and max-content sizes: the flex factors are all 0
                    mx = mn
                elif degenerate == 2:      # empty boxes: every flex factor sum is 0 (`flex_factor_sum = 1`)
                    mn = mx = F(0)
                    ma = mb = F(0)
                    spacing = [F(0)] * 4
                specs.append((inner, ma, mb, spacing, mn, mx))
            if rng.random() < 0.03 and not b_generated:
                specs[1] = (g.length(rng), F(0), F(0), [F(0)] * 4, F(0), F(0))    # assert box_b.inner == 0
            avail = draw(top=700)
            wire = [[sp[0], sp[1], sp[2], sum(sp[3]), sp[4], sp[5]] for sp in specs]
            line = sx.line('variable', vertical, avail, b_generated, *wire)
            both = specs[0][0] == AUTO and specs[2][0] == AUTO
            nontrivial = (b_generated and specs[1][0] == AUTO) or (not b_generated and both)
            tags = ['vertical' if vertical else 'horizontal', 'B' if b_generated else 'noB', f'autos{autos}']
            meta = {'fn': 'variable', 'args': [specs, vertical, avail, b_generated]}
            res = docs.outcome(lambda: impl_variable(specs, vertical, avail, b_generated))
            if vertical:
                vertical_cases.append((line, res, meta, nontrivial, tags))
            else:
                out = res if isinstance(res, str) else ' '.join('(' + show3(*r) + ')' for r in res)
                sec.add(line, out, meta=meta, nontrivial=nontrivial, tags=tags)
        # vertical: VerticalBox.max_content_size is the float 1e6, results are floats: snap to the model
        collecting = getattr(run, 'found', None) is not None          # search mode: no model
        model = (['bad-op'] * len(vertical_cases) if collecting else
                 lean.run_driver(self.driver, [c[0] for c in vertical_cases]))
        for (line, res, meta, nontrivial, tags), mout in zip(vertical_cases, model):
            if isinstance(res, str) or mout.startswith('err:') or mout == 'bad-op':
                out = res if isinstance(res, str) else ' '.join('(' + show3(*r) + ')' for r in res)
            else:
                matoms = [t for grp in sx.loads_line(mout) for t in grp]
                flat = [v for r in res for v in r]
                out = ' '.join('(' + ' '.join(snap.num(v, m) for v, m in zip(flat[k:k + 3], matoms[k:k + 3])) + ')'
                               for k in (0, 3, 6))
            sec.add(line, out, meta=meta, nontrivial=nontrivial, tags=tags)
        run.extra['float_rounding_variable_vertical'] = snap.rounded

    # -- sides and blank pages ------------------------------------------------------------------------
    def _sides(self, run, rng):
        sec = self._section(run, 'init-side', 'initialize_page_maker on a real root box: all 10 break values x 2 directions')
        for brk in BREAKS:
            for ltr in (True, False):
                sec.add(sx.line('initside', brk, ltr), docs.outcome(lambda: impl_initside(brk, ltr)),
                        meta={'fn': 'initside', 'args': [brk, ltr]}, nontrivial=brk in ('left', 'right', 'recto', 'verso'))
        sec = self._section(run, 
            'remake-side', 'the real remake_page (make_page / style computation stubbed): every next_page break x '
            'right_page x direction x pending-footnote flag, several indexes and names; non-trivial = a side is requested')
        for brk in ['any'] + BREAKS:
            for right_page in (True, False):
                for ltr in (True, False):
                    for fn in (False, True):
                        for index, name in ((0, ''), (3, 'chap')):
                            out = docs.outcome(lambda: impl_remake(index, brk, name, right_page, ltr, fn))
                            sec.add(sx.line('remake', index, brk, g.s(name), right_page, ltr, fn), out,
                                    meta={'fn': 'remake', 'args': [index, brk, name, right_page, ltr, fn]},
                                    nontrivial=brk in ('left', 'right', 'recto', 'verso'), tags=[brk])

    # -- counters -------------------------------------------------------------------------------------
    def _counters(self, run, rng):
        sec = self._section(run, 
            'standardize-counters', '_standardize_page_based_counters on dict styles (page and margin context); '
            'non-trivial = some list is non-empty')
        for _ in range(run.n(1500, 20000)):
            is_page = rng.random() < 0.6
            lists = [g.counter_list(rng, auto=0.3) for _ in range(3)]
            out = docs.outcome(lambda: impl_standardize(is_page, *lists))
            sec.add(sx.line('standardize', is_page, *[g.pairs_wire(l) for l in lists]), out,
                    meta={'fn': 'standardize', 'args': [is_page] + [l if l == AUTO else [list(p) for p in l] for l in lists]},
                    nontrivial=any(l not in (AUTO, ()) for l in lists),
                    tags=['page' if is_page else 'margin'])
        sec = self._section(run, 
            'update-counters', 'build.update_counters on arbitrary (values, scope) states, including states that '
            'break its invariants (KeyError / IndexError / AssertionError outcomes); non-trivial = some list non-empty')
        for _ in range(run.n(3000, 40000)):
            names = rng.sample(g.CNAMES, rng.randrange(0, 4))
            broken = rng.random() < 0.15
            values = [(n, [rng.randrange(-3, 9) for _ in range(rng.choice([1, 1, 1, 2] + ([0] if broken else [])))])
                      for n in names]
            scope = [n for n in names if rng.random() < (0.5 if broken else 0.8)]
            if broken and rng.random() < 0.5:
                scope.append(rng.choice(g.CNAMES))
            scope = sorted(set(scope))
            creset, cset = g.counter_list(rng), g.counter_list(rng)
            cincr = g.counter_list(rng, auto=0.2)
            list_item = rng.random() < 0.3
            out = docs.outcome(lambda: impl_update(values, scope, creset, cset, cincr, list_item))
            sec.add(sx.line('update', [[g.s(n), v] for n, v in values], [g.s(n) for n in scope], g.pairs_wire(creset),
                            g.pairs_wire(cset), g.pairs_wire(cincr), list_item), out,
                    meta={'fn': 'update', 'args': [values, scope, list(creset), list(cset),
                                                   cincr if cincr == AUTO else list(cincr), list_item]},
                    nontrivial=bool(creset or cset or cincr not in (AUTO, ())),
                    tags=['err' if out.startswith('err:') else 'ok'])
        sec = self._section(run, 
            'page-states', 'the page_state protocol (deepcopy, standardize, update_counters, final `pages`) over '
            '1..40 pages of @page counter styles; non-trivial = some page touches a counter')
        for _ in range(run.n(600, 8000)):
            n = rng.choice([1, 2, 3, 5, 8, 13, 40]) if rng.random() < 0.3 else rng.randrange(1, 12)
            base = [g.counter_list(rng, auto=0.5, names=['page', 'pages', 'c']) for _ in range(3)]
            styles = []
            for _ in range(n):
                if rng.random() < 0.7:
                    styles.append(tuple(base))
                else:
                    styles.append(tuple(g.counter_list(rng, auto=0.4, names=['page', 'pages', 'c', 'sec']) for _ in range(3)))
            # counter_increment 'auto' is the initial value; set/reset are never 'auto' in a computed style
            styles = [(() if s0 == AUTO else s0, () if s1 == AUTO else s1, s2) for s0, s1, s2 in styles]
            out = docs.outcome(lambda: impl_pagestates(styles))
            sec.add(sx.line('pagestates', [[g.pairs_wire(a), g.pairs_wire(b), g.pairs_wire(c)] for a, b, c in styles]),
                    out, meta={'fn': 'pagestates', 'args': [[[x if x == AUTO else [list(p) for p in x] for x in st]
                                                            for st in styles]]},
                    nontrivial=any(x not in (AUTO, ()) for st in styles for x in st), tags=[f'pages{min(n, 12)}'])

    # -- string() / element() -------------------------------------------------------------------------
    def _strings(self, run, rng):
        sec = self._section(run, 
            'named-strings', 'LayoutContext.get_string_or_element_for on a dict store and a chain of real boxes: '
            'every keyword, assignments on random pages, empty lists (IndexError); non-trivial = the store is not empty')
        words = ['aa', 'bb', 'cc', 'dd', 'ee']
        for _ in range(run.n(4000, 60000)):
            npages = rng.randrange(1, 9)
            pages = sorted(rng.sample(range(0, npages + 2), rng.randrange(0, min(4, npages + 2))))
            store = [(p, [rng.choice(words) for _ in range(rng.choice([1, 1, 2, 3] + ([0] if rng.random() < 0.1 else [])))])
                     for p in pages]
            current = rng.randrange(0, npages + 2)
            if store and rng.random() < 0.4:
                current = rng.choice(store)[0]
            keyword = rng.choice(['first', 'start', 'last', 'first-except', 'first', 'start', 'bogus'])
            chain = [rng.choice([None, None, None, ('h',), ('x',), ('x', 'h'), ()]) for _ in range(rng.randrange(1, 6))]
            out = docs.outcome(lambda: impl_getstring(store, current, keyword, chain))
            flags = [c is not None and 'h' in c for c in chain]
            sec.add(sx.line('getstring', current, keyword, flags, [[p, [g.s(v) for v in vs]] for p, vs in store]), out,
                    meta={'fn': 'getstring', 'args': [store, current, keyword, [None if c is None else list(c) for c in chain]]},
                    nontrivial=bool(store),
                    tags=[keyword, 'on-page' if any(p == current for p, _ in store) else 'off-page'])

    # -- page selectors -------------------------------------------------------------------------------
    def _selectors(self, run, rng):
        sec = self._section(run, 
            'parse-page-selectors', 'parse_page_selectors on tinycss2-parsed preludes built from names, pseudo-classes, '
            ':nth() forms (with `of`), commas, stray literals, comments; non-trivial = at least one pseudo-class or comma')
        seen = set()
        for _ in range(run.n(4000, 60000)):
            text = g.prelude(rng, valid=rng.choice([0.98, 0.95, 0.9, 0.6]))
            if text in seen:
                continue
            seen.add(text)
            toks, out = impl_parsesel(text)
            if toks is None:
                continue
            sec.add(sx.line('parsesel', toks), out, meta={'fn': 'parsesel', 'args': [text]},
                    nontrivial=':' in text or ',' in text, tags=['rejected' if out == 'none' else 'parsed'])
        sec = self._section(run, 
            'page-type-match', 'StyleFor._page_type_match on random selector types x page types (nth with negative '
            'and zero steps, groups); non-trivial = the selector constrains something')
        for _ in range(run.n(6000, 80000)):
            sel, pt = g.random_sel(rng), g.random_page_type(rng)
            if rng.random() < 0.5:          # steer half of the cases towards a match
                if sel['side']:
                    pt['side'] = sel['side']
                if sel['blank']:
                    pt['blank'] = True
                if sel['first'] and rng.random() < 0.7:
                    pt['index'] = 0
                if sel['name'] is not None:
                    pt['name'] = sel['name']
                if sel['index'] is not None and sel['index'][2] is not None and rng.random() < 0.7:
                    pt['name'] = sel['index'][2]
                    pt['groups'] = pt['groups'] + ((sel['index'][2], rng.randrange(0, 8)),)
            out = docs.outcome(lambda: impl_match(sel, pt))
            sec.add(sx.line('match', g.sel_wire(**sel), g.page_type_wire(pt)), out,
                    meta={'fn': 'match', 'args': [sel, pt]},
                    nontrivial=any(v is not None for v in sel.values()), tags=[out])
        sec = self._section(run, 'precedence', 'declaration_precedence on 3 origins x importance')
        for origin in ('ua', 'user', 'author'):
            for imp in (False, True):
                sec.add(sx.line('prec', origin, imp), docs.outcome(lambda: impl_prec(origin, imp)),
                        meta={'fn': 'prec', 'args': [origin, imp]})

    # -- page groups ----------------------------------------------------------------------------------
    def _groups(self, run, rng):
        def rand_tree(depth):
            is_parent = depth > 0 and rng.random() < 0.85
            kids = [rand_tree(depth - 1) for _ in range(rng.choice([0, 1, 2, 3]))] if is_parent else []
            return (rng.choice(['', '', 'a', 'b']), is_parent, rng.random() < 0.8, kids)

        def rand_path(tree, adversarial):
            """A resume_at following the tree (mostly), as nested dicts."""
            _, _, _, kids = tree
            if not kids or rng.random() < 0.1:
                k = rng.randrange(0, 4)
            else:
                k = rng.randrange(len(kids))
            sub = None
            if k < len(kids) and kids[k][3] and rng.random() < 0.6:
                sub = rand_path(kids[k], adversarial)
            d = {}
            if adversarial and rng.random() < 0.3:          # a second (earlier) key: parallel flows
                d[rng.choice([x for x in range(5) if x != k])] = None if rng.random() < 0.5 else {0: None}
            d[k] = sub
            if adversarial and rng.random() < 0.05:
                d = {}
            return d

        def prefix(ra):
            """A group resume_at that (mostly) includes `ra`: a prefix of its last-item path."""
            if ra is None or not ra:
                return {rng.randrange(3): None}
            k, v = list(ra.items())[-1]
            if rng.random() < 0.15:
                k = rng.randrange(4)
            if v is None or rng.random() < 0.5:
                return {k: None}
            return {k: prefix(v)}
        sec = self._section(run, 'page-groups', 'the real _update_page_groups / _includes_resume_at on real box '
                            'trees (style page, ParentBox or not, in flow or floated), resume_at dicts following the tree '
                            '(adversarial: several keys, empty dicts, indexes out of range, None), 0..3 existing groups; '
                            'non-trivial = a group exists or one is created')
        for _ in range(run.n(3000, 40000)):
            adversarial = rng.random() < 0.2
            tree = ('', True, True, [rand_tree(3) for _ in range(rng.choice([1, 1, 2]))])
            resume = rand_path(tree, adversarial) if rng.random() < 0.95 else None
            groups = [(rng.choice(['a', 'b', 'c']), rng.randrange(0, 5),
                       prefix(resume) if rng.random() < 0.8 else rand_path(tree, adversarial))
                      for _ in range(rng.choice([0, 0, 1, 1, 2, 3]))]
            if adversarial and groups and rng.random() < 0.2:
                groups[0] = (groups[0][0], groups[0][1], rng.choice([None, {}, {0: None, 1: None}]))
            brk = rng.choice(['any', 'page', 'auto', 'left', 'right'])
            name = rng.choice([None, '', 'a', 'a', 'b', 'b'])
            out = docs.outcome(lambda: impl_groups(groups, resume, brk, name, tree))
            created = out.startswith('(') and out.count('(s:') > len(groups)
            sec.add(sx.line('groups', [[g.s(n), i, ra_wire(r)] for n, i, r in groups], ra_wire(resume), brk == 'any',
                            g.s(name or ''), tree_wire(tree)), out,
                    meta={'fn': 'groups', 'args': [[list(x) for x in groups], resume, brk, name, tree]},
                    nontrivial=bool(groups) or created,
                    tags=['created' if created else ('err' if out.startswith('err:') else 'kept')])
        sec = self._section(run, 'includes-resume-at', '_includes_resume_at on pairs of nested dicts; non-trivial = true')
        for _ in range(run.n(1500, 20000)):
            tree = ('', True, True, [rand_tree(3) for _ in range(2)])
            adversarial = rng.random() < 0.25
            resume = rand_path(tree, adversarial) if rng.random() < 0.95 else None
            group = prefix(resume) if rng.random() < 0.7 else rand_path(tree, adversarial)
            out = docs.outcome(lambda: impl_includes(resume, group))
            sec.add(sx.line('includes', ra_wire(resume), ra_wire(group)), out,
                    meta={'fn': 'includes', 'args': [resume, group]}, nontrivial=out == 'true', tags=[out])

    # -- add_page_declarations ------------------------------------------------------------------------
    def _cascade(self, run, rng):
        sec = self._section(run, 
            'page-cascade', 'the real StyleFor.add_page_declarations (+ _page_type_match, declaration_precedence) on '
            'random rule lists: origins, !important, specificities, margin-box pseudo types; non-trivial = two '
            'matching declarations of one property')
        props = ['size', 'margin-top', 'width', 'content']
        for _ in range(run.n(2500, 40000)):
            pt = g.random_page_type(rng)
            rules = []
            for _ in range(rng.randrange(1, 7)):
                sel = g.random_sel(rng) if rng.random() < 0.6 else dict(side=None, blank=None, first=None, index=None, name=None)
                spec = (rng.randrange(0, 3), rng.randrange(0, 3), rng.randrange(0, 3))
                pseudo = rng.choice(['', '', '@top-left', '@bottom-center'])
                decls = [(rng.choice(props), f'v{rng.randrange(100)}', rng.random() < 0.25)
                         for _ in range(rng.randrange(1, 4))]
                rules.append((rng.choice(['author', 'author', 'author', 'user', 'ua']), sel, spec, pseudo, decls))
            pseudo = rng.choice(['', '', '@top-left'])
            out = docs.outcome(lambda: impl_cascade(pt, pseudo, rules))
            wire = [[o, g.sel_wire(spec=sp, **sel), g.s(ps), [[g.s(n), v, imp] for n, v, imp in ds]]
                    for o, sel, sp, ps, ds in rules]
            matching = collections.Counter(
                n for o, sel, sp, ps, ds in rules if ps == pseudo and impl_match(sel, pt) == 'true' for n, _, _ in ds)
            sec.add(sx.line('cascade', g.page_type_wire(pt), g.s(pseudo), wire), out,
                    meta={'fn': 'cascade', 'args': [pt, pseudo, [[o, sel, list(sp), ps, [list(d) for d in ds]]
                                                                 for o, sel, sp, ps, ds in rules]]},
                    nontrivial=any(c > 1 for c in matching.values()))

    # ------------------------------------------------------------------------------------------------
    def judge(self, d):
        meta = d.get('meta') or {}
        fn, args, impl = meta.get('fn'), meta.get('args'), d['impl']
        if impl.startswith('err:') and d['model'] and not d['model'].startswith('err:') and fn not in ('update',):
            return f'{fn}: implementation raised {impl} on {args}'
        try:
            if fn == 'pwh':
                inner, ma, mb, spacing, cb, vertical = args
                return clause_page_box(inner, ma, mb, sum(spacing), cb, impl)
            if fn == 'pdim':
                inner, ma, mb, spacing, cb, mn, mx, vertical = args
                w, a, b = [num(x) for x in impl.split()]
                if mx != 'inf' and mn <= mx and not (mn <= w <= mx):
                    return f'page size {w} outside [min {mn}, max {mx}]'
                if mx == 'inf' and w < mn:
                    return f'page size {w} below min {mn}'
                return clause_page_box(inner if w == inner else w, ma, mb, sum(spacing), cb, impl)
            if fn == 'fixed':
                inner, ma, mb, spacing, outer, vertical, top_or_left = args
                return clause_fixed(inner, ma, mb, sum(spacing), outer, impl, top_or_left)
            if fn == 'variable':
                specs, vertical, avail, b_generated = args
                if not b_generated and specs[1][0] != 0:
                    return None                 # the caller broke the function's own precondition
                if vertical:                    # VerticalBox: content sizes are the constants 0 and 1e6
                    specs = [(sp[0], sp[1], sp[2], sp[3], 0, 10 ** 6) for sp in specs]
                res = impl_variable(specs, vertical, avail, b_generated) if not impl.startswith('err:') else impl
                return clause_variable(specs, avail, b_generated, res) or clause_variable_symmetric(
                    specs, vertical, avail, b_generated, res)
            if fn == 'initside':
                brk, ltr = args
                want = {'right': True, 'left': False, 'recto': ltr, 'verso': not ltr}.get(brk, ltr)
                return None if impl == str(want).lower() else f'first page side: break-before {brk}, ltr={ltr}: right_page={impl}'
            if fn == 'remake':
                return c14_docs.judge_remake(args, impl)
            if fn == 'pagestates':
                return c14_docs.judge_pagestates(args[0], impl)
            if fn == 'getstring':
                return c14_docs.judge_getstring(args, impl)
            if fn == 'match':
                return c14_docs.judge_match(args, impl)
            if fn == 'parsesel':
                return c14_docs.judge_parsesel(args[0], impl)
            if fn == 'cascade':
                return c14_docs.judge_cascade(args, impl)
            if fn == 'includes':
                return c14_docs.judge_includes(args, impl)
            if fn == 'groups':
                return c14_docs.judge_groups(args, impl)
            if fn in ('doc', 'pdf'):
                return c14_docs.judge_doc(meta, d)
            if fn == 'reg-pagerule':
                return c14_regress.judge(meta, impl)
            if fn in ('respct', 'pagepct'):
                return c14_percent.judge(meta, impl)
            if fn in ('sizev', 'sizec', 'marksv', 'bleedv', 'bleedc', 'sheet', 'sheetbox'):
                return c14_sheet.judge(meta, impl)
            if fn in ('marks', 'docmarks'):
                return c14_marks.judge(meta, impl)
        except Exception as exc:  # a clause that cannot be evaluated is not a verdict
            return None
        return None

    def search(self, run, failures):
        return c14_docs.search(self, run, failures)

    def finding_replays(self):
        return c14_docs.finding_replays()

    def replay(self, data):
        inp = data.get('input', {})
        meta = inp.get('meta') or inp
        if meta.get('fn') == 'reg-pagerule':
            return c14_regress.replay(meta)
        if meta.get('fn') in ('respct', 'pagepct'):
            return c14_percent.replay(meta)
        if meta.get('fn') in ('sizev', 'sizec', 'marksv', 'bleedv', 'bleedc', 'sheet', 'sheetbox'):
            return c14_sheet.replay(meta)
        if meta.get('fn') in ('marks', 'docmarks'):
            return c14_marks.replay(meta)
        if 'html' in meta or meta.get('fn') in ('doc', 'pdf'):
            return c14_docs.replay_doc(meta)
        fn, args = meta.get('fn'), meta.get('args')
        if not fn:
            return None
        args = c14_docs.revive(args)
        if fn == 'includes':
            args = c14_docs.int_keys(args)
        elif fn == 'groups':
            args = [[[n, i, c14_docs.int_keys(r)] for n, i, r in args[0]], c14_docs.int_keys(args[1])] + list(args[2:])
        impls = {'pwh': impl_pwh, 'pdim': impl_pdim, 'fixed': impl_fixed, 'initside': impl_initside,
                 'remake': impl_remake, 'standardize': impl_standardize, 'update': impl_update,
                 'pagestates': impl_pagestates, 'getstring': impl_getstring, 'match': impl_match,
                 'cascade': impl_cascade, 'prec': impl_prec, 'includes': impl_includes, 'groups': impl_groups}
        if fn == 'variable':
            specs, vertical, avail, b_generated = args
            res = docs.outcome(lambda: impl_variable(specs, vertical, avail, b_generated))
            impl = res if isinstance(res, str) else ' '.join('(' + show3(*r) + ')' for r in res)
        elif fn == 'parsesel':
            impl = impl_parsesel(args[0])[1]
        elif fn in impls:
            if fn == 'pdim' and args[6] == 'inf':
                args = args[:6] + [math.inf] + args[7:]
            impl = docs.outcome(lambda: impls[fn](*args))
        else:
            return None
        return self.judge({'meta': {'fn': fn, 'args': args}, 'impl': impl, 'model': '',
                           'section': '', 'line': ''})


PROP = C14()

MANIFEST = {
    'design_ref': 'DESIGN.md §4 C14',
    'technique': 'Lean 4 theorems over hand-written models of the page-box / margin-box algorithms, page sides, page '
                 'counters, named strings, page selectors and PDF page boxes; margin-box tables regenerated from page.py '
                 '(AST) each run; executable correspondence with the real functions (Fractions, exact) and with rendered '
                 'documents of 1..40 pages',
    'text': 'Unbounded theorems: the page-box equation and its over-constrained case; compute_fixed_dimension never '
            'fails its assertion and fills its area exactly; compute_variable_dimension resolves every size inside '
            '[min-content, max-content] and never fails; margin boxes occupy exactly their strip in the fixed dimension '
            'and A / B / C are start-aligned / centred / end-aligned in the variable one; pages alternate sides, a '
            'requested side costs at most one blank page; counter(page) = i+1 by induction over the page states, '
            'counter(pages) = page count on every page; string()/element() lookup refines the css-gcpm spec over the whole '
            'page history; three margin boxes sharing a side never overlap when they fit at min-content; page groups '
            '(_update_page_groups) on single-path resume_at never raise and are a prefix test; MediaBox / TrimBox / BleedBox '
            'arithmetic with zoom (zoom is a uniform scale of all three boxes); parse_page_selectors lets through only '
            'exceptions it does not catch; percentages of the page box refer to the sheet height for top/bottom and the '
            'models of the page box / margin boxes are exactly resolve_percentages followed by the page algorithms '
            '(refinement); the page box is scale-invariant (make_page_box_scale); box-sizing; size: one/two lengths, names, landscape = swap of portrait in either keyword '
            'order, every ISO/JIS row of the regenerated PAGE_SIZES is the next larger sheet cut in half; marks valid iff '
            'none|crop|cross|crop cross; bleed:auto = 8px iff marks has crop; every crop mark lies on the extension of a page-box '
            'edge outside the page box inside the bleed area, cross-mark circles inside their bleed strip; render_sound: every page of the document '
            'model (the function compared with rendered documents) is makePageBox of a cascaded style + makeMarginBoxes on '
            'its geometry, counter(pages) = number of pages, page sequence = docPages (function-level theorems transported); '
            'make_margin_boxes_exact / render_margin_boxes_exact: the margin boxes yielded (of every page of a rendered document) are '
            'exactly those with content in the cascade, once each, in the order of the code; '
            'render_margin_boxes_have_content: every margin box of every page of a rendered document has, in the cascade of '
            'the @page rules selecting that page for that box, a content other than normal/none; '
            'render_page_counter: counter(page) = i+1 on every page of a rendered document whose @page rules touch no counter '
            '(through the cascade: cascade_not_declared).',
    'note': 'Trusted: Lean kernel, the AST translator of the margin-box tables, the harness (mock boxes, stubbed content '
            'widths in direct calls; real content widths with the fixed-pitch font in documents). Margin-box content '
            'layout (line breaking inside margin boxes, its final assertion) and the re-make passes of '
            'make_all_pages are not modelled: documents are generated in two families (page groups in one pass / page '
            'counters in content with re-makes, where PageType.groups is not compared). Known findings: MediaBox mirrored '
            'for bleed-top != bleed-bottom; margin boxes overlapping at min-content (deliberate); '
            'three page-group defects (lost on re-make, blank page counted, not started on the first page); element() '
            'from a named page crashes the margin box; element(start) ignores running elements. Repaired findings are replayed first in every run '
            '(corpus/C14/fixed_regressions.json).',
}
