"""C01 — pagination conserves content."""
from harness import docs, pm, pm_col_corr, pm_corr, pm_foot_corr, pm_oof_corr, pm_stage2, wide_trace
from vlib.framework import PropCheck


class C01(PropCheck):
    id = 'C01'
    extractors = ()
    modules = ('WpModel.Props.C01', 'WpModel.Props.C01Trace', 'WpModel.Props.C01Pm2', 'WpModel.Witness.C01Pm2',
               'WpModel.Props.C01Oof', 'WpModel.Witness.C01Oof', 'WpModel.Props.C01Foot', 'WpModel.Witness.C01Foot',
               'WpModel.Props.C01Col', 'WpModel.Witness.C01Col')
    trusted_base = (
        'modelled, not verified: block.py block_level_layout/block_container_layout/_in_flow_layout/_linebox_layout/'
        '_break_line/find_earlier_page_break, page.py make_page/remake_page/make_all_pages as lean/WpModel/Model/'
        'Paginate.lean (blocks + paragraphs of lines; no floats, tables, columns, flex, grid, footnotes)',
        'line breaking inside a line box (Pango) is replaced by n opaque lines of equal height',
    )
    assumptions = (
        'lengths are dyadic rationals so that the float layout is exact (checked: outputs compared exactly)',
    )

    def correspondence(self, run):
        sec0 = run.section(
            'fixed-regressions',
            'corpus first: the documents of the repaired findings (known_findings.txt `fixed:` lines of C01 with a '
            'corpus document) rendered again and checked by the Lean conservation checker - they must pass now; '
            'non-trivial = at least 2 pages')
        for name, line, meta in fixed_regression_cases():
            sec0.add(line, 'ok', meta=meta, nontrivial=len(meta['pages']) >= 2, tags=[name])
        sec = run.section(
            'pm-documents',
            'random block/paragraph documents (depth <= 4, margins/paddings/borders/fixed heights/break-*/orphans/'
            'widows/named pages/box-decoration-break), whole pagination compared exactly (page types, resume_at, '
            'next_page, every fragment and line with its geometry); non-trivial = at least 2 pages')
        pm_corr.add_cases(run, sec, run.n(250, 6000))
        sec_oof = run.section(
            'pm-oof-documents',
            'stage 2a of the pagination model (Model/PaginateOof): block/paragraph documents with absolutely '
            'positioned boxes, full-width floats and clear as block-level children; whole pagination compared exactly, '
            'including the out-of-flow boxes cut by the page bottom and continued on the next page; non-trivial = at '
            'least 2 pages')
        pm_oof_corr.add_cases(run, sec_oof, run.n(120, 4000))
        sec_foot = run.section(
            'pm-foot-documents',
            'stage 2b of the pagination model (Model/PaginateFoot): paragraphs whose lines call footnotes (any number per '
            'line, every footnote-policy, footnote area with margins/max-height, named pages); whole pagination '
            'compared exactly including the footnote area of every page and the footnotes left pending; non-trivial '
            '= at least 2 pages and at least one footnote')
        pm_foot_corr.add_cases(run, sec_foot, run.n(100, 3000))
        sec_col = run.section(
            'pm-col-documents',
            'stage 2c of the pagination model (Model/PaginateCol): multi-column containers (column-count 1-4, '
            'column-fill balance/auto, container heights, column-span:all children, rtl) holding paragraphs and '
            'blocks, inside the block flow; whole pagination compared exactly including the x position of every '
            'column box and the balancing result; non-trivial = at least 2 pages and a container')
        pm_col_corr.add_cases(run, sec_col, run.n(100, 3000))
        sec2 = run.section(
            'wide-traces',
            'documents of the wide grammar (nested blocks, inline markup, lists, tables with head/foot, multi-column, '
            'flex, grid, floats, positioned boxes, footnotes, breaks, orphans/widows, pages down to one line) with '
            'globally unique words: the per-page word sequence of the real render is checked by the verified Lean '
            'checker (each rendered word once, per-container order, cross-container order of sequential flows, '
            'display:none absent, fragments on consecutive pages); the implementation side of the comparison is the '
            'constant claim "ok"; non-trivial = at least 2 pages')
        docs.quiet()
        for _ in range(run.n(120, 4000)):
            line, meta, tags = wide_trace.conserve_case(run.rng)
            if line is None:
                sec2.tags['render-error (C02)'] += 1
                continue
            sec2.add(line, 'ok', meta=meta, nontrivial=len(meta['pages']) >= 2, tags=tags)

        sec3 = run.section(
            'families',
            'deterministic families (harness/families.py): footnotes in multi-column containers, floats with '
            'definite heights at page bottoms, floats spanning three pages, footnotes with every policy and a max-height area, forced and avoided breaks between table rows, padded containers around columns and tables, table rows with colspan/rowspan split across pages, footer-only '
            'tables, column spans - every document checked by the Lean conservation checker; documents already '
            'failing on the pinned tree are listed by id in corpus/C01/family_known.json; non-trivial = >= 2 pages')
        self._family_known, cases = wide_trace.family_cases('C01')
        for kind, line, meta in cases:
            if kind == 'conserve':
                sec3.add(line, 'ok', meta=meta, nontrivial=len(meta['pages']) >= 2, tags=[meta['doc_id'].split('-')[0]])
            elif kind == 'error':
                sec3.tags[f'render-error {meta["error"]} (left to C02)'] += 1

    def classify(self, d):
        if d['section'] == 'pm-foot-documents':
            return pm_foot_corr.classify(pm_foot_corr.doc_from_json(d['meta']['doc']), d['impl'])
        if d['section'] == 'fixed-regressions':
            # a regression document is excused only by the one residual finding recorded for this very document
            found = wide_trace.explain(d['meta'], d['model'])
            return found if found is not None and found == RESIDUAL.get(d['meta']['doc_id']) else None
        if d['section'] == 'wide-traces':
            return wide_trace.explain(d['meta'], d['model'])
        if d['section'] == 'families' and d['meta']['doc_id'] in self._family_known.get('conserve', ()):
            return 'family-documents-known'
        return None

    def judge(self, d):
        if d['section'] in pm_stage2.SECTIONS:
            doc = pm_stage2.corr(d['section']).doc_from_json(d['meta']['doc'])
            return pm_stage2.conservation(d['section'], doc, d['impl'], d['model'])
        if d['section'] == 'families':
            return f"{d['meta']['doc_id']}: " + (wide_trace.conserve_violation(d['meta'], d['model']) or d['model'])
        if d['section'] in ('wide-traces', 'fixed-regressions'):
            return wide_trace.conserve_violation(d['meta'], d['model'])
        doc = pm_corr.doc_from_json(d['meta']['doc'])
        return pm_corr.conservation_violation(doc, d['impl'])

    def search(self, run, failures):
        import random
        found = []
        rng = random.Random(run.seed + 77)
        for _ in range(run.n(300, 3000)):
            doc = pm.gen_doc(rng)
            run.search_stats['evaluations'] += 1
            out = pm_corr.real_line(doc)
            what = pm_corr.conservation_violation(doc, out)
            if what and out != pm_corr.model_line(self, doc):   # only inputs on which the code left the model
                small = pm.shrink(doc, lambda c: bool(pm_corr.conservation_violation(c, pm_corr.real_line(c))), 150)
                found.append({'what': what, 'input': {'doc': pm_corr.doc_json(small), 'html': pm.doc_html(small)},
                              'signature': 'pm-conservation'})
                break
        if found:
            return found
        # the stage-2 grammars (out-of-flow children, footnotes, columns): documents on which the code left the model
        from vlib import lean
        sections = sorted({f['name'] for f in failures if f['name'] in pm_stage2.SECTIONS}) or [
            'pm-oof-documents', 'pm-foot-documents', 'pm-col-documents']
        for section in sections:
            module = pm_stage2.corr(section)
            gen = {pm_oof_corr: lambda r: pm_oof_corr.pm_oof.gen_doc(r), pm_foot_corr: pm_foot_corr.pm_foot.gen_doc,
                   pm_col_corr: lambda r: pm_col_corr.pm_col.gen_doc(r)}[module]
            line_of = {pm_oof_corr: pm_oof_corr.pm_oof.doc_line, pm_foot_corr: pm_foot_corr.pm_foot.doc_line,
                       pm_col_corr: pm_col_corr.pm_col.doc_line}[module]
            batch = [gen(rng) for _ in range(run.n(250, 2500))]
            real = [module.real_line(doc) for doc in batch]
            model = lean.run_driver(self.driver, [line_of(doc) for doc in batch])
            run.search_stats['evaluations'] += len(batch)
            for doc, out, ref in zip(batch, real, model):
                if out == ref or out.startswith('err:'):
                    continue
                what = pm_stage2.conservation(section, doc, out, ref)
                if what:
                    found.append({'what': what, 'signature': section,
                                  'input': {'section': section, 'meta': {'doc': module.doc_json(doc)},
                                            'line': line_of(doc)}})
                    break
            if found:
                break
        return found

    def finding_replays(self):
        return {**pm_stage2.finding_replays(),
                'fixed-height-forgets-overflow': fixed_height_drops,
                'out-of-flow-lost-at-document-end': float_lost_at_end,
                'flex-grid-fragmentation-loses-content': grid_item_lost,
                'footnote-in-columns-lost-or-duplicated': lambda: corpus_fails('footnote_in_columns'),
                'float-in-columns-fragment-duplicated': lambda: corpus_fails('float_in_columns_duplicated'),
                'table-cell-skips-a-page': lambda: corpus_scattered('table_cell_restarts'),
                'stale-next-page-scatters-fragments': stale_next_page}

    def replay(self, data):
        inp = data.get('input', {})
        meta = inp.get('meta') or inp
        if 'doc' in meta:
            module, doc, line = pm_stage2.doc_and_real(inp)
            if line.startswith('err:'):
                return None                     # an exception of the implementation is C02's business
            return pm_stage2.conservation(inp.get('section'), doc, line)
        if 'html' in meta and 'groups' in meta:
            from harness import widegen
            pages = widegen.page_words(docs.render(meta['html']))
            return wide_trace.conserve_violation({'groups': meta['groups'], 'pages': pages}, 'bad')
        return None


def stale_next_page():
    from props import c03
    return c03.stale_next_page()[1]


def fixed_height_drops():
    """F11: a block of fixed height whose content crosses the page bottom forgets the overflowing lines."""
    docs.quiet()
    html = ('<style>@page{size:100px 100px;margin:0}body{margin:0;font-size:20px;line-height:20px}</style>'
            '<div style="height:50px">a<br>b<br>c<br>d<br>e<br>f<br>g<br>h</div><p>tail</p>')
    texts = [t.strip() for page in docs.page_texts(docs.render(html)) for t in page if t.strip()]
    return not all(w in texts for w in 'abcdefgh')


def _words_lost(html, count):
    import re
    docs.quiet()
    texts = ' '.join(t for page in docs.page_texts(docs.render(html)) for t in page)
    seen = {int(m) for m in re.findall(r'w(\d+)', texts)}
    return any(i not in seen for i in range(1, count + 1))


def corpus_fails(name):
    import json
    from harness import widegen
    from vlib.paths import CORPUS
    data = json.loads((CORPUS / 'C01' / f'{name}.json').read_text())
    docs.quiet()
    pages = widegen.page_words(docs.render(data['html']))
    return bool(wide_trace.conserve_violation({'groups': data['groups'], 'pages': pages}, 'ok'))


# repaired findings: (fixed: id, corpus document) - run first in every check; a `fixed:` line suppresses nothing
FIXED_REGRESSIONS = [('float-fragment-duplicated', 'float_fragment_duplicated'),
                     ('column-span-loses-following-content', 'column_span_loses'),
                     ('table-cell-restarts-after-empty-fragment', 'table_cell_restarts'),
                     ('table-in-columns-duplicates-rows', 'table_in_columns_duplicates_rows')]


# what is left, as a listed finding, of a repaired finding on its own regression document
RESIDUAL = {'table-cell-restarts-after-empty-fragment': 'table-cell-skips-a-page'}


def fixed_regression_cases():
    import json
    from harness import widegen
    from vlib import sx
    from vlib.paths import CORPUS
    docs.quiet()
    for name, stem in FIXED_REGRESSIONS:
        data = json.loads((CORPUS / 'C01' / f'{stem}.json').read_text())
        try:
            with docs.time_limit(20):
                pages = widegen.page_words(docs.render(data['html']))
        except Exception:  # noqa: BLE001 - an exception is C02's business
            continue
        line = sx.line('conserve', [[wide_trace.KIND[g['kind']], g['words']] for g in data['groups']], pages)
        yield name, line, {'html': data['html'], 'groups': data['groups'], 'pages': pages, 'doc_id': name}


def corpus_scattered(name):
    import json
    from harness import widegen
    from vlib.paths import CORPUS
    data = json.loads((CORPUS / 'C01' / f'{name}.json').read_text())
    docs.quiet()
    pages = widegen.page_words(docs.render(data['html']))
    return bool(wide_trace.scattered_groups(data['groups'], pages))


def float_lost_at_end():
    return _words_lost(
        '<style>@page{size:240px 13px;margin:2px}html,body{margin:0}body{font-size:6px;line-height:6px}p{margin:0}'
        '</style><div style="float:right;width:50px"><p style="border:2px solid">w1 w2 w3 w4 w5 w6 w7 w8</p></div>'
        '<p style="padding:1px">w9 w10 w11 w12 w13</p>', 13)


def column_span_loses():
    return _words_lost(
        '<style>@page{size:100px 100px;margin:0}html,body{margin:0}body{font-size:10px;line-height:10px}p{margin:0}'
        '</style><p>w1</p><div style="columns:3;column-gap:4px"><p style="padding:4px">w2 w3 w4 w5 w6 w7 w8 w9 w10 '
        'w11 w12 w13 w14</p><p style="column-span:all;break-before:left">w15</p><p>w16 w17 w18</p></div>', 18)


def grid_item_lost():
    return _words_lost(
        '<style>@page{size:160px 9px;margin:2px}html,body{margin:0}body{font-size:4px;line-height:4px}p{margin:0}'
        '</style><div style="display:grid;grid-template-columns:1fr 1fr"><div><p style="padding:2px">w1</p></div>'
        '<div><p>w2</p></div></div>', 2)


PROP = C01()

MANIFEST = {
    'design_ref': 'DESIGN.md §4.0, §4 C01',
    'technique': 'Lean 4 pagination model mirrored from block.py/page.py with unbounded conservation theorems (segment, pages_conserve); exact document-level correspondence; verified trace checker on the wide grammar',
    'text': 'Proved for ALL documents of the block/paragraph grammar (any nesting, geometry, break values, orphans/widows >= 1, named pages, box-decoration-break; no fixed heights): the fragment returned by the layout of a box plus what its resume position designates is exactly what was left of the box (C01.segment, by mutual induction over the whole layout incl. find_earlier_page_break), hence the concatenation of the lines of all pages is the list of all lines of the document, in order, each once (C01.pages_conserve). The model is compared exactly with the real layout on generated documents. Beyond that grammar (inline markup, lists, tables, columns, flex, grid, floats, positioned boxes, footnotes) traces of real renders are checked by a Lean checker with a soundness theorem (exactly once, per-container order, display:none absent, consecutive pages).',
    'note': 'Trusted: Lean kernel, the hand transcription Model/Paginate.lean (tied to block.py/page.py only by the sampled exact correspondence), Pango replaced by opaque lines. The wide-grammar part is sampled trace validation, not a theorem about the implementation. Known findings (printed, not alarms): fixed-height blocks forget overflowing children; out-of-flow box cut at the last page is lost; flex/grid fragmentation loses content; float / footnote / table-in-columns duplications.',
}
