"""C01 — pagination conserves content."""
from harness import docs, pm, pm_corr
from vlib.framework import PropCheck


class C01(PropCheck):
    id = 'C01'
    extractors = ()
    modules = ('WpModel.Props.C01',)
    trusted_base = (
        'modelled, not verified: block.py block_level_layout/block_container_layout/_in_flow_layout/_linebox_layout/'
        '_break_line/find_earlier_page_break, page.py make_page/remake_page/make_all_pages as lean/WpModel/Model/'
        'Paginate.lean (blocks + paragraphs of lines; no floats, tables, columns, flex, grid, footnotes)',
        'line breaking inside a line box (Pango) is replaced by n opaque lines of equal height',
    )
    assumptions = (
        'lengths are dyadic rationals so that the float layout is exact (checked: outputs compared exactly)',
    )

    def correspondence(self, run):
        sec = run.section(
            'pm-documents',
            'random block/paragraph documents (depth <= 4, margins/paddings/borders/fixed heights/break-*/orphans/'
            'widows/named pages/box-decoration-break), whole pagination compared exactly (page types, resume_at, '
            'next_page, every fragment and line with its geometry); non-trivial = at least 2 pages')
        pm_corr.add_cases(run, sec, run.n(250, 6000))

    def judge(self, d):
        doc = pm_corr.doc_from_json(d['meta']['doc'])
        return pm_corr.conservation_violation(doc, d['impl'])

    def search(self, run, failures):
        import random
        found = []
        rng = random.Random(run.seed + 77)
        for _ in range(run.n(300, 3000)):
            doc = pm.gen_doc(rng)
            run.search_stats['evaluations'] += 1
            out = pm_corr.real_line(doc)
            what = pm_corr.conservation_violation(doc, out)
            if what:
                small = pm.shrink(doc, lambda c: bool(pm_corr.conservation_violation(c, pm_corr.real_line(c))), 150)
                found.append({'what': what, 'input': {'doc': pm_corr.doc_json(small), 'html': pm.doc_html(small)},
                              'signature': 'pm-conservation'})
                break
        return found

    def finding_replays(self):
        return {'fixed-height-forgets-overflow': fixed_height_drops}

    def replay(self, data):
        inp = data.get('input', {})
        meta = inp.get('meta') or inp
        if 'doc' in meta:
            doc = pm_corr.doc_from_json(meta['doc'])
            return pm_corr.conservation_violation(doc, pm_corr.real_line(doc))
        return None


def fixed_height_drops():
    """F11: a block of fixed height whose content crosses the page bottom forgets the overflowing lines."""
    docs.quiet()
    html = ('<style>@page{size:100px 100px;margin:0}body{margin:0;font-size:20px;line-height:20px}</style>'
            '<div style="height:50px">a<br>b<br>c<br>d<br>e<br>f<br>g<br>h</div><p>tail</p>')
    texts = [t.strip() for page in docs.page_texts(docs.render(html)) for t in page if t.strip()]
    return not all(w in texts for w in 'abcdefgh')


PROP = C01()

MANIFEST = {
    'design_ref': 'DESIGN.md §4.0, §4 C01',
    'technique': 'Lean 4 pagination model (PM) mirrored from block.py/page.py, exact document-level correspondence with '
                 'the real layout; theorems on the paragraph segment (lines contiguous from the resume position)',
    'text': 'Proved for all paragraphs, geometries, orphans/widows: a paragraph fragment holds exactly the consecutive '
            'lines from its resume position and hands over the next line (nothing lost, duplicated, reordered by line '
            'breaking across pages). The whole pagination (blocks + paragraphs) is an executable Lean model compared '
            'exactly with the real layout on generated documents; block-level conservation is carried by that '
            'correspondence (theorem in progress).',
    'note': 'Partial: beyond the block/paragraph grammar (floats, tables, columns, flex, grid, footnotes) nothing is '
            'claimed yet. Known finding: fixed-height blocks forget overflowing children (F11).',
}
