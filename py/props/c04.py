"""C04 — break controls are honoured."""
import itertools
import json

from extract import break_computed, break_table, table_wrapper_props
from harness import c04_names, c04_tables, docs, pm, pm_corr
from vlib import sx
from vlib.framework import PropCheck
from vlib.paths import CORPUS

VALUES = break_table.VALUES
FORCE_PAGE = {'page', 'left', 'right', 'recto', 'verso'}
AVOID_PAGE = {'avoid', 'avoid-page'}
SIDES = {'left', 'right', 'recto', 'verso'}


def boxes_mod():
    from weasyprint.formatting_structure import boxes
    return boxes


# kinds: (class name, block-parallel by the css-break definition, may have children)
KINDS = [
    ('BlockBox', True, True), ('TableRowGroupBox', True, True), ('TableRowBox', True, True),
    ('FlexBox', True, True), ('GridBox', True, True), ('TableBox', True, True),
    ('BlockReplacedBox', True, False),
    ('LineBox', False, True), ('InlineBox', False, True), ('TableCellBox', False, True),
    ('InlineBlockBox', False, True),
]


def make_real(tree):
    """tree = (kind index, before, after, kids) -> a real box of that class."""
    boxes = boxes_mod()
    kind, before, after, kids = tree
    name, _, parent = KINDS[kind]
    cls = getattr(boxes, name)
    style = {'break_before': before, 'break_after': after}
    if name == 'BlockReplacedBox':
        return cls('img', style, None, None)
    if name == 'LineBox':
        box = cls('div', style, None, [make_real(k) for k in kids])
        return box
    return cls('div', style, None, [make_real(k) for k in kids])


def wire(tree):
    kind, before, after, kids = tree
    return [KINDS[kind][1], before, after, [wire(k) for k in kids]]


def random_tree(rng, depth):
    kind = rng.choice([0, 0, 0, 0, 1, 2, 3, 5, 6, 7, 8, 9, 10]) if depth else rng.choice([0, 0, 1, 2, 6, 7, 8])
    kids = []
    if KINDS[kind][2] and depth:
        kids = [random_tree(rng, depth - 1) for _ in range(rng.choice([0, 1, 1, 2, 3]))]
    return (kind, rng.choice(VALUES), rng.choice(VALUES), kids)


def chain_trees(values, k):
    """Two sibling trees whose meeting chains carry `values` (k of them on the before side)."""
    after_vals = values[:k][::-1]      # outermost first on the before side
    before_vals = values[k:]
    def nest(vals, attr):
        tree = None
        for v in reversed(vals):
            before, after = ('auto', v) if attr == 'after' else (v, 'auto')
            tree = (0, before, after, [tree] if tree else [])
        return tree
    a = nest(after_vals, 'after') or (7, 'page', 'page', [])     # a LineBox contributes nothing
    b = nest(before_vals, 'before') or (7, 'page', 'page', [])
    return a, b


def reference_violation(values, result, in_column=False):
    """The clauses of C04 on the resolution function, stated directly (used only to judge a
    disagreement, never as the check itself)."""
    force = FORCE_PAGE | ({'column'} if in_column else set())
    avoid = AVOID_PAGE | ({'avoid-column'} if in_column else set())
    if any(v in force for v in values) and result not in force:
        return f'a forced break among {values} is lost: result {result!r}'
    sides = [v for v in values if v in SIDES]
    if sides and result != sides[-1]:
        return f'last side value of {values} is {sides[-1]!r} but result is {result!r}'
    if (not any(v in force for v in values) and any(v in avoid for v in values)
            and 'column' not in values and result not in avoid):
        return f'an avoided break among {values} is lost: result {result!r}'
    if all(v == 'auto' for v in values) and result != 'auto':
        return f'result {result!r} out of auto values'
    return None


def chain_values(tree, side):
    kind, before, after, kids = tree
    if not KINDS[kind][1]:
        return []
    if side == 'after':
        return [after] + (chain_values(kids[-1], side) if kids else [])
    return [before] + (chain_values(kids[0], side) if kids else [])


def doc_for_values(values, k, height=40):
    """A document in which `values` meet between two blocks after one line of content."""
    def nest(vals, prop, text):
        html = text
        for v in reversed(vals):
            html = f'<div style="{prop}:{v}">{html}</div>'
        return html
    a = nest(values[:k][::-1], 'break-after', 'aa')
    b = nest(values[k:], 'break-before', 'bb<br>cc')
    return (f'<style>@page{{size:100px {height}px;margin:0}}body{{font-size:20px;line-height:20px;margin:0}}</style>'
            f'<div>xx</div>{a}{b}')


def doc_violation(values, k):
    """Oracle on the rendered document (search only)."""
    forced = any(v in FORCE_PAGE for v in values)
    # room for everything when a break must be forced; two lines per page when one must be avoided
    pages = docs.page_texts(docs.render(doc_for_values(values, k, 200 if forced else 40)))
    where = {}
    for i, texts in enumerate(pages):
        for t in texts:
            where.setdefault(t.strip(), i)
    if not {'aa', 'bb', 'cc', 'xx'} <= set(where):
        return f'content lost: pages={pages}'
    if forced and where['aa'] == where['bb']:
        return f'forced break not honoured: pages={pages}'
    sides = [v for v in values if v in SIDES]
    if sides:
        want_right = sides[-1] in ('right', 'recto')
        if (where['bb'] % 2 == 0) != want_right:
            return f'page side {sides[-1]} not honoured: pages={pages}'
    if (not any(v in FORCE_PAGE for v in values) and any(v in AVOID_PAGE for v in values)
            and 'column' not in values and where['aa'] != where['bb']):
        return f'avoided break taken although an earlier break point exists: pages={pages}'
    return None


class C04(PropCheck):
    id = 'C04'
    extractors = (break_table.generate, break_computed.generate, table_wrapper_props.generate)
    modules = ('WpModel.Props.C04', 'WpModel.Props.C04Trace', 'WpModel.Witness.C04', 'WpModel.Props.C04Pm2',
               'WpModel.Witness.C04Pm2', 'WpModel.Props.C04Computed', 'WpModel.Props.C04Table',
               'WpModel.Props.C04TableGen', 'WpModel.Props.C04TableNames')
    trusted_base = (
        'modelled, not verified: block_level_page_break / avoid_page_break / force_page_break as table + fold '
        '(tables regenerated from block.py by AST and by calling the real functions)',
        'declaration -> computed break value: complete graph regenerated each run by calling the real '
        'preprocess_declarations and computer functions (Gen/BreakComputed), not a hand model',
    )
    assumptions = (
        'block-parallel box kinds are (BlockLevelBox, TableRowGroupBox, TableRowBox) (css-break-3 possible breaks)',
    )

    def correspondence(self, run):
        from weasyprint.layout import block
        sec = run.section(
            'break-sequences',
            'every break-value sequence up to length L on real box chains, every split between the before and '
            'after side; non-trivial = contains a non-auto value')
        max_len = run.n(4, 5)
        for n in range(1, max_len + 1):
            for values in itertools.product(VALUES, repeat=n):
                ks = range(n + 1) if n <= 3 else (run.rng.randrange(n + 1),)
                for k in ks:
                    a, b = chain_trees(list(values), k)
                    out = docs.outcome(lambda: block.block_level_page_break(make_real(a), make_real(b)))
                    sec.add(sx.line('between', wire(a), wire(b)), out,
                            meta={'values': list(values), 'k': k}, nontrivial=any(v != 'auto' for v in values),
                            tags=[f'len{n}'])
        run.extra['exhaustive'] = True
        run.extra['exhaustive_what'] = f'all break-value sequences of length <= {max_len} (10^n each)'
        sec2 = run.section(
            'break-trees', 'random pairs of sibling trees over 11 box classes, depth <= 4; non-trivial = at '
            'least two values meet')
        for _ in range(run.n(3000, 60000)):
            a, b = random_tree(run.rng, 3), random_tree(run.rng, 3)
            out = docs.outcome(lambda: block.block_level_page_break(make_real(a), make_real(b)))
            vals = chain_values(a, 'after')[::-1] + chain_values(b, 'before')
            sec2.add(sx.line('between', wire(a), wire(b)), out, meta={'values': vals, 'k': None, 'trees': [a, b]},
                     nontrivial=len(vals) >= 2, tags=[f'meet{min(len(vals), 6)}'])

        sec4 = run.section(
            'pm-documents',
            'random block/paragraph documents with break-before/-after/-inside on about half the boxes, named pages, '
            'orphans/widows 1..4: page types (side, blank, name), resume_at, next_page and every fragment compared '
            'exactly with the pagination model; non-trivial = at least 2 pages')
        pm_corr.add_cases(run, sec4, run.n(200, 5000), gen=break_heavy_doc)

        sec5 = run.section(
            'break-families',
            'deterministic documents (harness/families.py break_documents): every pair of break values on adjacent '
            'table rows, on a row group and the first row of the next group, and on nested blocks; the pages of the '
            'last/first fragments and the side of the following page are checked by the Lean adjacency checker '
            '(C04Trace.obs_sound) which resolves the meeting values with the proved resolution function; '
            'non-trivial = a forcing or avoiding value is present')
        for line, meta, nontrivial in break_family_cases():
            sec5.add(line, 'ok', meta=meta, nontrivial=nontrivial, tags=[meta['doc_id'].split('-')[1]])

        sec6 = run.section(
            'avoid-families',
            'deterministic documents (harness/families.py avoid_documents): break-before/after: avoid between table '
            'rows and between a heading and a table / list / multi-column container, break-inside: avoid on rows, '
            'cells, list items and blocks holding a table, at every position near the page bottom; observed pages '
            'checked by the Lean checker (C04Trace.avoid_obs_sound / inside_obs_sound): honoured unless the unit is '
            'the first content of its page; documents already failing on the pinned tree are listed by id in '
            'corpus/C04/family_known.json; non-trivial = the document has at least 2 pages')
        known_path = CORPUS / 'C04' / 'family_known.json'
        self._avoid_known = json.loads(known_path.read_text()) if known_path.exists() else []
        for line, meta, nontrivial in avoid_family_cases():
            sec6.add(line, 'ok', meta=meta, nontrivial=nontrivial, tags=[meta['doc_id'].split('-')[1]])

        class Ctx:
            def __init__(self, col):
                self.in_column = col
        sec3 = run.section('avoid-force', 'avoid_page_break / force_page_break on all 10 values x 2 contexts')
        for v in VALUES:
            for col in (True, False):
                sec3.add(sx.line('avoids', col, v), str(bool(block.avoid_page_break(v, Ctx(col)))).lower())
                sec3.add(sx.line('forces', col, v), str(bool(block.force_page_break(v, Ctx(col)))).lower())
        # tables with captions / groups / rows: where the values are read; avoid + out-of-flow boxes: nothing lost
        c04_tables.add_sections(self, run)
        c04_names.add_sections(self, run)

    def classify(self, d):
        if d['section'] == 'avoid-families' and d['meta']['doc_id'] in self._avoid_known:
            return 'avoid-family-documents-known'
        return None

    def judge(self, d):
        if d['section'] in c04_tables.SECTIONS:
            return c04_tables.judge(self, d)
        if d['section'] in c04_names.SECTIONS:
            return c04_names.judge(self, d)
        if d['section'] == 'avoid-families':
            return (f'{d["meta"]["doc_id"]}: avoided break not honoured although the unit is not the first content of '
                    f'its page: {d["model"]}; between={d["meta"]["between"]} inside={d["meta"]["inside"]}')
        if d['section'] == 'break-families':
            return (f'{d["meta"]["doc_id"]}: forced break / page side not honoured for observations {d["model"]}: '
                    f'{d["meta"]["observations"]}')
        if d['section'] == 'pm-documents':
            doc = pm_corr.doc_from_json(d['meta']['doc'])
            return pm_break_violation(doc, d['impl'])
        if d['section'] in ('break-sequences', 'break-trees'):
            values = d['meta']['values']
            if d['impl'].startswith('err:'):
                return f'block_level_page_break raised {d["impl"]} on values {values}'
            return reference_violation(values, d['impl'])
        if d['section'] == 'avoid-force':
            return f'{d["line"]}: implementation says {d["impl"]}, css-break says {d["model"]}'
        return None

    def search(self, run, failures):
        """Documents realising short value sequences, judged by the adjacency oracle."""
        docs.quiet()
        from weasyprint.layout import block
        if any((f['kind'] == 'correspondence' and f['name'] in c04_tables.SECTIONS) or f['kind'] in ('proof', 'extraction')
               for f in failures):
            found = c04_tables.search(self, run, failures)
            if found:
                return found
        found = []
        seqs = [list(p) for n in (1, 2) for p in itertools.product(VALUES, repeat=n)]
        # function level first: the clauses stated directly on the real function, all sequences <= 3
        for n in (1, 2, 3):
            for values in itertools.product(VALUES, repeat=n):
                a, b = chain_trees(list(values), n // 2)
                run.search_stats['evaluations'] += 1
                what = reference_violation(list(values), block.block_level_page_break(make_real(a), make_real(b)))
                if what and len(values) <= 3:
                    seqs.insert(0, list(values))
        for f in failures:
            if f['kind'] == 'correspondence' and isinstance(f['detail'].get('meta'), dict):
                vals = f['detail']['meta'].get('values')
                if vals and len(vals) <= 5:
                    seqs.insert(0, vals)
        # pagination level: documents on which the code left the model and an adjacency / orphans-widows /
        # named-page clause fails
        import random
        rng = random.Random(run.seed + 404)
        for _ in range(run.n(1500, 8000)):
            doc = break_heavy_doc(rng)
            out = pm_corr.real_line(doc)
            run.search_stats['evaluations'] += 1
            what = pm_break_violation(doc, out)
            if what and out != pm_corr.model_line(self, doc):
                small = pm.shrink(doc, lambda c: bool(pm_break_violation(c, pm_corr.real_line(c))), 120)
                found.append({'what': what, 'input': {'meta': {'doc': pm_corr.doc_json(small)},
                                                      'html': pm.doc_html(small)}, 'signature': 'pm-breaks'})
                return found
        seqs.sort(key=len)
        for values in seqs[:400]:
            for k in range(len(values) + 1):
                run.search_stats['evaluations'] += 1
                try:
                    what = doc_violation(values, k)
                except Exception as exc:
                    what = f'render raised {type(exc).__name__}: {exc}'
                if what and not self._is_column_hides_avoid(values):
                    forced = any(v in FORCE_PAGE for v in values)
                    found.append({'what': what, 'input': {'values': values, 'k': k,
                                                          'html': doc_for_values(values, k, 200 if forced else 40)},
                                  'signature': f'{values}/{k}'})
                    if len(found) >= 3:
                        return found
        return found

    @staticmethod
    def _is_column_hides_avoid(values):
        return 'column' in values and any(v in AVOID_PAGE for v in values)

    def finding_replays(self):
        return {'column-hides-avoid': lambda: doc_violation_raw(['column', 'avoid'], 1),
                'named-to-unnamed-no-break': named_to_unnamed}

    def replay(self, data):
        inp = data.get('input', {})
        meta = inp.get('meta') if isinstance(inp.get('meta'), dict) else {}
        doc_id = str(meta.get('doc_id', ''))
        handled, what = c04_tables.replay(self, meta)
        if handled:
            return what
        handled, what = c04_names.replay(self, meta)
        if handled:
            return what
        if doc_id.startswith(('avoid-', 'brk-')):
            from vlib import lean
            cases = avoid_family_cases(doc_id) if doc_id.startswith('avoid-') else break_family_cases(doc_id)
            for line, new_meta, _ in cases:
                out = lean.run_driver(self.driver, [line])[0]
                return None if out == 'ok' else f'{doc_id}: break control not honoured, checker says {out}: {new_meta}'
            return None
        if 'meta' in inp and isinstance(inp['meta'], dict) and 'doc' in inp['meta']:
            doc = pm_corr.doc_from_json(inp['meta']['doc'])
            return pm_break_violation(doc, pm_corr.real_line(doc))
        if 'html' in inp:
            return doc_violation(inp['values'], inp['k'])
        if 'meta' in inp and inp['meta'].get('values'):
            from weasyprint.layout import block
            vals, k = inp['meta']['values'], inp['meta'].get('k')
            if inp['meta'].get('trees'):
                a, b = [tuple_tree(t) for t in inp['meta']['trees']]
            else:
                a, b = chain_trees(vals, k)
            return reference_violation(vals, block.block_level_page_break(make_real(a), make_real(b)))
        return None


def avoid_family_cases(only=None):
    """(protocol line, meta, nontrivial) for every document of families.avoid_documents()."""
    from harness import families, widegen
    docs.quiet()
    for doc_id, html, between, inside in families.avoid_documents():
        if only and doc_id != only:
            continue
        try:
            with docs.time_limit(20):
                document = docs.render(html)
        except Exception:  # noqa: BLE001 - left to C02
            continue
        pages = widegen.page_words(document)
        where = {}
        for index, words in enumerate(pages):
            for word in words:
                where.setdefault(word, []).append(index)
        obs_between, obs_inside = [], []
        for values, words_a, words_b in between:
            pages_a = [p for word in words_a for p in where.get(word, [])]
            pages_b = [p for word in words_b for p in where.get(word, [])]
            if not pages_a or not pages_b:
                continue
            page_a = max(pages_a)
            obs_between.append([values, page_a, min(pages_b), pages[page_a][0] in words_a])
        for value, words in inside:
            on = sorted({p for word in words for p in where.get(word, [])})
            if not on:
                continue
            obs_inside.append([value, len(on), pages[on[0]][0] in words])
        line = sx.line('avoid-obs', obs_between, obs_inside)
        meta = {'doc_id': doc_id, 'html': html, 'between': obs_between, 'inside': obs_inside, 'pages': pages}
        yield line, meta, len(pages) >= 2


def break_family_cases(only=None):
    """(protocol line, meta, nontrivial) for every document of families.break_documents()."""
    from harness import families, widegen
    docs.quiet()
    for doc_id, html, observations in families.break_documents():
        if only and doc_id != only:
            continue
        try:
            with docs.time_limit(20):
                document = docs.render(html)
        except Exception:  # noqa: BLE001 - left to C02
            continue
        pages = widegen.page_words(document)
        where = {}
        for index, words in enumerate(pages):
            for word in words:
                where.setdefault(word, []).append(index)
        obs = []
        for values, words_a, words_b in observations:
            pages_a = [p for word in words_a for p in where.get(word, [])]
            pages_b = [p for word in words_b for p in where.get(word, [])]
            if not pages_a or not pages_b:
                continue
            page_b = min(pages_b)
            obs.append([values, max(pages_a), page_b, page_b % 2 == 0, True])
        if not obs:
            continue
        line = sx.line('breaks', obs)
        meta = {'doc_id': doc_id, 'html': html, 'observations': obs}
        yield line, meta, any(v != 'auto' for o in obs for v in o[0])


def break_heavy_doc(rng):
    doc = pm.gen_doc(rng)

    def walk(box):
        st = box['st']
        if rng.random() < 0.3:
            st['brkBefore'] = rng.choice(VALUES)
        if rng.random() < 0.3:
            st['brkAfter'] = rng.choice(VALUES)
        st['height'] = 'auto'
        if named and rng.random() < 0.35:
            st['page'] = rng.choice(['pa', 'pb'])
        for kid in box['kids']:
            walk(kid)
    named = rng.random() < 0.4       # documents exercising named pages at every depth
    walk(doc['root']['kids'][0])
    return doc


def pm_break_violation(doc, impl_out):
    """Adjacency oracle on the PM output of the implementation: forced breaks between siblings start a new
    page of the requested side; orphans/widows hold when the page had content before the paragraph."""
    from vlib import sx
    if impl_out.startswith('err:'):
        return f'pagination raised {impl_out}'
    pages = sx.loads_line(impl_out)
    first_page, last_page = {}, {}
    for page in pages:
        index = int(page[1])

        def walk(frag):
            ident = int(frag[1])
            first_page.setdefault(ident, index)
            last_page[ident] = index
            if frag[0] == 'b':
                for kid in frag[-1]:
                    walk(kid)
        walk(page[-1])

    def last_chain(box):
        out = [box['st']['brkAfter']]
        if box['kind'] == 'block' and box['kids']:
            out += last_chain(box['kids'][-1])
        return out

    def first_chain(box):
        out = [box['st']['brkBefore']]
        if box['kind'] == 'block' and box['kids']:
            out += first_chain(box['kids'][0])
        return out

    # orphans / widows: a paragraph broken after content was already on the page keeps >= orphans lines and
    # sends >= widows lines on
    para = {}

    def collect(box):
        if box['kind'] == 'para':
            para[box['id']] = box
        for kid in box['kids']:
            collect(kid)
    collect(doc['root'])
    for number, page in enumerate(pages):
        state = {'placed': 0}

        def lines_of(frag):
            if frag[0] == 'p':
                box = para[int(frag[1])]
                numbers = [int(i) for i, _ in frag[-1]]
                first_on_page = state['placed'] == 0
                state['placed'] += len(numbers)
                if numbers and numbers[-1] < box['n'] - 1 and not first_on_page:
                    kept, rest = len(numbers), box['n'] - 1 - numbers[-1]
                    if kept < box['st']['orphans'] or rest < box['st']['widows']:
                        return (f'page {number}: paragraph {frag[1]} broken with {kept} lines kept / {rest} left '
                                f'(orphans {box["st"]["orphans"]}, widows {box["st"]["widows"]})')
            else:
                for kid in frag[-1]:
                    bad = lines_of(kid)
                    if bad:
                        return bad
            return None
        bad = lines_of(page[-1])
        if bad:
            return bad

    def start_page_name(box, inherited):
        name = box['st']['page'] or inherited
        if box['kind'] == 'block' and box['kids']:
            return start_page_name(box['kids'][0], name) or name
        return name

    def end_page_name(box, inherited):
        name = box['st']['page'] or inherited
        if box['kind'] == 'block' and box['kids']:
            return end_page_name(box['kids'][-1], name) or name
        return name

    def check_names(box, inherited):
        name = box['st']['page'] or inherited
        kids = box['kids']
        for a, b in zip(kids, kids[1:]):
            before, after = end_page_name(a, name), start_page_name(b, name)
            if before != after and after and a['id'] in last_page and b['id'] in first_page:
                if last_page[a['id']] == first_page[b['id']]:
                    return f'change of named page ({before!r} -> {after!r}) between boxes {a["id"]} and {b["id"]} starts no new page'
        for kid in kids:
            bad = check_names(kid, name)
            if bad:
                return bad
        return None
    bad = check_names(doc['root'], '')
    if bad:
        return bad

    # the page type's name is the used `page` of the first content placed on the page
    used = {}

    def names(box, inherited):
        name = box['st']['page'] or inherited
        used[box['id']] = name
        for kid in box['kids']:
            names(kid, name)
    names(doc['root'], '')
    for page in pages:
        if page[3] == 'true':
            continue
        frag = page[-1]
        while frag[0] == 'b' and frag[-1]:
            frag = frag[-1][0]
        want = used.get(int(frag[1]), '')
        got = '' if page[4] == '-' else page[4]
        if want and want != got:       # (named -> unnamed is the known finding named-to-unnamed-no-break)
            return f'page {page[1]} has page type name {got!r} but its first content (box {frag[1]}) uses page {want!r}'

    def check(box):
        kids = box['kids']
        for a, b in zip(kids, kids[1:]):
            values = last_chain(a)[::-1] + first_chain(b)
            if any(v in FORCE_PAGE for v in values) and a['id'] in last_page and b['id'] in first_page:
                if last_page[a['id']] == first_page[b['id']]:
                    return f'forced break {values} between boxes {a["id"]} and {b["id"]} not honoured'
                sides = [v for v in values if v in SIDES]
                if sides:
                    want = sides[-1]
                    ltr = doc['ltr']
                    right = {'right': True, 'left': False, 'recto': ltr, 'verso': not ltr}[want]
                    page = pages[first_page[b['id']]]
                    if (page[2] == 'true') != right:
                        return f'box {b["id"]} starts on a {"right" if page[2] == "true" else "left"} page, {want} requested'
        for kid in kids:
            bad = check(kid)
            if bad:
                return bad
        return None
    return check(doc['root'])


def named_to_unnamed():
    """`page: a` followed by an unnamed sibling: no page break, and the following page keeps the name."""
    docs.quiet()
    document = docs.render('<style>@page{size:100px 200px}@page a{size:50px 200px}html,body,p{margin:0}</style>'
                           '<p style="page:a">aa</p><p>bb</p>')
    return len(document.pages) == 1


def tuple_tree(t):
    return (t[0], t[1], t[2], [tuple_tree(k) for k in t[3]])


def doc_violation_raw(values, k):
    """The known finding: `column` (forcing nothing outside columns) hides an `avoid`."""
    pages = docs.page_texts(docs.render(doc_for_values(values, k)))
    where = {}
    for i, texts in enumerate(pages):
        for t in texts:
            where.setdefault(t.strip(), i)
    return where.get('aa') != where.get('bb')


PROP = C04()

MANIFEST = {
    'design_ref': 'DESIGN.md §4 C04',
    'technique': 'Lean 4 theorems over a break-resolution model whose tables are regenerated from block.py (AST + graph) '
                 'each run; exhaustive executable correspondence with the real block_level_page_break',
    'text': 'Unbounded theorems (any sequence length, any box nesting): the strongest break value wins, a forced value '
            'anywhere forces the result, the last side value wins, avoid wins when nothing forces. Stated over tables '
            'regenerated from the source, so a table edit re-checks every proof. The path from the declaration as '
            'written to the value the layout sees (always -> page, the page-break-* aliases, which spellings force / '
            'avoid) is a complete graph regenerated each run from the real validators, expanders and computer '
            'functions (Gen/BreakComputed, theorems C04Computed.*). Pagination-level clauses (new page '
            'actually started, orphans/widows) are carried by the pagination model once registered. Tables: a model of '
            'wrap_table (captions, anonymous / header / footer row groups, break-before/-after moved to the wrapper) and of '
            'page_values, with the theorem that a forcing value written on a table element forces the break before / '
            'after the whole table, captions included, and never acts inside it (C04Table.forced_before_table, '
            'inside_independent), tied to the real cascade + build + block_level_page_break on generated documents and '
            'to the rendered pages (C04Table.tableObs_sound); honouring an avoided break loses nothing '
            '(C04Table.avoid_conserve_sound, documents with out-of-flow boxes around the earlier break point). The '
            'tuple TABLE_WRAPPER_BOX_PROPERTIES and the graph of the real build on it are regenerated each run '
            '(Gen/TableWrapperProps; C04TableGen.wrapTableGen_eq_spec stops compiling when break-before / -after leave the '
            'tuple); named pages around tables: the start name of a table is its first top caption\'s '
            '(C04TableNames.table_start_caption), tied to the real block_level_page_name and to the page types of the '
            'rendered documents (C04TableNames.names_sound).',
    'note': 'Trusted: Lean kernel, the AST/graph translators, the harness mapping box classes to block-parallel flags. '
            'avoid_wins is proved with the hypothesis that no `column` value meets outside a multi-column container '
            '(known finding column-hides-avoid). Document-level rendering is used only to search for failing inputs.',
}
