"""C07 — declarations: invalid ones vanish, shorthands equal longhands, units agree, var() = substitution."""
import json
import math
import os
import subprocess
import sys
from fractions import Fraction

from extract import c07_tables
from harness import c07_gen as G
from harness import c07_real as real
from harness import docs
from vlib import lean, sx
from vlib.framework import PropCheck
from vlib.paths import REPO

enc = real.enc
BASE_URL = real.BASE_URL

# Crashes of the unchanged tree that are listed in known_findings.txt: (exception class, innermost function).
KNOWN_CRASHES = {
    ('RecursionError', 'resolve_var'): 'var-self-cycle-recursion',
    ('TypeError', '__missing__'): 'var-inherit-on-root-typeerror',
}
FUEL = 120


def known_crash(exc):
    if exc is None:
        return None
    if isinstance(exc, RecursionError):
        return 'var-self-cycle-recursion'
    return KNOWN_CRASHES.get(real.innermost(exc))


def shorthand_keys(fn_name):
    _, _, _, expanders, _ = real.mods()
    return sorted(k for k, f in expanders.EXPANDERS.items() if f.__name__ == fn_name)


def tokens_of(text):
    return list(G.tokens_of(text))


def head_atom(tokens):
    return real.head_of(tokens)


# ------------------------------------------------------------------------------------------ sections

def value_for(run, name, weights=('own', 'own', 'own', 'near', 'other', 'soup', 'soup', 'adversarial')):
    return G.value_text(run.rng, name, run.rng.choice(weights))


def sec_units(run):
    from weasyprint.css import computed_values
    from weasyprint.css.properties import Dimension
    from weasyprint.css.utils import LENGTH_UNITS, LENGTHS_TO_PIXELS
    sec = run.section('units', 'LENGTHS_TO_PIXELS: generated exact rational vs runtime float (within 2^-49 relative); '
                      'computed_values.length by direct call on dyadic values, every unit, both pixels_only; '
                      'non-trivial = a unit other than px with a non-zero value')
    for unit, factor in LENGTHS_TO_PIXELS.items():
        nice = Fraction(factor).limit_denominator(100000)
        rel = 'exact' if Fraction(factor) == nice else 'near'
        sec.add(sx.line('unit', enc(unit), Fraction(factor)), f'{sx.atom(nice)} {rel}', meta={'unit': unit},
                tags=[f'unit:{unit}'])
    sec.add(sx.line('unit', 'furlong', Fraction(1)), 'none', nontrivial=False)

    class Style(dict):
        pass
    units = sorted(LENGTH_UNITS) + ['%', 'vw', None]
    pool = [Fraction(n, d) for n in range(-40, 200) for d in (1, 2, 4, 8)] + [Fraction(10 ** 6), Fraction(-10 ** 5)]
    for _ in range(run.n(1500, 40000)):
        unit = run.rng.choice(units)
        value = run.rng.choice(pool) if run.rng.random() < 0.9 else Fraction(0)
        if unit is None and run.rng.random() < 0.7:
            value = Fraction(0)
        font_size = Fraction(run.rng.choice([8, 10, 12, 16, 20, 33]), run.rng.choice([1, 2]))
        root_size = Fraction(run.rng.choice([10, 16, 24]))
        ex, ch = Fraction(run.rng.choice([1, 2, 3]), 4), Fraction(run.rng.choice([1, 2, 4]), 4)
        pixels_only = run.rng.random() < 0.5
        style = Style(font_size=float(font_size), font_family=('x',), font_style='normal', font_stretch='normal',
                      font_weight=400, font_variant_caps='normal', font_variant_east_asian='normal',
                      font_variant_ligatures='normal', font_variant_numeric='normal', font_variant_position='normal',
                      font_variant_alternates='normal', font_kerning='auto', font_feature_settings='normal',
                      font_language_override='normal', font_variation_settings='normal', lang=None)
        root = Style(font_size=float(root_size))
        style.root_style = root
        key = computed_values._font_style_cache_key(style)
        style.cache = {'ratio_ex': {key: float(ex)}, 'ratio_ch': {key: float(ch)}}
        keyword = run.rng.random() < 0.04
        if keyword:
            spec_value = run.rng.choice(['auto', 'content', 'from-font'])
            spec = ['kw', enc(spec_value)]
        else:
            spec_value = Dimension(float(value), unit)
            spec = ['dim', value, enc(unit) if unit is not None else 'none']
        explicit_fs = run.rng.random() < 0.3
        try:
            out = computed_values.length(style, 'width', spec_value, float(font_size) if explicit_fs else None,
                                         pixels_only)
        except Exception as exc:  # noqa: BLE001
            out = exc
        impl_q = Fraction(0)
        if isinstance(out, Exception):
            impl = f'err:{type(out).__name__}'
        elif isinstance(out, str):
            impl = f'kw {enc(out)}'
        else:
            number = out.value if isinstance(out, Dimension) else out
            impl_q = Fraction(number)
            nice = impl_q.limit_denominator(5000)
            rel = 'exact' if nice == impl_q else 'near'
            if isinstance(out, Dimension):
                impl = f'dim {sx.atom(nice)} {enc(out.unit) if out.unit is not None else "none"} {rel}'
            else:
                impl = f'number {sx.atom(nice)} {rel}'
        sec.add(sx.line('length', font_size, root_size, ex, ch, pixels_only, spec, impl_q), impl,
                meta={'value': str(value), 'unit': unit, 'pixels_only': pixels_only, 'font_size': str(font_size)},
                nontrivial=(not keyword and value != 0 and unit not in ('px', None, '%', 'vw')),
                tags=[f'len:{unit}'])


def sec_registry(run):
    _, _, validation, expanders, properties = real.mods()
    sec = run.section('registry', 'EXPANDERS key -> bound function, effective validated name of a declaration name '
                      '(NOT_PRINT_MEDIA, -weasy- prefix, vendor prefixes) on every registered name and its spellings; '
                      'non-trivial = the name is skipped or rewritten')
    for key, fn in expanders.EXPANDERS.items():
        sec.add(sx.line('expander-fn', enc(key)), fn.__name__, nontrivial=False, tags=['expander-fn'])
    sec.add(sx.line('expander-fn', 'colour'), 'none', nontrivial=False)
    names = sorted(set(properties.PROPERTIES) | set(expanders.EXPANDERS) | set(validation.NOT_PRINT_MEDIA))
    import tinycss2
    variants = []
    for name in names:
        variants += [name, name.upper(), '-weasy-' + name, '-WEASY-' + name, '-webkit-' + name, '--' + name,
                     '--' + name.upper(), '-' + name, '-weasy--' + name, '-weasy-weasy-' + name]
    for written in variants:
        decls = [d for d in tinycss2.parse_blocks_contents(f'{written}: inherit') if d.type == 'declaration']
        if len(decls) != 1:
            continue
        decl = decls[0]
        # the name the real funnel validates under: observed through a recording validator table
        seen = observe_effective(decl)
        sec.add(sx.line('effective', enc(decl.name), enc(decl.lower_name)), seen,
                meta={'written': written}, nontrivial=(seen == 'skip' or seen != enc(decl.lower_name)),
                tags=['skip' if seen == 'skip' else 'kept' if seen == enc(decl.lower_name) else 'rewritten'])


def observe_effective(decl):
    """Which name the real funnel hands to the validator for this declaration (or 'skip')."""
    _, _, validation, expanders, properties = real.mods()
    seen = []

    class Recorder(dict):
        def get(self, name, default=None):
            seen.append(name)
            return lambda tokens, name, base_url: ()
    original = validation.EXPANDERS
    validation.EXPANDERS = Recorder()
    try:
        list(validation.preprocess_declarations(BASE_URL, [decl]))
    finally:
        validation.EXPANDERS = original
    return enc(seen[0]) if seen else 'skip'


def funnel_block(run):
    """A declaration block text: declarations of every kind, other items in between."""
    props, shorthands = G.all_names()
    names = props + shorthands
    parts = []
    for _ in range(run.rng.choice([1, 2, 2, 3, 3, 4, 5, 6])):
        r = run.rng.random()
        if r < 0.78:
            name = run.rng.choice(names)
            text = G.value_text(run.rng, name, run.rng.choice(['own', 'own', 'own', 'near', 'near', 'other', 'soup', 'adversarial']))
            imp = ' !important' if run.rng.random() < 0.15 else ''
            parts.append(f'{G.decl_name(run.rng, name)}: {text}{imp}')
        elif r < 0.84:
            from weasyprint.css import validation
            parts.append(f'{run.rng.choice(sorted(validation.NOT_PRINT_MEDIA))}: {G.soup_atom(run.rng)}')
        elif r < 0.88:
            parts.append(f'--{run.rng.choice(["a", "B", "c-d"])}: {G.value_text(run.rng, "width", "soup")}')
        elif r < 0.91:
            parts.append(f'unknown-{run.rng.choice(["x", "prop"])}: {G.soup_atom(run.rng)}')
        elif r < 0.94:
            parts.append(run.rng.choice(['@foo', '@media print { a: b }', '@top-left { content: "x" }']))
        elif r < 0.97:
            parts.append(run.rng.choice(['a { color: red }', '&:hover { color: red }', 'b c']))
        else:
            parts.append(run.rng.choice(['', ' ', '!', 'color', ': red', 'color red', '/* c */']))
    return '; '.join(parts)


def funnel_case(text, intern):
    """-> (protocol line, impl_out, exc, per-declaration data)"""
    import tinycss2
    decls = tinycss2.parse_blocks_contents(text)
    impl, exc = real.funnel_out(decls, intern)
    items, broken = [], None
    for d in decls:
        if d.type == 'declaration':
            tokens = G.remove_ws(d.value)
            table = []
            for cand in real.candidate_names(d):
                entry, cand_exc = real.validator_table_entry(cand, tokens, intern)
                broken = broken or cand_exc
                table.append([enc(cand), entry])
            items.append(['declaration', enc(d.name), enc(d.lower_name), not tokens, bool(d.important), table])
        else:
            items.append([d.type, 'x', 'x', True, False, []])
    return sx.line('funnel', *items), impl, exc, decls


def sec_funnel(run):
    import tinycss2
    sec = run.section('funnel', 'real preprocess_declarations on generated blocks (every registered property and '
                      'shorthand x own grammar / other grammars / token soup / adversarial numbers, spelling '
                      'variants, !important, custom properties, nested rules, parse errors) vs the model funnel fed '
                      'with each declaration validated ALONE by the real validator; any exception other than '
                      'InvalidValues breaks the model assumption; non-trivial = at least one declaration is dropped '
                      'and one is kept')
    sec2 = run.section('funnel-neighbours', 'real funnel on the list = concatenation of the real funnel on the '
                       'singletons (echo of digests); same with a selector prelude (style-rule path)')
    intern = real.Interner()
    known = {}
    props, shorthands = G.all_names()
    blocks = []
    # every registered name once per kind, alone, then mixed blocks
    for name in props + shorthands:
        for kind in ('own', 'near', 'other', 'soup', 'adversarial'):
            for _ in range(run.n(6 if kind == 'near' else 3, 40)):
                blocks.append(f'{G.decl_name(run.rng, name)}: {G.value_text(run.rng, name, kind)}')
    for _ in range(run.n(4000, 60000)):
        blocks.append(funnel_block(run))
    prelude = tinycss2.parse_component_value_list('p.c, q')
    for text in blocks:
        line, impl, exc, decls = funnel_case(text, intern)
        finding = known_crash(exc)
        if finding:
            known[finding] = known.get(finding, 0) + 1
            continue
        kept = impl.count('(') if impl.startswith('ok') else 0
        ndecl = sum(1 for d in decls if d.type == 'declaration')
        sec.add(line, impl, meta={'css': text}, nontrivial=(0 < kept and ndecl > 1),
                tags=['raised' if impl.startswith('err') else 'all-dropped' if kept == 0 else 'some-kept'])
        if impl.startswith('ok') and len(decls) > 1 and run.rng.random() < 0.5:
            singles = []
            for d in decls:
                out, _ = real.funnel_out([d], intern)
                singles.append(out[3:] if out.startswith('ok ') else '' if out == 'ok' else out)
            joined = ('ok ' + ' '.join(s for s in singles if s)).strip()
            sec2.add(sx.line('echo', real.digest(joined)), real.digest(impl), meta={'css': text},
                     tags=['singletons'])
            if not any(d.type == 'qualified-rule' for d in decls):
                out, _ = real.funnel_out(decls, intern, prelude)
                sec2.add(sx.line('echo', real.digest(impl)), real.digest(out), meta={'css': text, 'prelude': True},
                         tags=['prelude'])
    run.extra['known_crashes_skipped_in_funnel'] = known


def sec_generic(run):
    _, _, _, expanders, _ = real.mods()
    sec = run.section('generic-expander', 'every @generic_expander-wrapped shorthand: the real wrapper vs the model '
                      'of generic_expander fed with the items of the real wrapped generator and the real longhand '
                      'validations (names from the generated table); non-trivial = the wrapped generator yielded')
    intern = real.Interner()
    keys = [k for k, f in expanders.EXPANDERS.items() if real.closure_of(f)[0] is not None]
    for key in sorted(keys):
        fn = expanders.EXPANDERS[key]
        for _ in range(run.n(150, 1500)):
            tokens = tokens_of(value_for(run, key))
            if not tokens:
                continue
            names, items, end = real.raw_of(key, tokens)
            ids = {}
            wire_items, table = [], []
            for i, (new_name, value) in enumerate(items):
                wire_items.append([enc(str(new_name)), f'i{i}'])
                if isinstance(new_name, str) and new_name in names:
                    actual = real.actual_name(key, new_name)
                    table.append([[enc(actual), f'i{i}'], real.validate_required(value, actual, intern)])
            head = head_atom(tokens)
            impl = real.expander_out(key, tokens, intern)
            sec.add(sx.line('generic', enc(fn.__name__), enc(key), head, wire_items, end or 'none', table), impl,
                    meta={'key': key, 'css': ' '.join(real.tok_text(t) for t in tokens)},
                    nontrivial=bool(items), tags=[f'head:{head}', 'ok' if impl.startswith('ok') else impl])


def side_table(names, tokens, intern):
    table = []
    for i, tok in enumerate(tokens):
        for name in names:
            table.append([[enc(name), f't{i}'], real.validate_required([tok], name, intern)])
    return table


def sec_four_sides(run):
    _, _, _, expanders, _ = real.mods()
    import tinycss2
    sec = run.section('four-sides', 'expand_four_sides by direct call on 0..6 tokens (own / other grammar, var(), '
                      'inherit) for its six keys vs the model; expanded names of arbitrary names; non-trivial = 1..4 '
                      'tokens')
    intern = real.Interner()
    var_tok = tinycss2.parse_one_component_value('var(--v)')
    keys = shorthand_keys('expand_four_sides')
    for name in keys + ['x', 'a-b', 'a-b-c', 'border-top-left-radius', '-x', 'x-', 'margin', 'Margin-X']:
        kind, result, _ = real.outcome_list(lambda: expanders.expand_four_sides((var_tok,), name, BASE_URL))
        sec.add(sx.line('four-names', enc(name)), 'ok' + ''.join(f' {enc(n)}' for n, _ in result),
                nontrivial=False, tags=['names'])
    for key in keys:
        names = [n for n, _ in expanders.expand_four_sides((var_tok,), key, BASE_URL)]
        for _ in range(run.n(300, 4000)):
            n = run.rng.choice([0, 1, 1, 2, 2, 3, 3, 4, 4, 5, 6])
            singles = G.accepted_singles(names[0])
            atoms = []
            for _ in range(n):
                r = run.rng.random()
                atoms.append(run.rng.choice(singles) if r < 0.8 and singles else
                             'var(--a)' if r < 0.84 else G.soup_atom(run.rng))
            tokens = tokens_of(' '.join(atoms))
            table = side_table(names, tokens, intern)
            kind, result, exc = real.outcome_list(lambda: expanders.expand_four_sides(tuple(tokens), key, BASE_URL))
            impl = real.longhands_out(result, intern) if kind == 'ok' else result
            sec.add(sx.line('four', enc(key), real.has_var(tokens), [f't{i}' for i in range(len(tokens))], table),
                    impl, meta={'key': key, 'css': ' '.join(atoms)}, nontrivial=1 <= len(tokens) <= 4,
                    tags=[f'n{min(len(tokens), 6)}', 'ok' if kind == 'ok' else result])


def sec_border_radius(run):
    _, utils, _, expanders, _ = real.mods()
    sec = run.section('border-radius', 'the registered border-radius expander by direct call vs the model '
                      '(split around "/", fill to four per axis, border_corner_radius on get_length answers); '
                      'non-trivial = contains "/" or 2..3 values on an axis')
    intern = real.Interner()
    pool = ['1px', '2px', '10%', '0', '1em', '0.5in', '3pt', '50%', '4px', '2em', '1px', '25%',
            '-1px', '-5%', 'auto', '1', 'red', 'inherit']
    for _ in range(run.n(3000, 30000)):
        n = run.rng.choice([0, 1, 1, 2, 3, 4, 5, 2, 3])
        atoms = [run.rng.choice(pool) for _ in range(n)]
        r = run.rng.random()
        if r < 0.55:
            k = run.rng.choice([1, 2, 3, 4])
            atoms = atoms + ['/'] + [run.rng.choice(pool) for _ in range(k)]
        elif r < 0.62:
            atoms.insert(run.rng.randrange(len(atoms) + 1), '/')
        elif r < 0.67:
            atoms = atoms + ['/'] + [run.rng.choice(pool)] + ['/'] + [run.rng.choice(pool) for _ in range(run.rng.choice([0, 1]))]
        if run.rng.random() < 0.03:
            atoms = [run.rng.choice(['inherit', 'initial', 'var(--r)'])] + (atoms if run.rng.random() < 0.3 else [])
        tokens = tokens_of(' '.join(atoms))
        if not tokens:
            continue
        wire = []
        for i, tok in enumerate(tokens):
            if tok.type == 'literal' and tok.value == '/':
                wire.append('slash')
            else:
                got = utils.get_length(tok, negative=False, percentage=True)
                wire.append([f't{i}', intern(got) if got is not None else 'none'])

        def value_atom(v):
            if isinstance(v, tuple) and len(v) == 2 and not isinstance(v, utils.Dimension):
                return f'(pair {intern(v[0])} {intern(v[1])})'
            return intern(v)
        impl = real.expander_out('border-radius', tokens, intern, value_atom)
        sec.add(sx.line('radius', 'border-radius', head_atom(tokens), wire), impl, meta={'css': ' '.join(atoms)},
                nontrivial=('/' in atoms or 2 <= len(atoms) <= 3),
                tags=['slash' if '/' in atoms else 'no-slash', 'ok' if impl.startswith('ok') else impl])


SIDE_POOL = ['red', '#00f', 'currentcolor', 'transparent', 'rgb(1,2,3)', 'thin', 'medium', 'thick', '1px', '0', '2em',
             '-1px', '5%', 'solid', 'dotted', 'none', 'hidden', 'double', 'groove', 'inset', 'invert', 'auto', '1',
             'inherit', 'foo', '"s"', 'wavy']


def sec_border_side(run):
    _, _, _, expanders, properties = real.mods()
    from tinycss2.color4 import parse_color
    sec = run.section('border-side', 'border-top/right/bottom/left, outline, column-rule and border by direct call '
                      'vs the model (token classification by the real parse_color / border_width / border_style, '
                      'generic fill); non-trivial = 2 or more tokens')
    intern = real.Interner()
    keys = shorthand_keys('expand_border_side') + ['border']
    for key in keys:
        if key == 'border':
            names = [f'border{s}{x}' for s in ('-top', '-right', '-bottom', '-left')
                     for x in ('-width', '-color', '-style')]
        else:
            names = [f'{key}{x}' for x in ('-width', '-color', '-style')]
        for _ in range(run.n(500, 5000)):
            n = run.rng.choice([1, 1, 2, 2, 3, 3, 3, 4])
            atoms = [run.rng.choice(SIDE_POOL) if run.rng.random() < 0.93 else G.soup_atom(run.rng)
                     for _ in range(n)]
            if run.rng.random() < 0.03:
                atoms = [run.rng.choice(['inherit', 'initial', 'var(--b)', 'var(--b) solid'])]
            tokens = tokens_of(' '.join(atoms))
            if not tokens:
                continue
            wire = []
            for i, tok in enumerate(tokens):
                wire.append([parse_color(tok) is not None, properties.border_width([tok]) is not None,
                             properties.border_style([tok]) is not None, f't{i}'])
            table = side_table(names, tokens, intern)
            impl = real.expander_out(key, tokens, intern)
            sec.add(sx.line('border' if key == 'border' else 'side', enc(key), head_atom(tokens), wire, table), impl,
                    meta={'key': key, 'css': ' '.join(atoms)}, nontrivial=len(tokens) >= 2,
                    tags=[f'n{len(tokens)}', 'ok' if impl.startswith('ok') else impl])


def sec_list_style(run):
    _, utils, _, expanders, properties = real.mods()
    sec = run.section('list-style', 'list-style by direct call vs the model (none disambiguation); non-trivial = a '
                      'none token is present')
    intern = real.Interner()
    pool = ['none', 'none', 'inside', 'outside', 'disc', 'decimal', 'square', 'foo', '"s"', 'url(a.png)',
            'url("b.png")', 'symbols(cyclic "a" "b")', 'symbols()', '1', '1px', 'inherit', 'linear-gradient(red, blue)',
            'attr(x url)', 'NONE']
    names = ['list-style-type', 'list-style-position', 'list-style-image']
    for _ in range(run.n(3000, 30000)):
        n = run.rng.choice([1, 1, 2, 2, 3, 3, 4, 5])
        atoms = [run.rng.choice(pool) if run.rng.random() < 0.95 else G.soup_atom(run.rng) for _ in range(n)]
        if run.rng.random() < 0.03:
            atoms = [run.rng.choice(['inherit', 'initial', 'var(--l)', 'var(--l) none'])]
        tokens = tokens_of(' '.join(atoms))
        if not tokens:
            continue
        wire = []
        try:
            for i, tok in enumerate(tokens):
                wire.append([utils.get_keyword(tok) == 'none',
                             properties.list_style_image([tok], BASE_URL) is not None,
                             properties.list_style_position([tok]) is not None,
                             properties.list_style_type([tok]) is not None, f't{i}'])
        except Exception:  # noqa: BLE001 - a single-token validator crashed: the funnel section reports it
            continue
        table = side_table(names, tokens, intern)
        impl = real.expander_out('list-style', tokens, intern)
        sec.add(sx.line('list-style', 'list-style', head_atom(tokens), wire, table), impl,
                meta={'css': ' '.join(atoms)}, nontrivial=any(w[0] for w in wire),
                tags=[f'none{sum(1 for w in wire if w[0])}', 'ok' if impl.startswith('ok') else impl])


def modelled_raw_case(sec, run, key, cmd, tokens, build, intern, extra_tags=()):
    """Common part of the sections whose wrapped generator is modelled: table from the real raw items."""
    names, items, end = real.raw_of(key, tokens)
    ids = real.tok_ids(tokens)
    table = real.table_for_raw(key, names, items, ids, intern)
    impl = real.expander_out(key, tokens, intern)
    line = build(ids, table)
    sec.add(line, impl, meta={'key': key, 'css': ' '.join(real.tok_text(t) for t in tokens)},
            nontrivial=len(tokens) >= 1 and impl.startswith('ok'),
            tags=[cmd, 'ok' if impl.startswith('ok') else impl, *extra_tags])


def sec_small_expanders(run):
    _, utils, _, expanders, properties = real.mods()
    from tinycss2.color4 import parse_color
    sec = run.section('small-expanders', 'text-decoration, columns, flex-flow, gap/grid-gap, word-wrap, '
                      'grid-column-gap, grid-row-gap, page-break-before/after/inside, text-align by direct call vs '
                      'models of their wrapped generators + generic fill; non-trivial = the value is accepted')
    intern = real.Interner()
    count = run.n(700, 7000)

    def pick(pool, nmax=4):
        n = run.rng.choice(list(range(1, nmax + 1)))
        atoms = [run.rng.choice(pool) if run.rng.random() < 0.93 else G.soup_atom(run.rng) for _ in range(n)]
        if run.rng.random() < 0.03:
            atoms = [run.rng.choice(['inherit', 'initial', 'var(--z)'])]
        return tokens_of(' '.join(atoms))

    deco_pool = ['none', 'underline', 'overline', 'line-through', 'blink', 'solid', 'double', 'dotted', 'dashed', 'wavy',
                 'red', 'currentcolor', '#123', '1px', '2em', '10%', 'auto', 'from-font', '0', 'thin', 'foo', 'UNDERLINE']
    for _ in range(count):
        tokens = pick(deco_pool, 5)
        if not tokens:
            continue

        def build(ids, table, tokens=tokens):
            wire = []
            for i, tok in enumerate(tokens):
                kw = utils.get_keyword(tok)
                wire.append([kw in ('none', 'underline', 'overline', 'line-through', 'blink'), kw == 'none',
                             kw in ('solid', 'double', 'dotted', 'dashed', 'wavy'), bool(parse_color(tok)),
                             bool(properties.text_decoration_thickness([tok])), f't{i}'])
            return sx.line('text-decoration', 'text-decoration', head_atom(tokens), wire, table)
        modelled_raw_case(sec, run, 'text-decoration', 'text-decoration', tokens, build, intern)

    col_pool = ['auto', 'auto', '10px', '5em', '0', '-1px', '2', '3', '1.5', '0.0', '-2', '10%', 'none', 'AUTO']
    for _ in range(count):
        tokens = pick(col_pool, 3)
        if not tokens:
            continue

        def build(ids, table, tokens=tokens):
            wire = [[utils.get_keyword(t) == 'auto', properties.column_width([t]) is not None,
                     properties.column_count([t]) is not None, f't{i}'] for i, t in enumerate(tokens)]
            return sx.line('columns', 'columns', head_atom(tokens), wire, 'auto', table)
        modelled_raw_case(sec, run, 'columns', 'columns', tokens, build, intern)

    flow_pool = ['row', 'row-reverse', 'column', 'column-reverse', 'wrap', 'nowrap', 'wrap-reverse', 'foo', '1', 'ROW']
    for _ in range(count):
        tokens = pick(flow_pool, 3)
        if not tokens:
            continue

        def build(ids, table, tokens=tokens):
            wire = [[bool(properties.flex_direction([t])), bool(properties.flex_wrap([t])), f't{i}']
                    for i, t in enumerate(tokens)]
            return sx.line('flex-flow', 'flex-flow', head_atom(tokens), wire, table)
        modelled_raw_case(sec, run, 'flex-flow', 'flex-flow', tokens, build, intern)

    gap_pool = ['normal', '1px', '2em', '10%', '0', '-1px', 'auto', '1', 'NORMAL']
    for key in ('gap', 'grid-gap'):
        for _ in range(count // 2):
            tokens = pick(gap_pool, 3)
            if not tokens:
                continue

            def build(ids, table, tokens=tokens, key=key):
                wire = [[properties.gap([t]) is not None, f't{i}'] for i, t in enumerate(tokens)]
                return sx.line('gap', enc(key), head_atom(tokens), wire, table)
            modelled_raw_case(sec, run, key, 'gap', tokens, build, intern)

    renames = [('word-wrap', 'overflow-wrap', lambda ts: properties.overflow_wrap(ts) is not None,
                ['normal', 'break-word', 'anywhere', 'foo', '1']),
               ('grid-column-gap', 'column-gap', lambda ts: properties.gap(ts) is not None, gap_pool),
               ('grid-row-gap', 'row-gap', lambda ts: properties.gap(ts) is not None, gap_pool),
               ('page-break-inside', 'break-inside',
                lambda ts: utils.get_single_keyword(ts) in ('auto', 'avoid'), ['auto', 'avoid', 'avoid-page', 'always', '1'])]
    for key, new_name, test, pool in renames:
        fn = expanders.EXPANDERS[key].__name__
        for _ in range(count // 3):
            tokens = pick(pool, 2)
            if not tokens:
                continue

            def build(ids, table, tokens=tokens, key=key, new_name=new_name, test=test, fn=fn):
                return sx.line('rename', enc(fn), enc(key), head_atom(tokens), enc(new_name), bool(test(tuple(tokens))),
                               real.value_id(tokens, ids), table)
            modelled_raw_case(sec, run, key, 'rename', tokens, build, intern)

    pb_pool = ['auto', 'left', 'right', 'avoid', 'always', 'page', 'column', 'avoid-page', 'recto', '1', 'ALWAYS']
    for key in ('page-break-before', 'page-break-after'):
        fn = expanders.EXPANDERS[key].__name__
        for _ in range(count // 3):
            tokens = pick(pb_pool, 2)
            if not tokens:
                continue

            def build(ids, table, tokens=tokens, key=key, fn=fn):
                kw = utils.get_single_keyword(tokens)
                return sx.line('page-break', enc(fn), enc(key), head_atom(tokens), enc(kw) if kw is not None else 'none',
                               real.value_id(tokens, ids), 'page', table)
            modelled_raw_case(sec, run, key, 'page-break', tokens, build, intern)

    ta_pool = ['left', 'right', 'center', 'justify', 'justify-all', 'start', 'end', 'match-parent', 'foo', '1', 'JUSTIFY']
    for _ in range(count // 2):
        tokens = pick(ta_pool, 2)
        if not tokens:
            continue

        def build(ids, table, tokens=tokens):
            kw = utils.get_single_keyword(tokens)
            return sx.line('text-align', 'text-align', head_atom(tokens), len(tokens),
                           enc(kw) if kw is not None else 'none', 't0', 'justify', 'start', table)
        modelled_raw_case(sec, run, 'text-align', 'text-align', tokens, build, intern)


def sec_vns(run):
    _, utils, _, expanders, properties = real.mods()
    from weasyprint.css.properties import KNOWN_PROPERTIES
    sec = run.section('validate-non-shorthand', 'validate_non_shorthand by direct call on every registered, known, '
                      'shorthand, unknown and custom name x required x values vs its skeleton model (the registered '
                      'validator function called separately); non-trivial = not rejected by name')
    intern = real.Interner()
    names = sorted(set(properties.PROPERTIES) | set(KNOWN_PROPERTIES) | set(expanders.EXPANDERS)) + [
        '--x', '--', 'nope', 'Color', '-weasy-anchor']
    for name in names:
        for _ in range(run.n(12, 120)):
            required = run.rng.random() < 0.35
            base = name if name in properties.PROPERTIES else 'width'
            text = value_for(run, base, ('own', 'own', 'other', 'soup'))
            if run.rng.random() < 0.12:
                text = run.rng.choice(['inherit', 'initial', 'INHERIT', 'var(--a)', 'var(--a) 1px', 'inherit 1px'])
            tokens = tuple(tokens_of(text))
            fnres = 'none'
            if name in properties.PROPERTIES and not name.startswith('--'):
                function = properties.PROPERTIES[name]
                try:
                    value = function(tokens, BASE_URL) if function.wants_base_url else function(tokens)
                    fnres = ['ok', intern(value)] if value is not None else 'none'
                except Exception as exc:  # noqa: BLE001
                    fnres = real.fail_atom(exc)
            try:
                (out_name, value), = properties.validate_non_shorthand(tokens, name, BASE_URL, required)
                impl = f'ok ({enc(out_name)} {intern(value)})'
            except Exception as exc:  # noqa: BLE001
                impl = real.fail_atom(exc)
            kw = utils.get_single_keyword(tokens)
            sec.add(sx.line('vns', enc(name), required, real.has_var(tokens), enc(kw) if kw is not None else 'none',
                            intern(tokens), fnres), impl, meta={'name': name, 'css': text, 'required': required},
                    nontrivial=name in properties.PROPERTIES, tags=['ok' if impl.startswith('ok') else impl])



# ------------------------------------------------------------------- lengths: validation then computation

UNIT_SPELLINGS = None


def unit_spellings():
    """Every LENGTH_UNIT as written, upper-cased, capitalised, mixed; plus units that are not lengths."""
    global UNIT_SPELLINGS
    if UNIT_SPELLINGS is None:
        from weasyprint.css.utils import LENGTH_UNITS
        out = []
        for unit in sorted(LENGTH_UNITS):
            out += [unit, unit.upper(), unit.capitalize(), unit[:-1] + unit[-1].upper()]
        UNIT_SPELLINGS = sorted(set(out)) + ['vw', 'vh', 'deg', 'fr', 'xx', 'PX2', 'pxx', 'p']
    return UNIT_SPELLINGS


def ltok_wire(tok):
    if tok.type == 'number':
        return ['number', Fraction(tok.value)]
    if tok.type == 'dimension':
        return ['dimension', Fraction(tok.value), enc(tok.unit), enc(tok.lower_unit)]
    if tok.type == 'percentage':
        return ['percentage', Fraction(tok.value)]
    return 'other'


def length_token_text(rng):
    r = rng.random()
    value = rng.choice(['0', '1', '2', '0.5', '-1', '-0.25', '12', '96', '1.5', '-3', '0.0', '-0', '100'])
    if r < 0.70:
        return value + rng.choice(unit_spellings())
    if r < 0.82:
        return value + '%'
    if r < 0.94:
        return value
    return rng.choice(['auto', 'red', '"s"', 'calc(1px)', '/', 'thin', 'normal'])


def font_style_for(font_size, root_size, ex, ch):
    from weasyprint.css import computed_values

    class Style(dict):
        pass
    style = Style(font_size=float(font_size), font_family=('x',), font_style='normal', font_stretch='normal',
                  font_weight=400, font_variant_caps='normal', font_variant_east_asian='normal',
                  font_variant_ligatures='normal', font_variant_numeric='normal', font_variant_position='normal',
                  font_variant_alternates='normal', font_kerning='auto', font_feature_settings='normal',
                  font_language_override='normal', font_variation_settings='normal', lang=None)
    root = Style(font_size=float(root_size))
    style.root_style = root
    key = computed_values._font_style_cache_key(style)
    style.cache = {'ratio_ex': {key: float(ex)}, 'ratio_ch': {key: float(ch)}}
    return style


def computed_out(out):
    """(wire text, exact value) of what `computed_values.length` returned."""
    from weasyprint.css.properties import Dimension
    if isinstance(out, Exception):
        return f'err:{type(out).__name__}', Fraction(0)
    if isinstance(out, str):
        return f'kw {enc(out)}', Fraction(0)
    number = out.value if isinstance(out, Dimension) else out
    impl_q = Fraction(number)
    nice = impl_q.limit_denominator(5000)
    rel = 'exact' if nice == impl_q else 'near'
    if isinstance(out, Dimension):
        return f'dim {sx.atom(nice)} {enc(out.unit) if out.unit is not None else "none"} {rel}', impl_q
    return f'number {sx.atom(nice)} {rel}', impl_q


def length_properties():
    """Longhands computed by `computed_values.length` whose validator is `get_length` with fixed flags (probed)."""
    from weasyprint.css import computed_values
    _, utils, _, _, properties = real.mods()
    out = []
    for key, fn in computed_values.COMPUTER_FUNCTIONS.items():
        if fn is not computed_values.length:
            continue
        name = key.replace('_', '-')
        if name not in properties.PROPERTIES:
            continue
        accepts = lambda text: G.call_validator(name, text)[0] == 'ok'     # noqa: E731
        if not accepts('2px'):
            continue
        out.append((name, accepts('-2px'), accepts('50%')))
    return sorted(out)


def sec_lengths(run):
    from weasyprint.css import computed_values
    from weasyprint.css.properties import Dimension
    _, utils, _, _, properties = real.mods()
    sec = run.section('get-length', 'utils.get_length by direct call on number / dimension / percentage tokens, every '
                      'LENGTH_UNIT in lower, upper and mixed case plus foreign units, all four flag combinations, vs the '
                      'model; non-trivial = a dimension token')
    for _ in range(run.n(1500, 30000)):
        text = length_token_text(run.rng)
        toks = tokens_of(text)
        if len(toks) != 1:
            continue
        tok = toks[0]
        negative, percentage = run.rng.random() < 0.5, run.rng.random() < 0.5
        got = utils.get_length(tok, negative=negative, percentage=percentage)
        impl = 'none' if got is None else f'dim {sx.atom(Fraction(got.value))} {enc(got.unit) if got.unit is not None else "none"}'
        sec.add(sx.line('get-length', negative, percentage, ltok_wire(tok)), impl, meta={'token': text},
                nontrivial=tok.type == 'dimension',
                tags=[tok.type, 'accepted' if got is not None else 'rejected'])
    sec2 = run.section('length-pipeline', 'every longhand computed by computed_values.length: the real validator '
                       '(validate_non_shorthand) then the real computer on one token, vs model get_length (flags probed '
                       'from the validator) then model length: an accepted length must come out in px (or stay a '
                       'percentage); non-trivial = accepted')
    props = length_properties()
    run.extra['length_properties'] = len(props)
    for name, negative, percentage in props:
        for _ in range(run.n(60, 1200)):
            text = length_token_text(run.rng)
            toks = tokens_of(text)
            if len(toks) != 1 or toks[0].type not in ('number', 'dimension', 'percentage'):
                continue
            tok = toks[0]
            font_size = Fraction(run.rng.choice([8, 10, 16, 20]))
            root_size = Fraction(run.rng.choice([10, 16, 24]))
            ex, ch = Fraction(run.rng.choice([1, 2, 3]), 4), Fraction(run.rng.choice([1, 2]), 2)
            style = font_style_for(font_size, root_size, ex, ch)
            try:
                (_, value), = properties.validate_non_shorthand([tok], name, BASE_URL, required=True)
            except utils.InvalidValues:
                value = None
            except Exception as exc:  # noqa: BLE001
                value = exc
            impl_q = Fraction(0)
            if value is None:
                impl = 'rejected'
            elif isinstance(value, Exception):
                impl = f'err:{type(value).__name__}'
            elif not isinstance(value, Dimension):
                continue        # a keyword or a number of this property's own grammar (line-height: 2)
            else:
                try:
                    out = computed_values.length(style, name, value)
                except Exception as exc:  # noqa: BLE001
                    out = exc
                impl, impl_q = computed_out(out)
            sec2.add(sx.line('length-pipeline', negative, percentage, font_size, root_size, ex, ch, False,
                             ltok_wire(tok), impl_q), impl, meta={'name': name, 'css': text},
                     nontrivial=impl != 'rejected', tags=[impl.split(' ')[0]])


def judge_length_declaration(name, css):
    """Clauses on `name: <one token>`: either the declaration is dropped (and then has no effect), or it is
    supported: then its computed value is in px / % and the document renders; never an abort."""
    import tinycss2
    from weasyprint.css import computed_values
    from weasyprint.css.properties import Dimension
    _, utils, validation, _, _ = real.mods()
    decls = tinycss2.parse_blocks_contents(f'{name}: {css}')
    try:
        out = list(validation.preprocess_declarations(BASE_URL, decls))
    except Exception as exc:  # noqa: BLE001
        return f'`{name}: {css}` makes preprocess_declarations raise {type(exc).__name__}'
    for _, value, _ in out:
        values = value if isinstance(value, tuple) and not isinstance(value, Dimension) else (value,)
        for v in values:
            if isinstance(v, Dimension) and v.unit not in (None, '%') and v.unit not in utils.LENGTH_UNITS:
                return (f'`{name}: {css}` is accepted as {real.canon(v)}: the unit {v.unit!r} is not one of the length '
                        f'units the engine converts (LENGTH_UNITS), so the value is never turned into pixels '
                        f'(not interchangeable with its px spelling, layout aborts)')
    sel = '.p'
    a, exc = render_fp(f'{sel}{{border-style:solid;{name}: {css}}}')
    if exc is not None and not known_crash(exc):
        return f'`{sel}{{{name}: {css}}}` aborts rendering with {type(exc).__name__}'
    if not out:
        b, _ = render_fp(f'{sel}{{border-style:solid}}')
        if a != b:
            return f'`{name}: {css}` is dropped by the funnel but changes the rendering'
    return None


# ------------------------------------------------------------- ComputedStyle.__missing__: pending values

PENDING_CASES = ('absent', 'inherit', 'initial', 'value', 'pending-valid', 'pending-invalid', 'pending-inherit',
                 'pending-initial')
PENDING_SKIP = ('text_decoration_line', 'text_decoration_color', 'text_decoration_style', 'text_decoration_thickness',
                'page', 'anchor', 'link', 'lang')


def cascaded_from(css):
    import tinycss2
    from weasyprint.css.validation import preprocess_declarations
    return {name: (value, 0) for name, value, _ in
            preprocess_declarations(BASE_URL, tinycss2.parse_blocks_contents(css))}


def style_pair(parent_css, child_css):
    """A real root ComputedStyle and a real child of it, from declaration texts."""
    from weasyprint.css import ComputedStyle
    root = ComputedStyle(None, cascaded_from(parent_css), None, None, None, BASE_URL)
    root.root_style = root
    child = ComputedStyle(root, cascaded_from(child_css), None, None, root, BASE_URL)
    return root, child


def style_value(style, key):
    try:
        return real.canon(style[key]), None
    except RecursionError as exc:
        return 'err:RecursionError', exc
    except Exception as exc:  # noqa: BLE001
        return f'err:{type(exc).__name__}', exc


@__import__('functools').lru_cache(maxsize=None)
def pending_samples(name):
    """(valid non-initial value text, invalid value text) for a longhand, from its own / foreign grammar."""
    from weasyprint.css.properties import INITIAL_VALUES
    key = name.replace('-', '_')
    valid = None
    for atom in G.accepted_singles(name):
        if '(' in atom or atom in ('inherit', 'initial') or any(c in atom for c in '"\''):
            continue
        _, child = style_pair('', f'{name}: {atom}')
        _, plain = style_pair('', '')
        if style_value(child, key)[0] != style_value(plain, key)[0] and not style_value(child, key)[0].startswith('err'):
            valid = atom
            break
    invalid = None
    for atom in ('red', '12px', 'solid', '"x"', '7', 'italic', 'rgb(1, 2, 3)', '3deg'):
        if G.call_validator(name, atom)[0] == 'invalid':
            invalid = atom
            break
    return valid, invalid


def pending_case(name, case, root_is_subject):
    """-> (child css, wire casc, reference css for 'specified') for one cascade shape of `name`."""
    valid, invalid = pending_samples(name)
    if case == 'absent':
        return '', 'absent'
    if case == 'inherit':
        return f'{name}: inherit', 'inherit'
    if case == 'initial':
        return f'{name}: initial', 'initial'
    if case == 'value':
        return f'{name}: {valid}', 'value'
    if case == 'pending-valid':
        return f'--v: {valid}; {name}: var(--v)', ['pending', 'valid']
    if case == 'pending-invalid':
        return f'--v: {invalid}; {name}: var(--v)', ['pending', 'invalid']
    if case == 'pending-inherit':
        return f'--v: inherit; {name}: var(--v)', ['pending', 'inherit']
    return f'--v: initial; {name}: var(--v)', ['pending', 'initial']


def sec_pending(run):
    from weasyprint.css.properties import INHERITED, INITIAL_VALUES
    _, _, _, _, properties = real.mods()
    sec = run.section('computed-pending', 'real ComputedStyle.__missing__ on a root and on a child whose parent has a '
                      'non-initial value, for every longhand x {absent, inherit, initial, value, var() -> valid / '
                      'invalid / inherit / initial}: which of specified / parent / initial is selected, vs the model '
                      '(INHERITED regenerated from the source); non-trivial = a var() case')
    names = [n for n in sorted(properties.PROPERTIES) if n.replace('-', '_') not in PENDING_SKIP
             and n.replace('-', '_') in INITIAL_VALUES]
    known = {}
    for name in names:
        key = name.replace('-', '_')
        valid, invalid = pending_samples(name)
        if valid is None or invalid is None:
            continue
        cases = PENDING_CASES if run.thorough else run.rng.sample(PENDING_CASES, 4) + ['pending-invalid']
        for case in cases:
            for subject_is_root in (False, True):
                child_css, casc = pending_case(name, case, subject_is_root)
                if subject_is_root:
                    subject, _ = style_pair(child_css, '')
                    ref_parent = None
                else:
                    root, subject = style_pair(f'{name}: {valid}', child_css)
                    ref_parent, _ = style_value(root, key)
                got, exc = style_value(subject, key)
                # reference values of the three possible selections, computed by the real code on literal declarations
                if subject_is_root:
                    spec, _ = style_value(style_pair(f'{name}: {valid}', '')[0], key)
                    init, _ = style_value(style_pair(f'{name}: initial', '')[0], key)
                else:
                    init, _ = style_value(style_pair(f'{name}: {valid}', f'{name}: initial')[1], key)
                    spec = ref_parent      # the child's own `valid` value equals the parent's: disambiguate below
                if got.startswith('err:'):
                    impl = got
                elif subject_is_root:
                    impl = 'initial' if got == init else 'specified' if got == spec else f'other:{got[:40]}'
                else:
                    # parent carries `valid`; a specified `valid` on the child computes to the same value, so a
                    # different valid value is used for the specified cases
                    impl = 'initial' if got == init else 'parent' if got == ref_parent else f'other:{got[:40]}'
                    if case in ('value', 'pending-valid'):
                        impl = 'specified' if got == ref_parent else impl
                if init == (spec if subject_is_root else ref_parent):
                    continue        # the property's valid sample computes to its initial value here: ambiguous
                sec.add(sx.line('select', enc(key), not subject_is_root, casc), impl,
                        meta={'name': name, 'case': case, 'root': subject_is_root, 'valid': valid, 'invalid': invalid},
                        nontrivial=case.startswith('pending'),
                        tags=[case, 'inherited' if key in INHERITED else 'not-inherited', impl.split(':')[0]])
    run.extra['pending_known'] = known


def judge_pending(meta):
    """var() = textual substitution at computed-value level: `name: var(--v)` with `--v: T` computes like
    `name: T`; an invalid T leaves the property as if the declaration were absent."""
    name, key = meta['name'], meta['name'].replace('-', '_')
    for text in (meta['invalid'], meta['valid'], 'initial', 'inherit'):
        for subject_is_root in (False, True):
            var_css, lit_css = f'--v: {text}; {name}: var(--v)', f'{name}: {text}'
            if subject_is_root:
                a, exc = style_value(style_pair(var_css, '')[0], key)
                b, _ = style_value(style_pair(lit_css, '')[0], key)
                where = 'on the root element'
            else:
                a, exc = style_value(style_pair(f'{name}: {meta["valid"]}', var_css)[1], key)
                b, _ = style_value(style_pair(f'{name}: {meta["valid"]}', lit_css)[1], key)
                where = f'in a child of an element with {name}: {meta["valid"]}'
            if subject_is_root and text == 'inherit' and a == 'err:TypeError':
                continue     # known finding var-inherit-on-root-typeerror
            if a != b:
                return (f'`{name}: var(--v)` with `--v: {text}` computes to {a} {where}, the textual substitution '
                        f'`{name}: {text}` computes to {b}')
    return None


# ------------------------------------------------------------------------------------------- var()

VAR_NAMES = ['a', 'b', 'c', 'd', 'e']


def var_value_text(rng, depth, names, allow_sibling_fn):
    """A value text mixing plain tokens, functions and var() references to `names`."""
    parts = []
    for _ in range(rng.choice([1, 1, 2, 3])):
        r = rng.random()
        if r < 0.35 and names:
            name = rng.choice(names)
            r2 = rng.random()
            if r2 < 0.55:
                parts.append(f'var(--{name})')
            elif r2 < 0.80:
                parts.append(f'var(--{name}, {var_value_text(rng, depth - 1, names, allow_sibling_fn) if depth > 0 else "1px"})')
            elif r2 < 0.88:
                parts.append(f'var(--{name}, 1px, 2px)')
            elif r2 < 0.92:
                parts.append(f'var( --{name} )')
            elif r2 < 0.96:
                parts.append(f'VAR(--{name})')
            else:
                parts.append(rng.choice([f'var(--{name},)', 'var()', f'var({name})', f'var(--{name} 1px)',
                                         f'var(--{name}, , 1px)', 'var(--undefined, fb)', 'var(--undefined)',
                                         f'var(-{name})', f'var(-{name}, 1px)', 'var(--)', 'var(-)', f'var("--{name}")',
                                         f'var(1px, --{name})', f'var(, --{name})', f'var(--{name.upper()})']))
        elif r < 0.60 and depth > 0:
            fname = rng.choice(['f', 'rgb', 'calc', 'translate', 'G'])
            args = [var_value_text(rng, depth - 1, names, allow_sibling_fn) for _ in range(rng.choice([1, 2, 3]))]
            if not allow_sibling_fn:
                # keep sibling function arguments var()-bearing or absent (the TypeError finding otherwise)
                pass
            parts.append(f'{fname}({rng.choice([", ", " ", ","]).join(args)})')
        else:
            parts.append(rng.choice(['1px', 'red', '2', '"s"', '[x]', '(y)', '10%', 'auto', ',', '/', 'url(u)']))
    return ' '.join(parts)


def build_env(rng, cyclic):
    """Custom properties --a … --e; acyclic: a value only refers to later names."""
    env = {}
    for i, name in enumerate(VAR_NAMES):
        if rng.random() < 0.2:
            continue        # undefined
        later = VAR_NAMES[i + 1:] + ['undefined']
        refs = VAR_NAMES if cyclic else later
        env[name] = var_value_text(rng, 2, refs, True)
    return env


def real_style(env_texts):
    """A real root ComputedStyle whose cascaded custom properties come out of the real funnel."""
    import tinycss2
    from weasyprint.css import ComputedStyle
    from weasyprint.css.validation import preprocess_declarations
    css = '; '.join(f'--{k}: {v}' for k, v in env_texts.items())
    cascaded = {}
    for name, value, _ in preprocess_declarations(BASE_URL, tinycss2.parse_blocks_contents(css)):
        cascaded[name] = (value, 0)
    style = ComputedStyle(None, cascaded, None, None, None, BASE_URL)
    wire = [[enc(name), [real.tk_wire(t) for t in value]] for name, (value, _) in cascaded.items()]
    return style, wire


def resolve_out(style, tok):
    from weasyprint.css import resolve_var
    try:
        result = resolve_var(style, tok, None)
    except RecursionError as exc:
        return 'err:RecursionError', exc
    except Exception as exc:  # noqa: BLE001
        return real.fail_atom(exc), exc
    if result is None:
        return 'none', None
    return 'ok ' + real.toks_out(result), None


def sec_var(run):
    _, utils, _, _, _ = real.mods()
    sec = run.section('var', 'parse_function / check_var_function / resolve_var by direct call on generated token '
                      'trees and environments of custom properties (real ComputedStyle built by the real funnel; '
                      'acyclic, cyclic, undefined, fallbacks, nested functions, malformed var()) vs the model; '
                      'non-trivial = the token contains a detectable var()')
    old_limit = sys.getrecursionlimit()
    sys.setrecursionlimit(400)
    try:
        for _ in range(run.n(1000, 10000)):
            cyclic = run.rng.random() < 0.12
            env_texts = build_env(run.rng, cyclic)
            style, env_wire = real_style(env_texts)
            for _ in range(4):
                text = var_value_text(run.rng, 3, VAR_NAMES + ['undefined'], True)
                for tok in tokens_of(text):
                    wire = real.tk_wire(tok)
                    is_var = bool(utils.check_var_function(tok))
                    if tok.type == 'function':
                        sec.add(sx.line('check-var', wire), 'true' if is_var else 'false', nontrivial=is_var,
                                meta={'token': real.tok_text(tok)}, tags=['check-var'])
                        parsed = utils.parse_function(tok)
                        sec.add(sx.line('parse-function', wire),
                                'none' if parsed is None else f'ok {enc(parsed[0])} {real.toks_out(parsed[1])}',
                                nontrivial=parsed is not None, meta={'token': real.tok_text(tok)},
                                tags=['parse-function'])
                    impl, exc = resolve_out(style, tok)
                    sec.add(sx.line('resolve', FUEL, env_wire, wire), impl, nontrivial=is_var,
                            meta={'env': env_texts, 'token': real.tok_text(tok)},
                            tags=['cyclic-env' if cyclic else 'acyclic-env', impl.split(' ')[0]])
    finally:
        sys.setrecursionlimit(old_limit)


# ------------------------------------------------------------------------------------ document level

PAGE_CSS = '@page{size:300px 200px;margin:0}body{margin:0;font-size:16px;line-height:20px}'
DOC_BODY = ('<div class=a><p class=p>ab cd</p><ul class=u><li>one</li><li class=l>two</li></ul></div>'
            '<section class=s><span class=x>xx</span> <b class=y>yy</b></section>')
SELECTORS = ['div', '.a', 'p', '.p', 'ul', '.u', 'li', '.l', 'section', '.s', 'span', '.x', '.y', 'body']
LAYOUT_PROPS = ['width', 'height', 'margin', 'margin-left', 'padding', 'padding-top', 'border', 'border-left',
                'border-width', 'border-style', 'border-color', 'color', 'background-color', 'font-size',
                'font-weight', 'font-style', 'line-height', 'text-align', 'text-indent', 'display', 'float',
                'list-style', 'list-style-type', 'text-decoration', 'outline', 'border-radius', 'columns',
                'flex-flow', 'gap', 'opacity', 'letter-spacing', 'word-wrap', 'page-break-before', 'position',
                'min-width', 'max-width', 'top', 'left', 'column-rule', 'visibility', 'box-sizing']


# every parent carries non-initial values, so that a longhand wrongly left to `inherit` shows
PARENTS_CSS = ('body,div,ul,section{border:3px dotted blue;outline:2px dashed green;column-rule:1px solid red;'
               'list-style:square inside;border-radius:7px;margin:5px;padding:3px}')


def render_fp(css, body=DOC_BODY):
    try:
        return real.digest(real.fingerprint(docs.render(f'<style>{PAGE_CSS}{css}</style>{body}'))), None
    except RecursionError as exc:
        return 'err:RecursionError', exc
    except Exception as exc:  # noqa: BLE001
        return f'err:{type(exc).__name__}', exc


def valid_declaration(rng, restrict=None):
    for _ in range(50):
        name = rng.choice(restrict or LAYOUT_PROPS)
        singles = G.accepted_singles(name)
        if not singles:
            continue
        text = ' '.join(rng.choice(singles) for _ in range(rng.choice([1, 1, 1, 2])))
        if 'attr(' in text or 'var(' in text or 'url(' in text:
            continue
        import re
        if re.search(r'\d{4}|\de\d|e\+|e-', text):
            continue        # huge numbers make layout arbitrarily slow (column-count: 99999999999)
        if G.call_validator(name, text)[0] == 'ok':
            return name, text
    return 'color', 'red'


def invalid_declaration(rng):
    """A declaration the real funnel drops (checked), of any kind, that cannot swallow its neighbours."""
    props, shorthands = G.all_names()
    for _ in range(300):
        r = rng.random()
        unknown = r < 0.2
        name = f'unknown-prop-{rng.choice("abc")}' if unknown else rng.choice(
            LAYOUT_PROPS if r < 0.7 else props + shorthands)
        text = G.value_text(rng, name if not unknown else 'width', rng.choice(['other', 'soup', 'adversarial']))
        if any(c in text for c in ';{}\\') or 'var(' in text.lower() or '/*' in text or '"' in text or "'" in text \
                or 'url(' in text.lower() or '!' in text or '\n' in text or '<!--' in text or '-->' in text:
            continue
        if text.count('(') != text.count(')') or text.count('[') != text.count(']'):
            continue
        if not G.tokens_of(text) or any(t.type == 'error' for t in G.parse_value(text)):
            continue
        written = name if unknown else G.decl_name(rng, name)
        if written.startswith('--'):
            continue
        import tinycss2
        decls = tinycss2.parse_blocks_contents(f'{written}: {text}')
        if len(decls) != 1 or decls[0].type != 'declaration':
            continue
        from weasyprint.css.validation import preprocess_declarations
        try:
            if list(preprocess_declarations(BASE_URL, decls)):
                continue
        except Exception:  # noqa: BLE001 - crashing declarations belong to the funnel section
            continue
        return f'{written}: {text}'
    return 'color: 12px'


def sec_docs(run):
    docs.quiet()
    sec = run.section('documents', 'rendered metamorphic pairs (layout fingerprint = geometry + computed styles of '
                      'every box): stylesheet with invalid declarations injected vs without; shorthand vs the longhand '
                      'set produced by the model expansion; a length vs the same length in another absolute unit; '
                      'var() vs the substitution computed by the model; echo of the reference digest')
    rng = run.rng
    known = {}
    # (1) invalid declarations vanish
    for _ in range(run.n(100, 1500)):
        rules = []
        for _ in range(rng.choice([1, 2, 3])):
            decls = ['%s: %s' % valid_declaration(rng) for _ in range(rng.choice([1, 2, 3]))]
            rules.append((rng.choice(SELECTORS), decls))
        clean = ''.join(f'{sel}{{{"; ".join(decls)}}}' for sel, decls in rules)
        dirty_rules = []
        for sel, decls in rules:
            decls = list(decls)
            for _ in range(rng.choice([1, 1, 2])):
                decls.insert(rng.randrange(len(decls) + 1), invalid_declaration(rng))
            dirty_rules.append(f'{sel}{{{"; ".join(decls)}}}')
        if rng.random() < 0.3:
            dirty_rules.insert(rng.randrange(len(dirty_rules) + 1), f'{rng.choice(SELECTORS)}{{{invalid_declaration(rng)}}}')
        dirty = ''.join(dirty_rules)
        want, exc0 = render_fp(clean)
        got, exc = render_fp(dirty)
        finding = known_crash(exc) or known_crash(exc0)
        if finding:
            known[finding] = known.get(finding, 0) + 1
            continue
        sec.add(sx.line('echo', want), got, meta={'kind': 'invalid-vanish', 'clean': clean, 'dirty': dirty},
                tags=['invalid-vanish'])
    # (2) units
    conversions = [('in', 1), ('pt', 72), ('pc', 6), ('cm', Fraction(254, 100)), ('mm', Fraction(254, 10)),
                   ('q', Fraction(1016, 10)), ('px', 96)]
    for _ in range(run.n(60, 800)):
        prop = rng.choice(['width', 'margin-left', 'padding-top', 'font-size', 'border-left-width', 'text-indent',
                           'height', 'letter-spacing'])
        inches = Fraction(rng.choice([1, 2, 3, 5]), rng.choice([1, 2, 4, 8]))
        (u1, k1), (u2, k2) = rng.sample(conversions, 2)
        def spell(k, u):
            v = inches * k
            return f'{float(v):.10g}{u}'
        pre = 'border-left-style:solid;' if prop.startswith('border') else ''
        sel = rng.choice(['.p', '.a', 'li', '.x'])
        a, _ = render_fp(f'{sel}{{{pre}{prop}:{spell(k1, u1)}}}')
        b, _ = render_fp(f'{sel}{{{pre}{prop}:{spell(k2, u2)}}}')
        exact = all(float(inches * k) * f == 96 * float(inches) for k, f in ((k1, _factor(u1)), (k2, _factor(u2))))
        if not exact:
            continue     # float rounding of the conversion differs between the two spellings: not comparable exactly
        sec.add(sx.line('echo', a), b, meta={'kind': 'units', 'prop': prop, 'a': spell(k1, u1), 'b': spell(k2, u2)},
                tags=['units'])
    # (3) shorthand = longhands given by the model
    shorthand_cases = []
    for _ in range(run.n(90, 1200)):
        key = rng.choice(['margin', 'padding', 'border-width', 'border-style', 'border-color', 'border-top',
                          'border-left', 'outline', 'border', 'list-style', 'border-radius', 'column-rule'])
        shorthand_cases.append(shorthand_case(rng, key))
    shorthand_cases = [c for c in shorthand_cases if c]
    outs = lean.run_driver(PROP.driver, [c['line'] for c in shorthand_cases])
    for case, out in zip(shorthand_cases, outs):
        longhands = model_longhands_css(case, out)
        if longhands is None:
            continue
        sel = rng.choice(['.p', '.a', 'li', 'ul', '.x'])
        pre = case.get('pre', '')
        a, _ = render_fp(f'{PARENTS_CSS}{sel}{{{pre}{case["key"]}: {case["css"]}}}')
        b, _ = render_fp(f'{PARENTS_CSS}{sel}{{{pre}{longhands}}}')
        sec.add(sx.line('echo', b), a, meta={'kind': 'shorthand', 'key': case['key'], 'css': case['css'],
                                             'longhands': longhands, 'sel': sel, 'pre': pre},
                tags=['shorthand:' + case['key']])
    # (4) var() = substitution given by the model
    var_cases = []
    for _ in range(run.n(90, 1200)):
        case = var_doc_case(rng)
        if case:
            var_cases.append(case)
    outs = lean.run_driver(PROP.driver, [c['line'] for c in var_cases])
    for case, out in zip(var_cases, outs):
        if not out.startswith('ok '):
            continue
        text = render_tokens(sx.loads_line(out[3:])[0])
        env_css = ''.join(f'--{k}: {v};' for k, v in case['env'].items())
        a, exc = render_fp(f'{case["sel"]}{{{env_css}{case["prop"]}: {case["value"]}}}')
        b, _ = render_fp(f'{case["sel"]}{{{env_css}{case["prop"]}: {text}}}')
        finding = known_crash(exc)
        if finding:
            known[finding] = known.get(finding, 0) + 1
            continue
        sec.add(sx.line('echo', b), a, meta={'kind': 'var', **{k: case[k] for k in ('env', 'prop', 'value', 'sel')},
                                             'substituted': text}, tags=['var'])
    # (5) unit spellings: a length the funnel keeps renders like its px spelling; one it drops, like nothing
    from weasyprint.css.utils import LENGTHS_TO_PIXELS
    import tinycss2
    from weasyprint.css.validation import preprocess_declarations
    for _ in range(run.n(40, 600)):
        prop = rng.choice(['width', 'margin-left', 'padding-top', 'font-size', 'border-left-width', 'text-indent',
                           'height', 'letter-spacing', 'line-height', 'top', 'column-gap', 'outline-width'])
        unit = rng.choice(sorted(LENGTHS_TO_PIXELS))
        written = rng.choice([unit, unit.upper(), unit.capitalize(), unit.upper(), unit[:-1] + unit[-1].upper()])
        inches = Fraction(rng.choice([1, 2, 3]), rng.choice([1, 2, 4]))
        k = dict(conversions)[unit]
        if float(inches * k) * LENGTHS_TO_PIXELS[unit] != 96 * float(inches):
            continue
        value = f'{float(inches * k):.10g}{written}'
        pre = 'border-left-style:solid;outline-style:solid;position:relative;'
        sel = rng.choice(['.p', '.a', 'li'])
        try:
            kept = bool(list(preprocess_declarations(BASE_URL, tinycss2.parse_blocks_contents(f'{prop}: {value}'))))
        except Exception:  # noqa: BLE001 - reported by the funnel section
            continue
        reference = f'{prop}:{float(96 * inches):.10g}px' if kept else ''
        want, _ = render_fp(f'{sel}{{{pre}{reference}}}')
        got, _ = render_fp(f'{sel}{{{pre}{prop}:{value}}}')
        sec.add(sx.line('echo', want), got, meta={'kind': 'unit-spelling', 'prop': prop, 'value': value, 'sel': sel,
                                                  'pre': pre, 'kept': kept},
                tags=['unit-spelling:kept' if kept else 'unit-spelling:dropped'])
    # (6) var() whose substituted value is invalid for the property = the literal invalid declaration = nothing
    from weasyprint.css.properties import INHERITED
    inherited = [n.replace('_', '-') for n in sorted(INHERITED)]
    for _ in range(run.n(50, 800)):
        # inherited properties only: for the others CSS makes a var() that is invalid at computed-value time fall
        # back to the initial value even when a lower-priority declaration exists (css-variables-1 §3.1)
        prop = rng.choice(inherited)
        try:
            valid, invalid = pending_samples(prop)
        except Exception:  # noqa: BLE001
            continue
        if valid is None or invalid is None or prop.replace('-', '_') in PENDING_SKIP:
            continue
        parent = f'.a, ul, section{{{prop}: {valid}}}'
        sel = rng.choice(['.p', 'li', '.x'])
        want, _ = render_fp(f'{parent}{sel}{{{prop}: {invalid}}}')
        got, exc = render_fp(f'{parent}body{{--v: {invalid}}}{sel}{{{prop}: var(--v)}}')
        if known_crash(exc):
            continue
        sec.add(sx.line('echo', want), got, meta={'kind': 'var-invalid', 'prop': prop, 'valid': valid,
                                                  'invalid': invalid, 'sel': sel}, tags=['var-invalid'])
    run.extra['known_crashes_skipped_in_documents'] = known


def _factor(unit):
    from weasyprint.css.utils import LENGTHS_TO_PIXELS
    return LENGTHS_TO_PIXELS[unit]


def shorthand_case(rng, key):
    """A shorthand value accepted by the real expander + the protocol line asking the model for its expansion."""
    from tinycss2.color4 import parse_color
    _, utils, _, expanders, properties = real.mods()
    intern = real.Interner()
    if key in ('margin', 'padding', 'border-width', 'border-style', 'border-color'):
        names = [n for n, _ in expanders.expand_four_sides(tuple(tokens_of('var(--v)')), key, BASE_URL)]
        singles = [s for s in G.accepted_singles(names[0]) if '(' not in s]
        atoms = [rng.choice(singles) for _ in range(rng.choice([1, 2, 3, 4]))]
        tokens = tokens_of(' '.join(atoms))
        line = sx.line('four', enc(key), False, [f't{i}' for i in range(len(tokens))], side_table(names, tokens, intern))
        pre = 'border-style:solid;' if key in ('border-width', 'border-color') else ''
    elif key in ('border-top', 'border-left', 'outline', 'border', 'column-rule'):
        atoms = rng.sample(['red', 'blue', '#0f0'], 1) * rng.choice([0, 1]) + \
            rng.sample(['thin', 'thick', '3px', '0'], 1) * rng.choice([0, 1]) + \
            rng.sample(['solid', 'dotted', 'double', 'none'], 1) * rng.choice([0, 1, 1])
        rng.shuffle(atoms)
        if not atoms:
            atoms = ['solid']
        tokens = tokens_of(' '.join(atoms))
        wire = [[parse_color(t) is not None, properties.border_width([t]) is not None,
                 properties.border_style([t]) is not None, f't{i}'] for i, t in enumerate(tokens)]
        if key == 'border':
            names = [f'border{s}{x}' for s in ('-top', '-right', '-bottom', '-left') for x in ('-width', '-color', '-style')]
        else:
            names = [f'{key}{x}' for x in ('-width', '-color', '-style')]
        line = sx.line('border' if key == 'border' else 'side', enc(key), 'plain', wire, side_table(names, tokens, intern))
        pre = 'columns:2;' if key == 'column-rule' else ''
    elif key == 'list-style':
        atoms = rng.sample(['none', 'inside', 'outside', 'square', 'decimal', 'none'], rng.choice([1, 2, 3]))
        tokens = tokens_of(' '.join(atoms))
        wire = [[utils.get_keyword(t) == 'none', properties.list_style_image([t], BASE_URL) is not None,
                 properties.list_style_position([t]) is not None, properties.list_style_type([t]) is not None, f't{i}']
                for i, t in enumerate(tokens)]
        names = ['list-style-type', 'list-style-position', 'list-style-image']
        line = sx.line('list-style', 'list-style', 'plain', wire, side_table(names, tokens, intern))
        pre = ''
    else:  # border-radius
        pool = ['1px', '4px', '10%', '0', '1em']
        atoms = [rng.choice(pool) for _ in range(rng.choice([1, 2, 3, 4]))]
        if rng.random() < 0.5:
            atoms += ['/'] + [rng.choice(pool) for _ in range(rng.choice([1, 2, 3, 4]))]
        tokens = tokens_of(' '.join(atoms))
        wire = ['slash' if (t.type == 'literal' and t.value == '/') else [f't{i}', f't{i}'] for i, t in enumerate(tokens)]
        line = sx.line('radius', 'border-radius', 'plain', wire)
        pre = 'border:2px solid;'
    return {'key': key, 'css': ' '.join(atoms), 'tokens': [real.tok_text(t) for t in tokens], 'line': line, 'pre': pre}


def model_longhands_css(case, out):
    """The model's expansion `ok (name value) …` as longhand declarations text (token ids mapped back to text)."""
    if not out.startswith('ok'):
        return None
    decls = []
    for item in sx.loads_line(out[2:]):
        name, value = item[0], item[1]
        if isinstance(value, list):       # (pair tA tB)
            text = ' '.join(case['tokens'][int(v[1:])] for v in value[1:])
        elif value.startswith('kw:'):
            text = value[3:]
        else:
            continue
        decls.append((name, text))
    if case['key'] in ('margin', 'padding', 'border-width', 'border-style', 'border-color', 'border-top',
                       'border-left', 'outline', 'border', 'column-rule', 'list-style'):
        # values are interned validation atoms: recover the token text through the table order
        return model_longhands_from_table(case, out)
    return '; '.join(f'{n}: {t}' for n, t in decls)


def model_longhands_from_table(case, out):
    line = sx.loads_line(case['line'])
    table = line[-1]
    back = {}
    for (name, tid), result in table:
        if isinstance(result, list):
            back.setdefault((name, result[1]), case['tokens'][int(tid[1:])])
    decls = []
    for item in sx.loads_line(out[2:]):
        name, value = item[0], item[1]
        if value.startswith('kw:'):
            decls.append(f'{name}: {value[3:]}')
        elif (name, value) in back:
            decls.append(f'{name}: {back[(name, value)]}')
        else:
            return None
    return '; '.join(decls)


def render_tokens(tree):
    """Model token trees (wire form) back to CSS text."""
    out = []
    for t in tree:
        if t == 'ws':
            out.append(' ')
        elif t == 'comma':
            out.append(',')
        elif t[0] in ('id', 'leaf'):
            out.append(dec(t[1]) + ' ')
        else:
            out.append(dec(t[1]) + '(' + render_tokens(t[3]) + ') ')
    return ''.join(out)


def dec(atom):
    import re
    if atom == '%;':
        return ''
    return re.sub(r'%([0-9a-fA-F]*);', lambda m: chr(int(m.group(1), 16)) if m.group(1) else '', atom)


def var_doc_case(rng):
    """A property whose value uses var() over an acyclic environment with comma-free fallbacks and no plain
    sibling function (the two known findings are replayed separately)."""
    prop, value_pool = rng.choice([
        ('width', ['10px', '50%', '5em']), ('margin-left', ['3px', '1em', '0']), ('color', ['red', 'blue']),
        ('padding', ['1px', '2px 4px', '1px 2px 3px']), ('border', ['1px solid', 'thick', '2px dotted red']),
        ('font-size', ['10px', '20px']), ('transform', ['translate(10px, 5px)', 'rotate(10deg)'])])
    env = {}
    names = ['a', 'b', 'c']
    for i, name in enumerate(names):
        if rng.random() < 0.25:
            continue
        if rng.random() < 0.4 and i + 1 < len(names):
            env[name] = f'var(--{names[i + 1]}, {rng.choice(value_pool)})'
        else:
            env[name] = rng.choice(value_pool)
    r = rng.random()
    ref = rng.choice(names)
    if prop == 'transform' and r < 0.5:
        value = f'translate(var(--{ref}x, 7px), 2px)'
    elif r < 0.7:
        value = f'var(--{ref}, {rng.choice(value_pool)})'
    else:
        value = f'var(--{ref})'
    style, env_wire = real_style(env)
    tokens = tokens_of(value)
    return {'env': env, 'prop': prop, 'value': value, 'sel': rng.choice(['.p', '.a', 'li']),
            'line': sx.line('subst', FUEL, env_wire, [real.tk_wire(t) for t in tokens])}


# ------------------------------------------------------------------------------- findings (replays)

def _subprocess_render(css, limit=None):
    """Render in an isolated interpreter (a RecursionError must not disturb this process)."""
    code = (
        'import sys, logging\n'
        f'sys.path.insert(0, {str(REPO)!r})\n'
        f'sys.path.insert(0, {os.path.dirname(os.path.dirname(os.path.abspath(__file__)))!r})\n'
        + (f'sys.setrecursionlimit({limit})\n' if limit else '') +
        'logging.getLogger("weasyprint").setLevel(logging.CRITICAL)\n'
        'from harness import docs\n'
        'try:\n'
        f'    docs.render({css!r})\n'
        '    print("OK")\n'
        'except RecursionError:\n'
        '    print("EXC RecursionError")\n'
        'except BaseException as exc:\n'
        '    print("EXC", type(exc).__name__)\n')
    proc = subprocess.run([sys.executable, '-c', code], capture_output=True, text=True, timeout=300)
    lines = proc.stdout.strip().splitlines()
    return lines[-1] if lines else f'EXC exit{proc.returncode}'


def render_raises(css, cls):
    try:
        docs.render(f'<style>{css}</style><p>x</p>')
    except Exception as exc:  # noqa: BLE001
        return type(exc).__name__ == cls
    return False


def replay_var_self_cycle():
    out = _subprocess_render('<style>p{--a:var(--a);width:var(--a)}</style><p>x</p>', limit=600)
    return out == 'EXC RecursionError'


def replay_var_fallback_commas():
    from weasyprint.formatting_structure import boxes
    document = docs.render('<style>p{font-family:var(--f, Arial, sans-serif)}</style><p>x</p>')
    reference = docs.render('<style>p{font-family:Arial, sans-serif}</style><p>x</p>')

    def family(doc):
        for box in doc.pages[0]._page_box.descendants():
            if box.element_tag == 'p' and isinstance(box, boxes.BlockBox):
                return box.style['font_family']
    return family(document) != family(reference)


def render_raises(css, cls):
    try:
        docs.render(f'<style>{css}</style><p>x</p>')
    except Exception as exc:  # noqa: BLE001
        return type(exc).__name__ == cls
    return False


FINDING_REPLAYS = {
    'var-inherit-on-root-typeerror': lambda: render_raises('html{--a:inherit;width:var(--a)}', 'TypeError'),
    'var-self-cycle-recursion': replay_var_self_cycle,
    'var-fallback-commas-dropped': replay_var_fallback_commas,
}


# ------------------------------------------------------------------------------------------ judging

def judge_funnel_text(css):
    """The clauses of C07 on the real funnel, stated directly: it returns, and its output is the concatenation
    of its outputs on the singletons."""
    import tinycss2
    intern = real.Interner()
    decls = tinycss2.parse_blocks_contents(css)
    out, exc = real.funnel_out(decls, intern)
    if exc is not None:
        if known_crash(exc):
            return None
        cls, fn = real.innermost(exc)
        return f'preprocess_declarations raised {cls} (in {fn}) on `{css}`: a malformed declaration aborts the stylesheet'
    singles = []
    for d in decls:
        one, exc1 = real.funnel_out([d], intern)
        if exc1 is not None:
            return f'preprocess_declarations raised {type(exc1).__name__} on one declaration of `{css}`'
        singles.append(one[3:] if one.startswith('ok ') else '')
    joined = ('ok ' + ' '.join(s for s in singles if s)).strip()
    if joined != out:
        return f'output for `{css}` is not the concatenation of the outputs for its declarations: {out} vs {joined}'
    return None


def judge_expander(key, css):
    """Clauses on a registered expander: only InvalidValues may be raised; the result names exactly the longhands
    of the shorthand, once each; side/corner mapping of the 1-to-4 value shorthands."""
    _, utils, _, expanders, properties = real.mods()
    tokens = tuple(tokens_of(css))
    if not tokens or key not in expanders.EXPANDERS:
        return None
    kind, result, exc = real.outcome_list(lambda: expanders.EXPANDERS[key](tokens, key, BASE_URL))
    if kind != 'ok':
        if result == 'invalid' or known_crash(exc):
            return None
        return f'{key}: {css} raised {result} (only InvalidValues is funnelled)'
    names = [n for n, _ in result]
    if len(set(names)) != len(names):
        return f'{key}: {css} yields a longhand twice: {names}'
    unknown = [n for n in names if n not in properties.PROPERTIES]
    if unknown:
        return f'{key}: {css} yields names that are not longhand properties: {unknown}'
    if key == 'border':
        want = [f'border-{side}-{part}' for side in ('top', 'right', 'bottom', 'left')
                for part in ('width', 'color', 'style')]
        if sorted(names) != sorted(want):
            return f'border: {css} yields {names}: border stands for the width, colour and style of all four sides'
    declared, _ = real.closure_of(expanders.EXPANDERS[key])
    if declared is not None:
        want = [real.actual_name(key, n) for n in declared]
        if names != want:
            return f'{key}: {css} yields {names}, the shorthand stands for {want}'
    # "omitted parts reset to their initial value": a longhand for which no token of the value is a valid
    # component on its own was omitted (shorthands that synthesise tokens are excluded)
    if (declared is not None and key not in SYNTHESISING and not real.has_var(tokens)
            and utils.get_single_keyword(tokens) not in ('inherit', 'initial')):
        for long_name, value in result:
            given = False
            for t in tokens:
                try:
                    properties.validate_non_shorthand([t], long_name, BASE_URL, required=True)
                    given = True
                except Exception:  # noqa: BLE001
                    pass
            if not given and len(tokens) < 3 and value != 'initial':
                return (f'{key}: {css} gives {long_name} the value {real.canon(value)} although no component of '
                        f'the value is a {long_name}: omitted longhands must be reset to initial')
    what = judge_permutations(key, tokens, css)
    if what:
        return what
    if key == 'border-radius' and real.head_of(tokens) == 'plain':
        what = judge_border_radius(tokens, result, css)
        if what:
            return what
    if key == 'list-style' and real.head_of(tokens) == 'plain':
        what = judge_list_style(tokens, result, css)
        if what:
            return what
    if expanders.EXPANDERS[key].__name__ == 'expand_four_sides' and not real.has_var(tokens):
        values = [real.canon(v) for _, v in result]
        singles = []
        for t in tokens:
            try:
                (_, v), = properties.validate_non_shorthand([t], names[0], BASE_URL, required=True)
            except Exception:  # noqa: BLE001
                return f'{key}: {css} accepted although `{real.tok_text(t)}` alone is not a valid component'
            singles.append(real.canon(v))
        k = len(singles)
        want = [singles[0], singles[1 % k] if k > 1 else singles[0],
                singles[2] if k > 2 else singles[0], singles[3] if k > 3 else (singles[1] if k > 1 else singles[0])]
        if k > 4 or values != want:
            return f'{key}: {css} maps to top/right/bottom/left = {values}, CSS says {want}'
    return None


# shorthands whose grammar is `a || b || c` on single tokens: the components may come in any order
ORDER_FREE = ('columns', 'flex-flow', 'border-top', 'border-right', 'border-bottom', 'border-left', 'border', 'outline',
              'column-rule', 'list-style', 'text-decoration')


def expansion_dict(key, tokens):
    """The registered expander as {longhand: canonical value}, 'invalid', or 'err:Class'."""
    _, _, _, expanders, _ = real.mods()
    kind, result, exc = real.outcome_list(lambda: expanders.EXPANDERS[key](tuple(tokens), key, BASE_URL))
    if kind != 'ok':
        return result
    return {name: real.canon(value) for name, value in result}


def judge_permutations(key, tokens, css):
    """`||` grammars: every order of the components of a value means the same set of longhands (css-values-3 §2.3);
    in particular if one order is accepted, all are."""
    import itertools
    if key not in ORDER_FREE or not 2 <= len(tokens) <= 4 or real.has_var(tokens):
        return None
    if any(t.type == 'literal' for t in tokens):
        return None
    outcomes = []
    for perm in itertools.permutations(range(len(tokens))):
        outcomes.append((perm, expansion_dict(key, [tokens[i] for i in perm])))
    accepted = [(perm, out) for perm, out in outcomes if isinstance(out, dict)]
    if not accepted:
        return None
    ref_perm, ref = accepted[0]
    for perm, out in outcomes:
        if out != ref:
            spell = lambda p: ' '.join(real.tok_text(tokens[i]) for i in p)     # noqa: E731
            return (f'`{key}: {spell(ref_perm)}` expands to {ref} but the same components in another order, '
                    f'`{key}: {spell(perm)}`, give {out}: shorthand components are order independent')
    return None


def judge_shorthand_longhands(key, css):
    """A shorthand renders like the longhand declarations obtained by giving each component to the longhand that
    accepts it (independent reference: assignment by the longhand validators alone, no expander involved)."""
    _, _, _, expanders, properties = real.mods()
    tokens = tokens_of(css)
    declared, _ = real.closure_of(expanders.EXPANDERS[key])
    if key not in ORDER_FREE or declared is None or not 1 <= len(tokens) <= 3 or real.has_var(tokens):
        return None
    names = [real.actual_name(key, n) for n in declared]
    accepts = []
    for t in tokens:
        ok = []
        for n in names:
            try:
                properties.validate_non_shorthand([t], n, BASE_URL, required=True)
                ok.append(n)
            except Exception:  # noqa: BLE001
                pass
        accepts.append(ok)
    # a perfect assignment token -> distinct longhand; ambiguous tokens (auto, none) take what is left
    import itertools
    assignments = [a for a in itertools.product(*accepts) if len(set(a)) == len(a)] if all(accepts) else []
    if not assignments:
        return None
    texts = {real.tok_text(t) for t in tokens}
    if len(assignments) > 1 and len(texts) == len(tokens):
        # several assignments of distinct tokens: only acceptable when they are all ambiguous in the same way
        if not all(set(a) == set(assignments[0]) for a in assignments):
            return None
    given = dict(zip(assignments[0], tokens))
    longhands = '; '.join(f'{n}: {real.tok_text(given[n]) if n in given else "initial"}' for n in names)
    sel = 'ul' if key == 'list-style' else '.a'
    pre = 'column-gap:0;' if key in ('columns', 'column-rule') else ''
    pre += 'columns:2;' if key == 'column-rule' else ''
    pre += 'display:flex;' if key == 'flex-flow' else ''
    a, exc = render_fp(f'{PARENTS_CSS}{sel}{{{pre}{key}: {css}}}')
    b, _ = render_fp(f'{PARENTS_CSS}{sel}{{{pre}{longhands}}}')
    if a != b and not known_crash(exc):
        return f'`{key}: {css}` does not render like its longhands `{longhands}` ({a} vs {b})'
    return None


def fill4(values):
    """CSS 1-to-4 rule (top/right/bottom/left or top-left/top-right/bottom-right/bottom-left)."""
    k = len(values)
    return [values[0], values[1 % k] if k > 1 else values[0], values[2] if k > 2 else values[0],
            values[3] if k > 3 else (values[1] if k > 1 else values[0])]


def judge_border_radius(tokens, result, css):
    """css-backgrounds: horizontal radii before '/', vertical after (default: the same), each filled 1-to-4."""
    _, utils, _, _, _ = real.mods()
    slash = [i for i, t in enumerate(tokens) if t.type == 'literal' and t.value == '/']
    if len(slash) > 1:
        return f'border-radius: {css} accepted with two "/"'
    h = list(tokens[:slash[0]]) if slash else list(tokens)
    v = list(tokens[slash[0] + 1:]) if slash else list(h)
    if not 1 <= len(h) <= 4 or not 1 <= len(v) <= 4:
        return f'border-radius: {css} accepted with {len(h)} / {len(v)} radii'
    want = [(utils.get_length(a, negative=False, percentage=True), utils.get_length(b, negative=False, percentage=True))
            for a, b in zip(fill4(h), fill4(v))]
    got = [value for _, value in result]
    if [real.canon(w) for w in want] != [real.canon(g) for g in got]:
        return (f'border-radius: {css} gives corners (tl, tr, br, bl) = {[real.canon(g) for g in got]}, '
                f'CSS says {[real.canon(w) for w in want]}')
    return None


def judge_list_style(tokens, result, css):
    """CSS 2.1 12.5.1: a `none` sets whichever of type / image is not otherwise specified."""
    _, utils, _, _, properties = real.mods()
    nones = [t for t in tokens if utils.get_keyword(t) == 'none']
    types = [t for t in tokens if utils.get_keyword(t) != 'none' and properties.list_style_image([t], BASE_URL) is None
             and properties.list_style_position([t]) is None and properties.list_style_type([t]) is not None]
    images = [t for t in tokens if utils.get_keyword(t) != 'none'
              and properties.list_style_image([t], BASE_URL) is not None]
    room = (0 if types else 1) + (0 if images else 1)
    if len(nones) > room:
        return f'list-style: {css} accepted with {len(nones)} none for {room} free longhand(s)'
    got = dict(result)
    want_type = real.canon(properties.list_style_type([types[0]])) if types else (
        real.canon(nones[-1].value) if nones else 'kw:initial')      # the ident as written (`NONE` stays `NONE`)
    want_image = real.canon(properties.list_style_image([images[0]], BASE_URL)) if images else (
        real.canon(('none', None)) if len(nones) >= (2 if not types else 1) else 'kw:initial')
    if real.canon(got.get('list-style-type')) != want_type or real.canon(got.get('list-style-image')) != want_image:
        return (f'list-style: {css} gives type={real.canon(got.get("list-style-type"))} image='
                f'{real.canon(got.get("list-style-image"))}, CSS says type={want_type} image={want_image}')
    return None


SYNTHESISING = {'flex', 'columns', 'text-align', 'line-clamp', 'grid', 'grid-template', 'grid-area', 'grid-row',
                'grid-column', 'page-break-before', 'page-break-after', 'font', 'font-variant', 'border-radius',
                'border-image', 'mask-border', 'gap', 'grid-gap', 'background'}


def judge_css_wide(name):
    """`inherit` and `initial` are valid values of every supported property and shorthand."""
    import tinycss2
    _, _, validation, _, _ = real.mods()
    for keyword, written in (('inherit', name), ('initial', name), ('inherit', name.upper())):
        decls = tinycss2.parse_blocks_contents(f'{written}: {keyword}')
        try:
            out = list(validation.preprocess_declarations(BASE_URL, decls))
        except Exception as exc:  # noqa: BLE001
            return f'`{written}: {keyword}` raised {type(exc).__name__}'
        if not out or any(value != keyword and not real.canon(value) == f'kw:{keyword}' for _, value, _ in out):
            return f'`{written}: {keyword}` is not accepted as the CSS-wide keyword (funnel output {out!r:.200})'
    return None


def judge_units():
    from weasyprint.css.utils import LENGTHS_TO_PIXELS as table
    want = {'px': 1, 'in': 96, 'pt': 96 / 72, 'pc': 16, 'cm': 96 / 2.54, 'mm': 96 / 25.4, 'q': 96 / 101.6}
    for unit, value in want.items():
        if unit not in table or not math.isclose(table[unit], value, rel_tol=1e-12):
            return f'1{unit} is {table.get(unit)} px, CSS says {value} px (1in = 96px = 72pt = 6pc = 2.54cm = 25.4mm = 101.6q)'
    return None


WELL_FORMED_VAR = r'var\(\s*--([A-Za-z0-9_-]+)\s*(?:,([^()]*))?\)'


def flat_text(tokens):
    """Serialisation of a token list with every whitespace / comment dropped, at all depths."""
    out = []
    for t in tokens:
        if t.type in ('whitespace', 'comment'):
            continue
        if t.type == 'function':
            out.append(f'{t.lower_name}({flat_text(t.arguments)})')
        elif t.type in ('() block', '[] block', '{} block'):
            out.append(t.type[0] + flat_text(t.content) + t.type[1])
        else:
            out.append(real.tok_text(t) + ' ')
    return ''.join(out)


def judge_var(env_texts, token_text):
    """resolve_var against an independent textual substitution (string level, then re-tokenised).  Only tokens
    whose var() are all well formed, with comma-free fallbacks (known finding), are judged."""
    import re
    style, _ = real_style(env_texts)
    texts = [token_text] + [v for v in env_texts.values()]
    for text in texts:
        if re.search(r',\s*\)|,\s*,|\(\s*,|^\s*,|,\s*$', text):
            return None      # empty arguments: parse_function gives up on the enclosing function (documented)
        stripped = re.sub(WELL_FORMED_VAR, '', text, flags=re.I)
        while re.search(WELL_FORMED_VAR, stripped, flags=re.I):
            stripped = re.sub(WELL_FORMED_VAR, '', stripped, flags=re.I)
        if 'var' in stripped.lower():
            return None      # a malformed var(): no reference semantics
        for m in re.finditer(WELL_FORMED_VAR, text, flags=re.I):
            if m.group(2) and ',' in m.group(2):
                return None  # known finding var-fallback-commas-dropped
    out = []
    for tok in tokens_of(token_text):
        try:
            from weasyprint.css import resolve_var
            resolved = resolve_var(style, tok, None)
        except RecursionError:
            return None      # known finding var-self-cycle-recursion
        except Exception as exc:  # noqa: BLE001
            return f'resolve_var raised {type(exc).__name__} on `{token_text}` with {env_texts}'
        out.extend([tok] if resolved is None else resolved)
    env_tokens = {k: tokens_of(v) for k, v in env_texts.items()}
    want = reference_substitution(tokens_of(token_text), env_tokens, 0)
    if want is None:
        return None
    if flat_text(out) != want:
        return (f'`{token_text}` with {env_texts} resolves to `{flat_text(out)}`, textual substitution gives '
                f'`{want}`')
    return None


def reference_substitution(tokens, env, depth):
    """Independent reference on the token tree: var(--x[, fallback]) -> value of --x, else the fallback; flat text.
    None when the input is outside the reference's domain (malformed var(), var() inside a block, depth)."""
    if depth > 40:
        return None
    out = []
    for t in tokens:
        if t.type in ('whitespace', 'comment'):
            continue
        if t.type == 'function' and t.lower_name == 'var':
            args = [a for a in t.arguments if a.type not in ('whitespace', 'comment')]
            if not args or args[0].type != 'ident' or not args[0].value.startswith('--'):
                return None
            if len(args) > 1 and not (args[1].type == 'literal' and args[1].value == ','):
                return None
            if any(a.type == 'literal' and a.value == ',' for a in args[2:]):
                return None      # known finding var-fallback-commas-dropped
            value = env.get(args[0].value[2:]) or args[2:]
            sub = reference_substitution(value, env, depth + 1)
            if sub is None:
                return None
            out.append(sub)
        elif t.type == 'function':
            sub = reference_substitution(t.arguments, env, depth + 1)
            if sub is None:
                return None
            out.append(f'{t.lower_name}({sub})')
        elif t.type in ('() block', '[] block', '{} block'):
            if 'var(' in real.tok_text(t).lower():
                return None
            out.append(t.type[0] + flat_text(t.content) + t.type[1])
        else:
            out.append(real.tok_text(t) + ' ')
    return ''.join(out)


class C07(PropCheck):
    id = 'C07'
    extractors = (c07_tables.generate,)
    modules = ('WpModel.Props.C07', 'WpModel.Witness.C07')
    trusted_base = (
        'modelled, not verified: preprocess_declarations (loop skeleton), generic_expander, expand_four_sides, '
        'border_radius, expand_border(_side), expand_list_style and nine small expanders, validate_non_shorthand '
        '(skeleton), parse_function / check_var_function / resolve_var, computed_values.length',
        'the per-property validators (~2000 lines) are NOT modelled: the model takes their answers per token from the '
        'real functions; that they return or raise InvalidValues is checked at run time only (funnel section)',
        'tinycss2 (tokeniser, color4.parse_color, serialisation) is assumed',
    )
    assumptions = (
        'a validator either returns or raises InvalidValues (violated by the listed known findings)',
        'Python recursion depth is modelled by fuel: the model answers RecursionError exactly when its fuel runs out',
    )

    def correspondence(self, run):
        docs.quiet()
        sec_units(run)
        sec_registry(run)
        sec_funnel(run)
        sec_generic(run)
        sec_four_sides(run)
        sec_border_radius(run)
        sec_border_side(run)
        sec_list_style(run)
        sec_small_expanders(run)
        sec_vns(run)
        sec_lengths(run)
        sec_pending(run)
        sec_var(run)
        sec_docs(run)

    def judge(self, d):
        section, meta = d['section'], d.get('meta') or {}
        if section in ('funnel', 'funnel-neighbours'):
            return judge_funnel_text(meta['css'])
        if section in ('generic-expander', 'four-sides', 'border-side', 'small-expanders'):
            return judge_expander(meta['key'], meta['css']) if 'key' in meta else None
        if section == 'border-radius':
            return judge_expander('border-radius', meta['css'])
        if section == 'list-style':
            return judge_expander('list-style', meta['css'])
        if section == 'units':
            return judge_units()
        if section == 'length-pipeline':
            return judge_length_declaration(meta['name'], meta['css'])
        if section == 'get-length':
            return judge_length_declaration('width', meta['token'])
        if section == 'computed-pending':
            return judge_pending(meta)
        if section == 'validate-non-shorthand':
            _, _, _, expanders, properties = real.mods()
            name = meta.get('name')
            if name in properties.PROPERTIES or name in expanders.EXPANDERS:
                return judge_css_wide(name)
            return None
        if section == 'var':
            return judge_var(meta['env'], meta['token']) if 'env' in meta else None
        if section == 'documents':
            return judge_document(meta)
        return None

    def search(self, run, failures):
        return search(run, failures)

    def finding_replays(self):
        return FINDING_REPLAYS

    def replay(self, data):
        inp = data.get('input', {})
        meta = inp.get('meta') if isinstance(inp.get('meta'), dict) else inp
        if 'section' in inp:
            return self.judge(inp)
        if 'kind' in meta:
            return judge_document(meta)
        if 'css' in meta and 'key' in meta:
            return judge_expander(meta['key'], meta['css']) or judge_shorthand_longhands(meta['key'], meta['css'])
        if 'css' in meta:
            return judge_funnel_text(meta['css'])
        return None


def judge_document(meta):
    kind = meta.get('kind')
    if kind == 'invalid-vanish':
        a, exc_a = render_fp(meta['clean'])
        b, exc_b = render_fp(meta['dirty'])
        if known_crash(exc_a) or known_crash(exc_b):
            return None
        if a != b:
            return (f'a stylesheet with dropped declarations renders differently: `{meta["dirty"]}` vs `{meta["clean"]}` '
                    f'({b} vs {a})')
    elif kind == 'units':
        css = lambda v: f'.p{{border-left-style:solid;{meta["prop"]}:{v}}}'   # noqa: E731
        a, _ = render_fp(css(meta['a']))
        b, _ = render_fp(css(meta['b']))
        if a != b:
            return f'{meta["prop"]}: {meta["a"]} and {meta["b"]} are the same length but render differently'
    elif kind == 'unit-spelling':
        return judge_length_declaration(meta['prop'], meta['value']) or judge_unit_spelling(meta)
    elif kind == 'var-invalid':
        parent = f'.a, ul, section{{{meta["prop"]}: {meta["valid"]}}}'
        a, _ = render_fp(f'{parent}{meta["sel"]}{{{meta["prop"]}: {meta["invalid"]}}}')
        b, exc = render_fp(f'{parent}body{{--v: {meta["invalid"]}}}{meta["sel"]}{{{meta["prop"]}: var(--v)}}')
        if a != b and not known_crash(exc):
            return (f'`{meta["sel"]}{{{meta["prop"]}: var(--v)}}` with `--v: {meta["invalid"]}` (parents have '
                    f'{meta["prop"]}: {meta["valid"]}) renders differently from the textual substitution '
                    f'`{meta["prop"]}: {meta["invalid"]}`, which is dropped')
    elif kind == 'shorthand':
        sel, pre = meta.get('sel', '.p'), meta.get('pre', '')
        a, _ = render_fp(f'{PARENTS_CSS}{sel}{{{pre}{meta["key"]}: {meta["css"]}}}')
        b, _ = render_fp(f'{PARENTS_CSS}{sel}{{{pre}{meta["longhands"]}}}')
        if a != b and independent_longhands_differ(meta):
            return f'{meta["key"]}: {meta["css"]} renders differently from its longhands {meta["longhands"]}'
    elif kind == 'var':
        env_css = ''.join(f'--{k}: {v};' for k, v in meta['env'].items())
        a, exc = render_fp(f'{meta["sel"]}{{{env_css}{meta["prop"]}: {meta["value"]}}}')
        if known_crash(exc):
            return None
        text = textual_substitution(meta['env'], meta['value'])
        if text is None:
            return None
        b, _ = render_fp(f'{meta["sel"]}{{{env_css}{meta["prop"]}: {text}}}')
        if a != b:
            return (f'{meta["prop"]}: {meta["value"]} with {meta["env"]} renders differently from its textual '
                    f'substitution `{text}`')
    return None


def judge_unit_spelling(meta):
    import re
    m = re.match(r'([-0-9.e+]+)([A-Za-z]+)$', meta['value'])
    if not m:
        return None
    from weasyprint.css.utils import LENGTHS_TO_PIXELS
    unit = m.group(2).lower()
    if unit not in LENGTHS_TO_PIXELS:
        return None
    px = float(m.group(1)) * LENGTHS_TO_PIXELS[unit]
    sel, pre, prop = meta.get('sel', '.p'), meta.get('pre', ''), meta['prop']
    a, _ = render_fp(f'{sel}{{{pre}{prop}:{meta["value"]}}}')
    dropped, _ = render_fp(f'{sel}{{{pre}}}')
    same, _ = render_fp(f'{sel}{{{pre}{prop}:{px:.10g}px}}')
    if a not in (dropped, same):
        return (f'`{prop}: {meta["value"]}` renders neither as if absent nor like `{prop}: {px:.10g}px` '
                f'({a} vs {dropped} / {same})')
    return None


def independent_longhands_differ(meta):
    """The CSS 1-to-4 mapping computed here (not by the model) also disagrees with the rendering."""
    key, parts = meta['key'], meta['css'].split()
    if key in ('margin', 'padding', 'border-width', 'border-style', 'border-color') and 1 <= len(parts) <= 4:
        k = len(parts)
        sides = [parts[0], parts[1 % k] if k > 1 else parts[0], parts[2] if k > 2 else parts[0],
                 parts[3] if k > 3 else (parts[1] if k > 1 else parts[0])]
        base, _, tail = key.partition('-')
        names = [f'{base}-{s}{"-" + tail if tail else ""}' for s in ('top', 'right', 'bottom', 'left')]
        longhands = '; '.join(f'{n}: {v}' for n, v in zip(names, sides))
        a, _ = render_fp(f'.p{{border-style:solid;{key}: {meta["css"]}}}')
        b, _ = render_fp(f'.p{{border-style:solid;{longhands}}}')
        return a != b
    return True


def textual_substitution(env, value, depth=0):
    """var(--x[, fallback]) replaced at string level (regex on the innermost var() first)."""
    import re
    if depth > 20:
        return None
    pattern = re.compile(WELL_FORMED_VAR, flags=re.I)
    m = pattern.search(value)
    if not m:
        return value
    name, fallback = m.group(1), m.group(2)
    replacement = env.get(name)
    if replacement is None:
        replacement = (fallback or '').strip()
    return textual_substitution(env, value[:m.start()] + replacement + value[m.end():], depth + 1)


def search(run, failures):
    """Wider search on the real implementation: crashes of the funnel on every registered name, neighbour
    dependence, expander clauses, then rendered metamorphic pairs."""
    docs.quiet()
    found = []
    rng = run.rng
    props, shorthands = G.all_names()

    def add(what, inp, sig):
        if what and all(f['signature'] != sig for f in found):
            found.append({'what': what, 'input': inp, 'signature': sig})
        return len(found) >= 3
    # inputs of the failures first
    for f in failures:
        meta = f['detail'].get('meta') if isinstance(f.get('detail'), dict) else None
        if isinstance(meta, dict) and 'css' in meta:
            run.search_stats['evaluations'] += 1
            what = judge_expander(meta['key'], meta['css']) if 'key' in meta else judge_funnel_text(meta['css'])
            if add(what, meta, meta['css']):
                return found
    what = judge_units()
    if add(what, {'units': True}, 'units'):
        return found
    for key in ORDER_FREE:
        longhand_names = [n for n, _ in real.outcome_list(
            lambda: real.mods()[3].EXPANDERS[key](tuple(tokens_of('inherit')), key, BASE_URL))[1]]
        pool = sorted({a for n in longhand_names for a in G.accepted_singles(n)
                       if '(' not in a and a not in ('inherit', 'initial')})
        if not pool:
            continue
        for _ in range(run.n(60, 400)):
            atoms = [rng.choice(pool) for _ in range(rng.choice([2, 2, 3]))]
            css = ' '.join(atoms)
            run.search_stats['evaluations'] += 1
            if add(judge_permutations(key, tokens_of(css), css), {'key': key, 'css': css}, f'perm:{key}'):
                return found
        for _ in range(run.n(4, 30)):
            atoms = [rng.choice(pool) for _ in range(rng.choice([1, 2]))]
            css = ' '.join(atoms)
            if not isinstance(expansion_dict(key, tokens_of(css)), dict):
                continue
            run.search_stats['evaluations'] += 1
            if add(judge_shorthand_longhands(key, css), {'key': key, 'css': css, 'doc': True}, f'longhands:{key}'):
                return found
    for name in props + shorthands:
        run.search_stats['evaluations'] += 1
        if add(judge_css_wide(name), {'section': 'validate-non-shorthand', 'meta': {'name': name}}, 'css-wide'):
            return found
    for name in props + shorthands:
        for _ in range(run.n(40, 400)):
            text = G.value_text(rng, name, rng.choice(['own', 'own', 'other', 'soup', 'adversarial']))
            css = f'{name}: {text}'
            run.search_stats['evaluations'] += 1
            what = judge_funnel_text(css) or (judge_expander(name, text) if name in shorthands else None)
            if what:
                exc_sig = what.split(' on `')[0]
                if add(what, {'css': css, **({'key': name, 'css': text} if 'yields' in what or 'maps' in what else {})},
                       exc_sig):
                    return found
    for _ in range(run.n(150, 1500)):
        env_texts = build_env(rng, False)
        text = var_value_text(rng, 2, VAR_NAMES + ['undefined'], True)
        run.search_stats['evaluations'] += 1
        if add(judge_var(env_texts, text), {'section': 'var', 'meta': {'env': env_texts, 'token': text}}, 'var'):
            return found
    for _ in range(run.n(40, 400)):
        case = var_doc_case(rng)
        meta = {'kind': 'var', **{k: case[k] for k in ('env', 'prop', 'value', 'sel')}}
        run.search_stats['evaluations'] += 1
        if add(judge_document(meta), meta, 'var-doc'):
            return found
    for _ in range(run.n(60, 600)):
        rules = ['%s{%s: %s; %s}' % (rng.choice(SELECTORS), *valid_declaration(rng), invalid_declaration(rng))
                 for _ in range(2)]
        clean = ''.join(r.rsplit(';', 1)[0] + '}' for r in rules)
        meta = {'kind': 'invalid-vanish', 'clean': clean, 'dirty': ''.join(rules)}
        run.search_stats['evaluations'] += 1
        if add(judge_document(meta), meta, meta['dirty']):
            return found
    return found


PROP = C07()

MANIFEST = {
    'design_ref': 'DESIGN.md §4 C07',
    'technique': 'Lean 4 theorems over hand-written models of the declaration funnel, generic_expander, the 1-to-4 '
                 'value shorthands, border / list-style / nine small expanders, validate_non_shorthand, the unit table '
                 '(regenerated from css/utils.py as exact rationals) and var() resolution; registries (EXPANDERS, '
                 'generic_expander names, PROPERTIES, NOT_PRINT_MEDIA, prefixes) regenerated from the source and the '
                 'runtime each run; executable correspondence with the real functions on every registered property and '
                 'shorthand, plus rendered metamorphic document pairs',
    'text': 'Proved for all inputs on the model: dropped declarations do not change the output of the funnel, outputs '
            'concatenate (neighbour independence), the funnel only propagates non-InvalidValues exceptions of '
            'validators; the 1/2/3/4-value side and corner mappings (four sides, border-radius around "/"); a generic '
            'shorthand yields exactly its declared longhands once each in order, omitted ones reset to initial, a '
            'duplicate is invalid, inherit/initial/var() fan out; every longhand a registered shorthand can name is '
            'a registered property (decide on generated tables); border-side components commute under any '
            'permutation; border = four border-sides; list-style none disambiguation; 1in = 96px = 72pt = 6pc = '
            '2.54cm = 25.4mm = 101.6q for every rational length and equal absolute lengths compute equal; runtime '
            'floats within 2^-52 of the exact factors; var(): whenever resolve_var returns it returns the '
            'substitution (var_subst_partial), which is the textual substitution for well-formed var() with '
            'comma-free fallbacks (var_subst). The per-property validators are sampled only.',
    'note': 'Trusted: Lean kernel, py/extract/c07_tables.py, the harness abstraction of tokens to the answers of the '
            'real single-token validators. Partial: the ~2000 lines of validators are tied only by the run-time '
            'funnel check (return or raise InvalidValues, neighbour independence observed); var() inside ( ) [ ] '
            'blocks and inside functions with empty arguments is invisible to the code and the model alike; '
            'termination of resolve_var on acyclic environments is not proved (fuel). Known findings: var() '
            'self-cycle (RecursionError, F7) and the commas dropped from var() fallbacks.',
}
