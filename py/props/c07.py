"""C07 — declarations: invalid ones vanish, shorthands equal longhands, units agree, var() = substitution."""
import json
import math
import os
import subprocess
import sys
from fractions import Fraction

from extract import c07_numeric, c07_tables
from harness import c07_gen as G
from harness import c07_real as real
from harness import docs
from vlib import lean, sx
from vlib.framework import PropCheck
from vlib.paths import REPO

enc = real.enc
BASE_URL = real.BASE_URL

# Crashes of the unchanged tree that are listed in known_findings.txt: (exception class, innermost function).
# (The four that were listed — RecursionError in resolve_var, TypeError in __missing__, IndexError in the src and
# system descriptors — were repaired by 2bffab3, 582f36b, be7a07b, d71ddd0: any such crash is a violation again.)
KNOWN_CRASHES = {}
FUEL = 120


def known_crash(exc):
    if exc is None:
        return None
    return KNOWN_CRASHES.get(real.innermost(exc))


def shorthand_keys(fn_name):
    _, _, _, expanders, _ = real.mods()
    return sorted(k for k, f in expanders.EXPANDERS.items() if f.__name__ == fn_name)


def tokens_of(text):
    return list(G.tokens_of(text))


def head_atom(tokens):
    return real.head_of(tokens)


# ------------------------------------------------------------------------------------------ sections

def value_for(run, name, weights=('own', 'own', 'own', 'near', 'other', 'soup', 'soup', 'adversarial')):
    return G.value_text(run.rng, name, run.rng.choice(weights))


def sec_units(run):
    from weasyprint.css import computed_values
    from weasyprint.css.properties import Dimension
    from weasyprint.css.utils import LENGTH_UNITS, LENGTHS_TO_PIXELS
    sec = run.section('units', 'LENGTHS_TO_PIXELS: generated exact rational vs runtime float (within 2^-49 relative); '
                      'computed_values.length by direct call on dyadic values, every unit, both pixels_only; '
                      'non-trivial = a unit other than px with a non-zero value')
    for unit, factor in LENGTHS_TO_PIXELS.items():
        nice = Fraction(factor).limit_denominator(100000)
        rel = 'exact' if Fraction(factor) == nice else 'near'
        sec.add(sx.line('unit', enc(unit), Fraction(factor)), f'{sx.atom(nice)} {rel}', meta={'unit': unit},
                tags=[f'unit:{unit}'])
    sec.add(sx.line('unit', 'furlong', Fraction(1)), 'none', nontrivial=False)

    class Style(dict):
        pass
    units = sorted(LENGTH_UNITS) + ['%', 'vw', None]
    pool = [Fraction(n, d) for n in range(-40, 200) for d in (1, 2, 4, 8)] + [Fraction(10 ** 6), Fraction(-10 ** 5)]
    for _ in range(run.n(1500, 40000)):
        unit = run.rng.choice(units)
        value = run.rng.choice(pool) if run.rng.random() < 0.9 else Fraction(0)
        if unit is None and run.rng.random() < 0.7:
            value = Fraction(0)
        font_size = Fraction(run.rng.choice([8, 10, 12, 16, 20, 33]), run.rng.choice([1, 2]))
        root_size = Fraction(run.rng.choice([10, 16, 24]))
        ex, ch = Fraction(run.rng.choice([1, 2, 3]), 4), Fraction(run.rng.choice([1, 2, 4]), 4)
        pixels_only = run.rng.random() < 0.5
        style = Style(font_size=float(font_size), font_family=('x',), font_style='normal', font_stretch='normal',
                      font_weight=400, font_variant_caps='normal', font_variant_east_asian='normal',
                      font_variant_ligatures='normal', font_variant_numeric='normal', font_variant_position='normal',
                      font_variant_alternates='normal', font_kerning='auto', font_feature_settings='normal',
                      font_language_override='normal', font_variation_settings='normal', lang=None)
        root = Style(font_size=float(root_size))
        style.root_style = root
        key = computed_values._font_style_cache_key(style)
        style.cache = {'ratio_ex': {key: float(ex)}, 'ratio_ch': {key: float(ch)}}
        keyword = run.rng.random() < 0.04
        if keyword:
            spec_value = run.rng.choice(['auto', 'content', 'from-font'])
            spec = ['kw', enc(spec_value)]
        else:
            spec_value = Dimension(float(value), unit)
            spec = ['dim', value, enc(unit) if unit is not None else 'none']
        explicit_fs = run.rng.random() < 0.3
        try:
            out = computed_values.length(style, 'width', spec_value, float(font_size) if explicit_fs else None,
                                         pixels_only)
        except Exception as exc:  # noqa: BLE001
            out = exc
        impl_q = Fraction(0)
        if isinstance(out, Exception):
            impl = f'err:{type(out).__name__}'
        elif isinstance(out, str):
            impl = f'kw {enc(out)}'
        else:
            number = out.value if isinstance(out, Dimension) else out
            impl_q = Fraction(number)
            nice = impl_q.limit_denominator(5000)
            rel = 'exact' if nice == impl_q else 'near'
            if isinstance(out, Dimension):
                impl = f'dim {sx.atom(nice)} {enc(out.unit) if out.unit is not None else "none"} {rel}'
            else:
                impl = f'number {sx.atom(nice)} {rel}'
        sec.add(sx.line('length', font_size, root_size, ex, ch, pixels_only, spec, impl_q), impl,
                meta={'value': str(value), 'unit': unit, 'pixels_only': pixels_only, 'font_size': str(font_size)},
                nontrivial=(not keyword and value != 0 and unit not in ('px', None, '%', 'vw')),
                tags=[f'len:{unit}'])


def sec_registry(run):
    _, _, validation, expanders, properties = real.mods()
    sec = run.section('registry', 'EXPANDERS key -> bound function, effective validated name of a declaration name '
                      '(NOT_PRINT_MEDIA, -weasy- prefix, vendor prefixes) on every registered name and its spellings; '
                      'non-trivial = the name is skipped or rewritten')
    for key, fn in expanders.EXPANDERS.items():
        sec.add(sx.line('expander-fn', enc(key)), fn.__name__, nontrivial=False, tags=['expander-fn'])
    sec.add(sx.line('expander-fn', 'colour'), 'none', nontrivial=False)
    names = sorted(set(properties.PROPERTIES) | set(expanders.EXPANDERS) | set(validation.NOT_PRINT_MEDIA))
    import tinycss2
    variants = []
    for name in names:
        variants += [name, name.upper(), '-weasy-' + name, '-WEASY-' + name, '-webkit-' + name, '--' + name,
                     '--' + name.upper(), '-' + name, '-weasy--' + name, '-weasy-weasy-' + name]
    for written in variants:
        decls = [d for d in tinycss2.parse_blocks_contents(f'{written}: inherit') if d.type == 'declaration']
        if len(decls) != 1:
            continue
        decl = decls[0]
        # the name the real funnel validates under: observed through a recording validator table
        seen = observe_effective(decl)
        sec.add(sx.line('effective', enc(decl.name), enc(decl.lower_name)), seen,
                meta={'written': written}, nontrivial=(seen == 'skip' or seen != enc(decl.lower_name)),
                tags=['skip' if seen == 'skip' else 'kept' if seen == enc(decl.lower_name) else 'rewritten'])


def observe_effective(decl):
    """Which name the real funnel hands to the validator for this declaration (or 'skip')."""
    _, _, validation, expanders, properties = real.mods()
    seen = []

    class Recorder(dict):
        def get(self, name, default=None):
            seen.append(name)
            return lambda tokens, name, base_url: ()
    original = validation.EXPANDERS
    validation.EXPANDERS = Recorder()
    try:
        list(validation.preprocess_declarations(BASE_URL, [decl]))
    finally:
        validation.EXPANDERS = original
    return enc(seen[0]) if seen else 'skip'


def funnel_block(run):
    """A declaration block text: declarations of every kind, other items in between."""
    props, shorthands = G.all_names()
    names = props + shorthands
    parts = []
    for _ in range(run.rng.choice([1, 2, 2, 3, 3, 4, 5, 6])):
        r = run.rng.random()
        if r < 0.78:
            name = run.rng.choice(names)
            text = G.value_text(run.rng, name, run.rng.choice(['own', 'own', 'own', 'near', 'near', 'other', 'soup', 'adversarial']))
            imp = ' !important' if run.rng.random() < 0.15 else ''
            parts.append(f'{G.decl_name(run.rng, name)}: {text}{imp}')
        elif r < 0.84:
            from weasyprint.css import validation
            parts.append(f'{run.rng.choice(sorted(validation.NOT_PRINT_MEDIA))}: {G.soup_atom(run.rng)}')
        elif r < 0.88:
            parts.append(f'--{run.rng.choice(["a", "B", "c-d"])}: {G.value_text(run.rng, "width", "soup")}')
        elif r < 0.91:
            parts.append(f'unknown-{run.rng.choice(["x", "prop"])}: {G.soup_atom(run.rng)}')
        elif r < 0.94:
            parts.append(run.rng.choice(['@foo', '@media print { a: b }', '@top-left { content: "x" }']))
        elif r < 0.97:
            parts.append(run.rng.choice(['a { color: red }', '&:hover { color: red }', 'b c']))
        else:
            parts.append(run.rng.choice(['', ' ', '!', 'color', ': red', 'color red', '/* c */']))
    return '; '.join(parts)


def funnel_case(text, intern):
    """-> (protocol line, impl_out, exc, per-declaration data)"""
    import tinycss2
    decls = tinycss2.parse_blocks_contents(text)
    impl, exc = real.funnel_out(decls, intern)
    items, broken = [], None
    for d in decls:
        if d.type == 'declaration':
            tokens = G.remove_ws(d.value)
            table = []
            for cand in real.candidate_names(d):
                entry, cand_exc = real.validator_table_entry(cand, tokens, intern)
                broken = broken or cand_exc
                table.append([enc(cand), entry])
            items.append(['declaration', enc(d.name), enc(d.lower_name), not tokens, bool(d.important), table])
        else:
            items.append([d.type, 'x', 'x', True, False, []])
    return sx.line('funnel', *items), impl, exc, decls


def sec_funnel(run):
    import tinycss2
    sec = run.section('funnel', 'real preprocess_declarations on generated blocks (every registered property and '
                      'shorthand x own grammar / other grammars / token soup / adversarial numbers, spelling '
                      'variants, !important, custom properties, nested rules, parse errors) vs the model funnel fed '
                      'with each declaration validated ALONE by the real validator; any exception other than '
                      'InvalidValues breaks the model assumption; non-trivial = at least one declaration is dropped '
                      'and one is kept')
    sec2 = run.section('funnel-neighbours', 'real funnel on the list = concatenation of the real funnel on the '
                       'singletons (echo of digests); same with a selector prelude (style-rule path)')
    intern = real.Interner()
    known = {}
    props, shorthands = G.all_names()
    blocks = []
    # every registered name once per kind, alone, then mixed blocks
    for name in props + shorthands:
        for kind in ('own', 'near', 'other', 'soup', 'adversarial'):
            for _ in range(run.n(6 if kind == 'near' else 3, 40)):
                blocks.append(f'{G.decl_name(run.rng, name)}: {G.value_text(run.rng, name, kind)}')
    for _ in range(run.n(4000, 60000)):
        blocks.append(funnel_block(run))
    prelude = tinycss2.parse_component_value_list('p.c, q')
    for text in blocks:
        line, impl, exc, decls = funnel_case(text, intern)
        finding = known_crash(exc)
        if finding:
            known[finding] = known.get(finding, 0) + 1
            continue
        kept = impl.count('(') if impl.startswith('ok') else 0
        ndecl = sum(1 for d in decls if d.type == 'declaration')
        sec.add(line, impl, meta={'css': text}, nontrivial=(0 < kept and ndecl > 1),
                tags=['raised' if impl.startswith('err') else 'all-dropped' if kept == 0 else 'some-kept'])
        if impl.startswith('ok') and len(decls) > 1 and run.rng.random() < 0.5:
            singles = []
            for d in decls:
                out, _ = real.funnel_out([d], intern)
                singles.append(out[3:] if out.startswith('ok ') else '' if out == 'ok' else out)
            joined = ('ok ' + ' '.join(s for s in singles if s)).strip()
            sec2.add(sx.line('echo', real.digest(joined)), real.digest(impl), meta={'css': text},
                     tags=['singletons'])
            if not any(d.type == 'qualified-rule' for d in decls):
                out, _ = real.funnel_out(decls, intern, prelude)
                sec2.add(sx.line('echo', real.digest(impl)), real.digest(out), meta={'css': text, 'prelude': True},
                         tags=['prelude'])
    run.extra['known_crashes_skipped_in_funnel'] = known


def sec_generic(run):
    _, _, _, expanders, _ = real.mods()
    sec = run.section('generic-expander', 'every @generic_expander-wrapped shorthand: the real wrapper vs the model '
                      'of generic_expander fed with the items of the real wrapped generator and the real longhand '
                      'validations (names from the generated table); non-trivial = the wrapped generator yielded')
    intern = real.Interner()
    keys = [k for k, f in expanders.EXPANDERS.items() if real.closure_of(f)[0] is not None]
    for key in sorted(keys):
        fn = expanders.EXPANDERS[key]
        for _ in range(run.n(150, 1500)):
            tokens = tokens_of(value_for(run, key))
            if not tokens:
                continue
            names, items, end = real.raw_of(key, tokens)
            ids = {}
            wire_items, table = [], []
            for i, (new_name, value) in enumerate(items):
                wire_items.append([enc(str(new_name)), f'i{i}'])
                if isinstance(new_name, str) and new_name in names:
                    actual = real.actual_name(key, new_name)
                    table.append([[enc(actual), f'i{i}'], real.validate_required(value, actual, intern)])
            head = head_atom(tokens)
            impl = real.expander_out(key, tokens, intern)
            sec.add(sx.line('generic', enc(fn.__name__), enc(key), head, wire_items, end or 'none', table), impl,
                    meta={'key': key, 'css': ' '.join(real.tok_text(t) for t in tokens)},
                    nontrivial=bool(items), tags=[f'head:{head}', 'ok' if impl.startswith('ok') else impl])


def side_table(names, tokens, intern):
    table = []
    for i, tok in enumerate(tokens):
        for name in names:
            table.append([[enc(name), f't{i}'], real.validate_required([tok], name, intern)])
    return table


def sec_four_sides(run):
    _, _, _, expanders, _ = real.mods()
    import tinycss2
    sec = run.section('four-sides', 'expand_four_sides by direct call on 0..6 tokens (own / other grammar, var(), '
                      'inherit) for its six keys vs the model; expanded names of arbitrary names; non-trivial = 1..4 '
                      'tokens')
    intern = real.Interner()
    var_tok = tinycss2.parse_one_component_value('var(--v)')
    keys = shorthand_keys('expand_four_sides')
    for name in keys + ['x', 'a-b', 'a-b-c', 'border-top-left-radius', '-x', 'x-', 'margin', 'Margin-X']:
        kind, result, _ = real.outcome_list(lambda: expanders.expand_four_sides((var_tok,), name, BASE_URL))
        sec.add(sx.line('four-names', enc(name)), 'ok' + ''.join(f' {enc(n)}' for n, _ in result),
                nontrivial=False, tags=['names'])
    for key in keys:
        names = [n for n, _ in expanders.expand_four_sides((var_tok,), key, BASE_URL)]
        for _ in range(run.n(300, 4000)):
            n = run.rng.choice([0, 1, 1, 2, 2, 3, 3, 4, 4, 5, 6])
            singles = G.accepted_singles(names[0])
            atoms = []
            for _ in range(n):
                r = run.rng.random()
                atoms.append(run.rng.choice(singles) if r < 0.8 and singles else
                             'var(--a)' if r < 0.84 else G.soup_atom(run.rng))
            tokens = tokens_of(' '.join(atoms))
            table = side_table(names, tokens, intern)
            kind, result, exc = real.outcome_list(lambda: expanders.expand_four_sides(tuple(tokens), key, BASE_URL))
            impl = real.longhands_out(result, intern) if kind == 'ok' else result
            sec.add(sx.line('four', enc(key), real.has_var(tokens), [f't{i}' for i in range(len(tokens))], table),
                    impl, meta={'key': key, 'css': ' '.join(atoms)}, nontrivial=1 <= len(tokens) <= 4,
                    tags=[f'n{min(len(tokens), 6)}', 'ok' if kind == 'ok' else result])


def sec_border_radius(run):
    _, utils, _, expanders, _ = real.mods()
    sec = run.section('border-radius', 'the registered border-radius expander by direct call vs the model '
                      '(split around "/", fill to four per axis, border_corner_radius on get_length answers); '
                      'non-trivial = contains "/" or 2..3 values on an axis')
    intern = real.Interner()
    pool = ['1px', '2px', '10%', '0', '1em', '0.5in', '3pt', '50%', '4px', '2em', '1px', '25%',
            '-1px', '-5%', 'auto', '1', 'red', 'inherit']
    for _ in range(run.n(3000, 30000)):
        n = run.rng.choice([0, 1, 1, 2, 3, 4, 5, 2, 3])
        atoms = [run.rng.choice(pool) for _ in range(n)]
        r = run.rng.random()
        if r < 0.55:
            k = run.rng.choice([1, 2, 3, 4])
            atoms = atoms + ['/'] + [run.rng.choice(pool) for _ in range(k)]
        elif r < 0.62:
            atoms.insert(run.rng.randrange(len(atoms) + 1), '/')
        elif r < 0.67:
            atoms = atoms + ['/'] + [run.rng.choice(pool)] + ['/'] + [run.rng.choice(pool) for _ in range(run.rng.choice([0, 1]))]
        if run.rng.random() < 0.03:
            atoms = [run.rng.choice(['inherit', 'initial', 'var(--r)'])] + (atoms if run.rng.random() < 0.3 else [])
        tokens = tokens_of(' '.join(atoms))
        if not tokens:
            continue
        wire = []
        for i, tok in enumerate(tokens):
            if tok.type == 'literal' and tok.value == '/':
                wire.append('slash')
            else:
                got = utils.get_length(tok, negative=False, percentage=True)
                wire.append([f't{i}', intern(got) if got is not None else 'none'])

        def value_atom(v):
            if isinstance(v, tuple) and len(v) == 2 and not isinstance(v, utils.Dimension):
                return f'(pair {intern(v[0])} {intern(v[1])})'
            return intern(v)
        impl = real.expander_out('border-radius', tokens, intern, value_atom)
        sec.add(sx.line('radius', 'border-radius', head_atom(tokens), wire), impl, meta={'css': ' '.join(atoms)},
                nontrivial=('/' in atoms or 2 <= len(atoms) <= 3),
                tags=['slash' if '/' in atoms else 'no-slash', 'ok' if impl.startswith('ok') else impl])


SIDE_POOL = ['red', '#00f', 'currentcolor', 'transparent', 'rgb(1,2,3)', 'thin', 'medium', 'thick', '1px', '0', '2em',
             '-1px', '5%', 'solid', 'dotted', 'none', 'hidden', 'double', 'groove', 'inset', 'invert', 'auto', '1',
             'inherit', 'foo', '"s"', 'wavy']


def sec_border_side(run):
    _, _, _, expanders, properties = real.mods()
    from tinycss2.color4 import parse_color
    sec = run.section('border-side', 'border-top/right/bottom/left, outline, column-rule and border by direct call '
                      'vs the model (token classification by the real parse_color / border_width / border_style, '
                      'generic fill); non-trivial = 2 or more tokens')
    intern = real.Interner()
    keys = shorthand_keys('expand_border_side') + ['border']
    for key in keys:
        if key == 'border':
            names = [f'border{s}{x}' for s in ('-top', '-right', '-bottom', '-left')
                     for x in ('-width', '-color', '-style')]
        else:
            names = [f'{key}{x}' for x in ('-width', '-color', '-style')]
        for _ in range(run.n(500, 5000)):
            n = run.rng.choice([1, 1, 2, 2, 3, 3, 3, 4])
            atoms = [run.rng.choice(SIDE_POOL) if run.rng.random() < 0.93 else G.soup_atom(run.rng)
                     for _ in range(n)]
            if run.rng.random() < 0.03:
                atoms = [run.rng.choice(['inherit', 'initial', 'var(--b)', 'var(--b) solid'])]
            tokens = tokens_of(' '.join(atoms))
            if not tokens:
                continue
            wire = []
            for i, tok in enumerate(tokens):
                wire.append([parse_color(tok) is not None, properties.border_width([tok]) is not None,
                             properties.border_style([tok]) is not None, f't{i}'])
            table = side_table(names, tokens, intern)
            impl = real.expander_out(key, tokens, intern)
            sec.add(sx.line('border' if key == 'border' else 'side', enc(key), head_atom(tokens), wire, table), impl,
                    meta={'key': key, 'css': ' '.join(atoms)}, nontrivial=len(tokens) >= 2,
                    tags=[f'n{len(tokens)}', 'ok' if impl.startswith('ok') else impl])


def sec_list_style(run):
    _, utils, _, expanders, properties = real.mods()
    sec = run.section('list-style', 'list-style by direct call vs the model (none disambiguation); non-trivial = a '
                      'none token is present')
    intern = real.Interner()
    pool = ['none', 'none', 'inside', 'outside', 'disc', 'decimal', 'square', 'foo', '"s"', 'url(a.png)',
            'url("b.png")', 'symbols(cyclic "a" "b")', 'symbols()', '1', '1px', 'inherit', 'linear-gradient(red, blue)',
            'attr(x url)', 'NONE']
    names = ['list-style-type', 'list-style-position', 'list-style-image']
    for _ in range(run.n(3000, 30000)):
        n = run.rng.choice([1, 1, 2, 2, 3, 3, 4, 5])
        atoms = [run.rng.choice(pool) if run.rng.random() < 0.95 else G.soup_atom(run.rng) for _ in range(n)]
        if run.rng.random() < 0.03:
            atoms = [run.rng.choice(['inherit', 'initial', 'var(--l)', 'var(--l) none'])]
        tokens = tokens_of(' '.join(atoms))
        if not tokens:
            continue
        wire = []
        try:
            for i, tok in enumerate(tokens):
                wire.append([utils.get_keyword(tok) == 'none',
                             properties.list_style_image([tok], BASE_URL) is not None,
                             properties.list_style_position([tok]) is not None,
                             properties.list_style_type([tok]) is not None, f't{i}'])
        except Exception:  # noqa: BLE001 - a single-token validator crashed: the funnel section reports it
            continue
        table = side_table(names, tokens, intern)
        impl = real.expander_out('list-style', tokens, intern)
        sec.add(sx.line('list-style', 'list-style', head_atom(tokens), wire, table), impl,
                meta={'css': ' '.join(atoms)}, nontrivial=any(w[0] for w in wire),
                tags=[f'none{sum(1 for w in wire if w[0])}', 'ok' if impl.startswith('ok') else impl])


def modelled_raw_case(sec, run, key, cmd, tokens, build, intern, extra_tags=(), vid=None):
    """Common part of the sections whose wrapped generator is modelled: table from the real raw items."""
    names, items, end = real.raw_of(key, tokens)
    ids = real.tok_ids(tokens)
    table = real.table_for_raw(key, names, items, ids, intern, vid)
    impl = real.expander_out(key, tokens, intern)
    line = build(ids, table)
    if line is None:
        return
    sec.add(line, impl, meta={'key': key, 'css': ' '.join(real.tok_text(t) for t in tokens)},
            nontrivial=len(tokens) >= 1 and impl.startswith('ok'),
            tags=[f'{key}:{"ok" if impl.startswith("ok") else impl}', *extra_tags])


def sec_small_expanders(run):
    _, utils, _, expanders, properties = real.mods()
    from tinycss2.color4 import parse_color
    sec = run.section('small-expanders', 'text-decoration, columns, flex-flow, gap/grid-gap, word-wrap, '
                      'grid-column-gap, grid-row-gap, page-break-before/after/inside, text-align by direct call vs '
                      'models of their wrapped generators + generic fill; non-trivial = the value is accepted')
    intern = real.Interner()
    count = run.n(700, 7000)

    def pick(pool, nmax=4):
        n = run.rng.choice(list(range(1, nmax + 1)))
        atoms = [run.rng.choice(pool) if run.rng.random() < 0.93 else G.soup_atom(run.rng) for _ in range(n)]
        if run.rng.random() < 0.03:
            atoms = [run.rng.choice(['inherit', 'initial', 'var(--z)'])]
        return tokens_of(' '.join(atoms))

    deco_pool = ['none', 'underline', 'overline', 'line-through', 'blink', 'solid', 'double', 'dotted', 'dashed', 'wavy',
                 'red', 'currentcolor', '#123', '1px', '2em', '10%', 'auto', 'from-font', '0', 'thin', 'foo', 'UNDERLINE']
    for _ in range(count):
        tokens = pick(deco_pool, 5)
        if not tokens:
            continue

        def build(ids, table, tokens=tokens):
            wire = []
            for i, tok in enumerate(tokens):
                kw = utils.get_keyword(tok)
                wire.append([kw in ('none', 'underline', 'overline', 'line-through', 'blink'), kw == 'none',
                             kw in ('solid', 'double', 'dotted', 'dashed', 'wavy'), bool(parse_color(tok)),
                             bool(properties.text_decoration_thickness([tok])), f't{i}'])
            return sx.line('text-decoration', 'text-decoration', head_atom(tokens), wire, table)
        modelled_raw_case(sec, run, 'text-decoration', 'text-decoration', tokens, build, intern)

    col_pool = ['auto', 'auto', '10px', '5em', '0', '-1px', '2', '3', '1.5', '0.0', '-2', '10%', 'none', 'AUTO']
    for _ in range(count):
        tokens = pick(col_pool, 3)
        if not tokens:
            continue

        def build(ids, table, tokens=tokens):
            wire = [[utils.get_keyword(t) == 'auto', properties.column_width([t]) is not None,
                     properties.column_count([t]) is not None, f't{i}'] for i, t in enumerate(tokens)]
            return sx.line('columns', 'columns', head_atom(tokens), wire, 'auto', table)
        modelled_raw_case(sec, run, 'columns', 'columns', tokens, build, intern)

    flow_pool = ['row', 'row-reverse', 'column', 'column-reverse', 'wrap', 'nowrap', 'wrap-reverse', 'foo', '1', 'ROW']
    for _ in range(count):
        tokens = pick(flow_pool, 3)
        if not tokens:
            continue

        def build(ids, table, tokens=tokens):
            wire = [[bool(properties.flex_direction([t])), bool(properties.flex_wrap([t])), f't{i}']
                    for i, t in enumerate(tokens)]
            return sx.line('flex-flow', 'flex-flow', head_atom(tokens), wire, table)
        modelled_raw_case(sec, run, 'flex-flow', 'flex-flow', tokens, build, intern)

    gap_pool = ['normal', '1px', '2em', '10%', '0', '-1px', 'auto', '1', 'NORMAL']
    for key in ('gap', 'grid-gap'):
        for _ in range(count // 2):
            tokens = pick(gap_pool, 3)
            if not tokens:
                continue

            def build(ids, table, tokens=tokens, key=key):
                wire = [[properties.gap([t]) is not None, f't{i}'] for i, t in enumerate(tokens)]
                return sx.line('gap', enc(key), head_atom(tokens), wire, table)
            modelled_raw_case(sec, run, key, 'gap', tokens, build, intern)

    renames = [('word-wrap', 'overflow-wrap', lambda ts: properties.overflow_wrap(ts) is not None,
                ['normal', 'break-word', 'anywhere', 'foo', '1']),
               ('grid-column-gap', 'column-gap', lambda ts: properties.gap(ts) is not None, gap_pool),
               ('grid-row-gap', 'row-gap', lambda ts: properties.gap(ts) is not None, gap_pool),
               ('page-break-inside', 'break-inside',
                lambda ts: utils.get_single_keyword(ts) in ('auto', 'avoid'), ['auto', 'avoid', 'avoid-page', 'always', '1'])]
    for key, new_name, test, pool in renames:
        fn = expanders.EXPANDERS[key].__name__
        for _ in range(count // 3):
            tokens = pick(pool, 2)
            if not tokens:
                continue

            def build(ids, table, tokens=tokens, key=key, new_name=new_name, test=test, fn=fn):
                return sx.line('rename', enc(fn), enc(key), head_atom(tokens), enc(new_name), bool(test(tuple(tokens))),
                               real.value_id(tokens, ids), table)
            modelled_raw_case(sec, run, key, 'rename', tokens, build, intern)

    pb_pool = ['auto', 'left', 'right', 'avoid', 'always', 'page', 'column', 'avoid-page', 'recto', '1', 'ALWAYS']
    for key in ('page-break-before', 'page-break-after'):
        fn = expanders.EXPANDERS[key].__name__
        for _ in range(count // 3):
            tokens = pick(pb_pool, 2)
            if not tokens:
                continue

            def build(ids, table, tokens=tokens, key=key, fn=fn):
                kw = utils.get_single_keyword(tokens)
                return sx.line('page-break', enc(fn), enc(key), head_atom(tokens), enc(kw) if kw is not None else 'none',
                               real.value_id(tokens, ids), 'page', table)
            modelled_raw_case(sec, run, key, 'page-break', tokens, build, intern)

    ta_pool = ['left', 'right', 'center', 'justify', 'justify-all', 'start', 'end', 'match-parent', 'foo', '1', 'JUSTIFY']
    for _ in range(count // 2):
        tokens = pick(ta_pool, 2)
        if not tokens:
            continue

        def build(ids, table, tokens=tokens):
            kw = utils.get_single_keyword(tokens)
            return sx.line('text-align', 'text-align', head_atom(tokens), len(tokens),
                           enc(kw) if kw is not None else 'none', 't0', 'justify', 'start', table)
        modelled_raw_case(sec, run, 'text-align', 'text-align', tokens, build, intern)


def split_slash_ids(tokens):
    """[[ids of one '/'-separated part] …] and the parts as token lists."""
    parts, cur = [], []
    for t in tokens:
        if t.type == 'literal' and t.value == '/':
            parts.append(cur)
            cur = []
        else:
            cur.append(t)
    parts.append(cur)
    return parts


def flex_vid(value, ids):
    """Value ids of expand_flex: input tokens by index, synthesised number tokens by value."""
    if isinstance(value, (list, tuple)):
        return '+'.join(flex_vid(v, ids) for v in value) or 'e'
    if id(value) in ids:
        return ids[id(value)]
    if value.type == 'number':
        return 'n:' + sx.atom(Fraction(value.value))
    return enc(real.tok_text(value))


def sec_more_expanders(run):
    _, utils, _, expanders, properties = real.mods()
    sec = run.section('more-expanders', 'place-content/items/self, line-clamp, flex, font, grid-row, grid-column, '
                      'grid-area, grid-template, grid by direct call vs models of their wrapped generators + generic '
                      'fill; non-trivial = the value is accepted')
    intern = real.Interner()
    count = run.n(500, 6000)

    def pick(pool, nmax=4, soup=0.06):
        n = run.rng.choice(list(range(1, nmax + 1)))
        atoms = [run.rng.choice(pool) if run.rng.random() > soup else G.soup_atom(run.rng) for _ in range(n)]
        if run.rng.random() < 0.03:
            atoms = [run.rng.choice(['inherit', 'initial', 'var(--z)'])]
        return tokens_of(' '.join(atoms))

    for key in ('place-content', 'place-items', 'place-self'):
        fn = expanders.EXPANDERS[key].__name__
        for _ in range(count // 10):
            tokens = pick(['center', 'start', 'end', 'stretch', 'normal', 'space-between', 'baseline', '1'], 2)
            if not tokens:
                continue
            modelled_raw_case(sec, run, key, 'place', tokens,
                              lambda ids, table, tokens=tokens, key=key, fn=fn: sx.line(
                                  'place', enc(fn), enc(key), head_atom(tokens), table), intern)

    clamp_pool = ['none', '1', '2', '3', '0', '-1', '1.5', '2.0', 'auto', '"…"', '"x"', 'foo', '10px', 'NONE', '1e2']
    for _ in range(count):
        tokens = pick(clamp_pool, 3)
        if not tokens:
            continue

        def build(ids, table, tokens=tokens):
            wire = [[utils.get_keyword(t) == 'none', t.type == 'number',
                     (t.int_value if t.type == 'number' and t.int_value is not None else None),
                     properties.block_ellipsis([t]) is not None, f't{i}'] for i, t in enumerate(tokens)]
            return sx.line('line-clamp', 'line-clamp', head_atom(tokens), wire, table)
        modelled_raw_case(sec, run, 'line-clamp', 'line-clamp', tokens, build, intern)

    flex_pool = ['0', '1', '2', '0.5', '3', '-1', '0.0', '10px', '0px', '50%', 'auto', 'content', '2em', 'none', '0%',
                 'foo', '1e1', 'AUTO']
    for _ in range(count):
        tokens = pick(flex_pool, 4)
        if not tokens or any(t.type in ('number', 'dimension', 'percentage') and not math.isfinite(t.value)
                             for t in tokens):
            continue        # 1e999: an infinite flex factor has no rational model

        def build(ids, table, tokens=tokens):
            wire = []
            for i, t in enumerate(tokens):
                factor = properties.flex_grow_shrink([t])
                if factor is not None and not math.isfinite(factor):
                    return None       # 1e999: an infinite flex factor has no rational model
                wire.append([t.type == 'number' and t.value == 0, properties.flex_basis([t]) is not None,
                             Fraction(factor) if factor is not None else None, f't{i}'])
            return sx.line('flex', 'flex', head_atom(tokens), utils.get_single_keyword(tokens) == 'none', wire, table)
        modelled_raw_case(sec, run, 'flex', 'flex', tokens, build, intern, vid=flex_vid)

    font_pool = ['normal', 'italic', 'oblique', 'small-caps', 'bold', 'bolder', '400', '700', '1000', 'condensed',
                 'expanded', '12px', '1.5em', 'large', 'smaller', '80%', '0', '/', '/', '1.2', '20px', 'normal',
                 'serif', 'Arial', '"Times New Roman"', 'sans-serif', ',', 'caption', 'menu', 'foo', '1', 'NORMAL']
    for _ in range(count * 2):
        n = run.rng.choice([1, 2, 2, 3, 3, 4, 5, 6, 7])
        if run.rng.random() < 0.6:
            # mostly well-formed: [optional ×0..4] size [/ line-height] family
            atoms = [run.rng.choice(['normal', 'italic', 'small-caps', 'bold', 'condensed', '700', 'oblique'])
                     for _ in range(run.rng.choice([0, 0, 1, 2, 3, 4, 5]))]
            atoms.append(run.rng.choice(['12px', 'large', '80%', '1.5em', 'foo']))
            if run.rng.random() < 0.4:
                atoms += ['/', run.rng.choice(['1.2', '20px', 'normal', 'foo'])]
            atoms += run.rng.choice([['serif'], ['Arial', ',', 'serif'], ['"Times New Roman"'], ['Arial', 'Black'], []])
        else:
            atoms = [run.rng.choice(font_pool) for _ in range(n)]
        tokens = tokens_of(' '.join(atoms))
        if not tokens:
            continue

        def build(ids, table, tokens=tokens):
            wire = []
            for i, t in enumerate(tokens):
                one = [t]
                wire.append([utils.get_keyword(t) == 'normal', properties.font_style(one) is not None,
                             properties.font_variant_caps(one) is not None, properties.font_weight(one) is not None,
                             properties.font_stretch(one) is not None, properties.font_size(one) is not None,
                             t.type == 'literal' and t.value == '/', properties.line_height(one) is not None, f't{i}'])
            by_len = [properties.font_family(tokens[len(tokens) - k:]) is not None if k else
                      properties.font_family([]) is not None for k in range(len(tokens) + 1)]
            system = utils.get_single_keyword(tokens) in ('caption', 'icon', 'menu', 'message-box', 'small-caption',
                                                          'status-bar')
            return sx.line('font', 'font', head_atom(tokens), system, wire, by_len, table)
        modelled_raw_case(sec, run, 'font', 'font', tokens, build, intern)

    line_pool = ['auto', '1', '2', '-1', '0', 'span', 'a', 'foo', 'span', '/', '/', '3', '1.5', 'AUTO']
    for key in ('grid-row', 'grid-column', 'grid-area'):
        fn = expanders.EXPANDERS[key].__name__
        for _ in range(count):
            if run.rng.random() < 0.6:
                parts = [run.rng.choice(['auto', '1', '2', 'a', 'span 2', 'span a', 'a 2', '-1', 'span a 3', 'foo', '0',
                                         'span', 'auto 1', ''])
                         for _ in range(run.rng.choice([1, 1, 2, 2, 3, 4, 5]))]
                tokens = tokens_of(' / '.join(parts))
            else:
                tokens = pick(line_pool, 7, soup=0.03)
            if not tokens:
                continue

            def build(ids, table, tokens=tokens, key=key, fn=fn):
                lines = []
                for part in split_slash_ids(tokens):
                    validation = properties.grid_line(part)
                    custom = bool(validation) and set(validation[:2]) == {None}
                    lines.append([bool(validation), custom, [ids[id(t)] for t in part]])
                return sx.line('grid-lines', enc(fn), enc(key), head_atom(tokens), lines, table)
            modelled_raw_case(sec, run, key, 'grid-lines', tokens, build, intern)

    track_pool = ['none', 'auto', '10px', '1fr', '50%', 'min-content', 'repeat(2, 1fr)', 'minmax(1px, 1fr)', '[a]',
                  '/', '/', 'dense', 'auto-flow', 'subgrid', 'foo', '"a b"', '0']
    for key in ('grid-template', 'grid'):
        for _ in range(count):
            r = run.rng.random()
            tracks = lambda: ' '.join(run.rng.choice(['auto', '10px', '1fr', '50%', 'min-content', 'repeat(2, 1fr)',   # noqa: E731
                                                      'minmax(1px, 1fr)', '[a]', 'none', 'foo'])
                                      for _ in range(run.rng.choice([1, 1, 2, 3])))
            if r < 0.35:
                tokens = tokens_of(f'{tracks()} / {tracks()}')
            elif r < 0.65 and key == 'grid':
                flow = run.rng.choice(['auto-flow', 'auto-flow dense', 'dense auto-flow', 'dense', 'auto-flow auto-flow'])
                side = run.rng.choice(['10px', '1fr', '', 'auto', '10px 20px'])
                other = run.rng.choice(['10px', 'none', '1fr 2fr', 'auto-flow', ''])
                text = f'{flow} {side} / {other}' if run.rng.random() < 0.5 else f'{other} / {flow} {side}'
                tokens = tokens_of(text)
            elif r < 0.7:
                tokens = tokens_of('none')
            else:
                tokens = pick(track_pool, 6, soup=0.03)
            if not tokens:
                continue

            def build(ids, table, tokens=tokens, key=key):
                parts = split_slash_ids(tokens)
                wire_parts = [[bool(properties.grid_template(part)), [ids[id(t)] for t in part]] for part in parts]
                single_none = len(tokens) == 1 and utils.get_keyword(tokens[0]) == 'none'
                if key == 'grid-template':
                    return sx.line('grid-template', enc(key), head_atom(tokens), single_none, wire_parts, table)
                sides = [[[utils.get_keyword(t) == 'dense', utils.get_keyword(t) == 'auto-flow', bool(t == part[-1]),
                           ids[id(t)]] for t in part] for part in parts]
                return sx.line('grid', enc(key), head_atom(tokens), single_none, wire_parts, sides, table)
            modelled_raw_case(sec, run, key, key, tokens, build, intern)


def sec_border_image(run):
    """border-image / mask-border: the loop over multi-token sub-grammars, validators as oracles on token slices."""
    _, utils, _, expanders, properties = real.mods()
    sec = run.section('border-image', 'border-image and mask-border by direct call vs the model of their parsing loop '
                      '(source / mode / repeat / slice [/ width [/ outset]]), every validator answer on every token '
                      'slice supplied by the real validators; non-trivial = the value is accepted')
    intern = real.Interner()
    pool = ['url(a.png)', 'none', 'linear-gradient(red, blue)', 'stretch', 'repeat', 'round', 'space', '10', '20%', '30',
            'fill', '1', '/', '/', '2px', '10%', 'auto', '3', '0', 'alpha', 'luminance', 'foo', '-1', '5px']
    for key in ('border-image', 'mask-border'):
        fn = expanders.EXPANDERS[key].__name__
        for _ in range(run.n(500, 6000)):
            if run.rng.random() < 0.5:
                parts = [run.rng.choice(['10', '10 20%', '10 20 30 40', 'fill 10', '10 fill', '10 20 30 40 50'])]
                if run.rng.random() < 0.7:
                    parts.append('/ ' + run.rng.choice(['2px', '1 2', 'auto 10%', '1 2 3 4', '', 'foo']))
                    if run.rng.random() < 0.5:
                        parts.append('/ ' + run.rng.choice(['1', '2px 3', '1 2 3 4', '', 'foo']))
                extra = [run.rng.choice(['url(a.png)', 'stretch', 'round space', 'alpha', 'none', ''])
                         for _ in range(run.rng.choice([0, 1, 2]))]
                pieces = parts + extra
                if run.rng.random() < 0.5:
                    pieces = extra + parts
                tokens = tokens_of(' '.join(pieces))
            else:
                tokens = tokens_of(' '.join(run.rng.choice(pool) for _ in range(run.rng.choice([1, 2, 3, 4, 5, 6]))))
            if not tokens or len(tokens) > 12:
                continue

            def build(ids, table, tokens=tokens, key=key, fn=fn):
                n = len(tokens)
                one = lambda f, *a: [bool(f([t], *a)) for t in tokens]     # noqa: E731
                pairs = lambda f: [[i, j] for i in range(n) for j in range(i + 1, n + 1) if f(tokens[i:j])]  # noqa: E731
                return sx.line(
                    'border-image', enc(fn), enc(key), head_atom(tokens), key == 'mask-border', n,
                    one(properties.border_image_source, BASE_URL), one(properties.mask_border_mode),
                    one(properties.border_image_repeat), [utils.get_keyword(t) == 'fill' for t in tokens],
                    [t.type == 'literal' and t.value == '/' for t in tokens], pairs(properties.border_image_slice),
                    pairs(properties.border_image_width), pairs(properties.border_image_outset), table)
            modelled_raw_case(sec, run, key, key, tokens, build, intern)


def sec_background(run):
    """expand_background: layers, the stack loop of parse_layer, position / size slices, origin / clip."""
    from weasyprint.css.properties import INITIAL_VALUES
    _, utils, _, expanders, properties = real.mods()
    sec = run.section('background', 'the background shorthand by direct call vs the model of parse_layer (every '
                      'validator answer on every token / slice given by the real single_value validators) and of the '
                      'layer assembly; non-trivial = accepted')
    intern = real.Interner()
    names = ['background-color', 'background-image', 'background-repeat', 'background-attachment',
             'background-position', 'background-size', 'background-clip', 'background-origin']
    pool = ['red', '#00f', 'url(a.png)', 'none', 'linear-gradient(red, blue)', 'no-repeat', 'repeat-x', 'repeat', 'space',
            'round', 'fixed', 'scroll', 'local', '0', '10px', '50%', 'left', 'top', 'center', 'right', 'bottom', '/', '/',
            'cover', 'contain', 'auto', '20px', 'border-box', 'padding-box', 'content-box', ',', 'foo', 'transparent']

    def atom(value):
        return 'none' if value is None else intern(value)
    for _ in range(run.n(1200, 15000)):
        if run.rng.random() < 0.5:
            layer = lambda final: ' '.join(run.rng.sample(          # noqa: E731
                [run.rng.choice(['url(a.png)', 'none', 'linear-gradient(red, blue)']),
                 run.rng.choice(['no-repeat', 'repeat-x', 'space round', 'repeat no-repeat']),
                 run.rng.choice(['fixed', 'local']),
                 run.rng.choice(['left top', '10px 20px', 'center', '50%', 'right 10px bottom 5px', 'left 10px top',
                                 '0 0 / cover', 'center / 10px 20px', '10px / auto', 'top / contain', '0 0 /']),
                 run.rng.choice(['border-box', 'padding-box content-box']),
                 *(['red'] if final and run.rng.random() < 0.6 else [])], run.rng.choice([1, 2, 3, 4])))
            k = run.rng.choice([1, 1, 2, 3])
            text = ', '.join(layer(i == k - 1) for i in range(k))
        else:
            text = ' '.join(run.rng.choice(pool) for _ in range(run.rng.choice([1, 2, 3, 4, 5, 6])))
        if run.rng.random() < 0.03:
            text = run.rng.choice(['inherit', 'initial', 'var(--b)', 'red var(--b)'])
        tokens = tokens_of(text)
        if not tokens:
            continue
        kind, result, exc = real.outcome_list(lambda: expanders.EXPANDERS['background'](tuple(tokens), 'background',
                                                                                   BASE_URL))
        if kind == 'ok':
            parts = []
            for name, value in result:
                if real.canon(value) in ('kw:inherit', 'kw:initial', 'pending'):
                    parts.append(f' ({name} {real.canon(value)})')
                elif name == 'background-color':
                    parts.append(f' ({name} {intern(value)})')
                else:
                    parts.append(f' ({name}' + ''.join(f' {intern(v)}' for v in value) + ')')
            impl = 'ok' + ''.join(parts)
        else:
            impl = result
        layers = []
        try:
            for part in utils.split_on_comma(tokens):
                n = len(part)
                one = lambda f, *a: [atom(f(part[i:i + 1], *a)) for i in range(n)]     # noqa: E731
                layers.append([
                    n, [atom(properties.background_repeat.single_value(part[i:i + 2])) for i in range(n)],
                    one(properties.background_repeat.single_value), one(properties.other_colors),
                    one(properties.background_image.single_value, BASE_URL),
                    one(properties.background_attachment.single_value),
                    [[i, ln, intern(v)] for i in range(n) for ln in (1, 2, 3, 4) if i + ln <= n
                     for v in [properties.background_position.single_value(part[i:i + ln])] if v is not None],
                    [[i, ln, intern(v)] for i in range(n + 1) for ln in (0, 1, 2)
                     for v in [properties.background_size.single_value(part[i:i + ln])] if v is not None],
                    one(properties.box.single_value), [t.type == 'literal' and t.value == '/' for t in part]])
        except Exception:  # noqa: BLE001 - a validator crashed on a slice: the funnel section reports such values
            continue
        initials = [[n, intern(INITIAL_VALUES[n.replace('-', '_')] if n == 'background-color'
                               else INITIAL_VALUES[n.replace('-', '_')][0])] for n in names]
        sec.add(sx.line('background', head_atom(tokens), layers, initials), impl, meta={'key': 'background', 'css': text},
                nontrivial=impl.startswith('ok'),
                tags=['ok' if impl.startswith('ok') else impl, f'layers{min(len(layers), 3)}'])


def sec_pending_expander(run):
    """A shorthand containing var(): PendingExpander.solve on the substituted tokens, per longhand."""
    _, utils, _, expanders, properties = real.mods()
    sec = run.section('pending-expander', 'every shorthand with var(): the real PendingExpander.validate of each '
                      'longhand on substituted tokens vs the model fed with the items of the real registered expander '
                      '(the whole expansion is consumed first: a failure anywhere refuses every longhand); '
                      'non-trivial = the expansion of the substituted value fails after yielding an item')
    intern = real.Interner()
    var_tokens = tuple(tokens_of('var(--v)'))
    for key in sorted(expanders.EXPANDERS):
        kind, pending, _ = real.outcome_list(lambda: expanders.EXPANDERS[key](var_tokens, key, BASE_URL))
        if kind != 'ok':
            continue
        for _ in range(run.n(12, 150)):
            text = value_for(run, key, ('own', 'own', 'own', 'own', 'near', 'other'))
            tokens = tuple(tokens_of(text))
            if not tokens or real.has_var(tokens):
                continue
            outcomes = []
            for long_name, pend in pending:
                if not isinstance(pend, utils.Pending):
                    continue
                items, end = real.run_generator(lambda: pend.validator(tokens))
                try:
                    value = pend.validate(tokens, long_name)
                    impl = f'ok {intern(value)}'
                except Exception as exc:  # noqa: BLE001
                    impl = real.fail_atom(exc)
                outcomes.append(impl)
                wire_items = [[enc(k), intern(v)] for k, v in items]
                sec.add(sx.line('pending-expander', enc(pend.validator.keywords['name']), enc(long_name), wire_items,
                                end or 'none'), impl, meta={'key': key, 'css': text, 'longhand': long_name},
                        nontrivial=bool(items) and end is not None, tags=[impl.split(' ')[0]])
            if outcomes and any(o.startswith('ok') for o in outcomes) and any(o == 'invalid' for o in outcomes):
                sec.tags['partially-applied'] += 1      # must stay 0 (fix: f9155ce); the model refuses all or none
            if outcomes and all(o == 'invalid' for o in outcomes):
                sec.tags['all-refused'] += 1



def sec_vns(run):
    _, utils, _, expanders, properties = real.mods()
    from weasyprint.css.properties import KNOWN_PROPERTIES
    sec = run.section('validate-non-shorthand', 'validate_non_shorthand by direct call on every registered, known, '
                      'shorthand, unknown and custom name x required x values vs its skeleton model (the registered '
                      'validator function called separately); non-trivial = not rejected by name')
    intern = real.Interner()
    names = sorted(set(properties.PROPERTIES) | set(KNOWN_PROPERTIES) | set(expanders.EXPANDERS)) + [
        '--x', '--', 'nope', 'Color', '-weasy-anchor']
    for name in names:
        for _ in range(run.n(12, 120)):
            required = run.rng.random() < 0.35
            base = name if name in properties.PROPERTIES else 'width'
            text = value_for(run, base, ('own', 'own', 'other', 'soup'))
            if run.rng.random() < 0.12:
                text = run.rng.choice(['inherit', 'initial', 'INHERIT', 'var(--a)', 'var(--a) 1px', 'inherit 1px'])
            tokens = tuple(tokens_of(text))
            fnres = 'none'
            if name in properties.PROPERTIES and not name.startswith('--'):
                function = properties.PROPERTIES[name]
                try:
                    value = function(tokens, BASE_URL) if function.wants_base_url else function(tokens)
                    fnres = ['ok', intern(value)] if value is not None else 'none'
                except Exception as exc:  # noqa: BLE001
                    fnres = real.fail_atom(exc)
            try:
                (out_name, value), = properties.validate_non_shorthand(tokens, name, BASE_URL, required)
                impl = f'ok ({enc(out_name)} {intern(value)})'
            except Exception as exc:  # noqa: BLE001
                impl = real.fail_atom(exc)
            kw = utils.get_single_keyword(tokens)
            sec.add(sx.line('vns', enc(name), required, real.has_var(tokens), enc(kw) if kw is not None else 'none',
                            intern(tokens), fnres), impl, meta={'name': name, 'css': text, 'required': required},
                    nontrivial=name in properties.PROPERTIES, tags=['ok' if impl.startswith('ok') else impl])



# ------------------------------------------------------------------- lengths: validation then computation

UNIT_SPELLINGS = None


def unit_spellings():
    """Every LENGTH_UNIT as written, upper-cased, capitalised, mixed; plus units that are not lengths."""
    global UNIT_SPELLINGS
    if UNIT_SPELLINGS is None:
        from weasyprint.css.utils import LENGTH_UNITS
        out = []
        for unit in sorted(LENGTH_UNITS):
            out += [unit, unit.upper(), unit.capitalize(), unit[:-1] + unit[-1].upper()]
        UNIT_SPELLINGS = sorted(set(out)) + ['vw', 'vh', 'deg', 'fr', 'xx', 'PX2', 'pxx', 'p']
    return UNIT_SPELLINGS


def ltok_wire(tok):
    if tok.type == 'number':
        return ['number', Fraction(tok.value)]
    if tok.type == 'dimension':
        return ['dimension', Fraction(tok.value), enc(tok.unit), enc(tok.lower_unit)]
    if tok.type == 'percentage':
        return ['percentage', Fraction(tok.value)]
    return 'other'


def length_token_text(rng):
    r = rng.random()
    value = rng.choice(['0', '1', '2', '0.5', '-1', '-0.25', '12', '96', '1.5', '-3', '0.0', '-0', '100'])
    if r < 0.70:
        return value + rng.choice(unit_spellings())
    if r < 0.82:
        return value + '%'
    if r < 0.94:
        return value
    return rng.choice(['auto', 'red', '"s"', 'calc(1px)', '/', 'thin', 'normal'])


def font_style_for(font_size, root_size, ex, ch):
    from weasyprint.css import computed_values

    class Style(dict):
        pass
    style = Style(font_size=float(font_size), font_family=('x',), font_style='normal', font_stretch='normal',
                  font_weight=400, font_variant_caps='normal', font_variant_east_asian='normal',
                  font_variant_ligatures='normal', font_variant_numeric='normal', font_variant_position='normal',
                  font_variant_alternates='normal', font_kerning='auto', font_feature_settings='normal',
                  font_language_override='normal', font_variation_settings='normal', lang=None)
    root = Style(font_size=float(root_size))
    style.root_style = root
    key = computed_values._font_style_cache_key(style)
    style.cache = {'ratio_ex': {key: float(ex)}, 'ratio_ch': {key: float(ch)}}
    return style


def computed_out(out):
    """(wire text, exact value) of what `computed_values.length` returned."""
    from weasyprint.css.properties import Dimension
    if isinstance(out, Exception):
        return f'err:{type(out).__name__}', Fraction(0)
    if isinstance(out, str):
        return f'kw {enc(out)}', Fraction(0)
    number = out.value if isinstance(out, Dimension) else out
    impl_q = Fraction(number)
    nice = impl_q.limit_denominator(5000)
    rel = 'exact' if nice == impl_q else 'near'
    if isinstance(out, Dimension):
        return f'dim {sx.atom(nice)} {enc(out.unit) if out.unit is not None else "none"} {rel}', impl_q
    return f'number {sx.atom(nice)} {rel}', impl_q


def length_properties():
    """Longhands computed by `computed_values.length` whose validator is `get_length` with fixed flags (probed)."""
    from weasyprint.css import computed_values
    _, utils, _, _, properties = real.mods()
    out = []
    for key, fn in computed_values.COMPUTER_FUNCTIONS.items():
        if fn is not computed_values.length:
            continue
        name = key.replace('_', '-')
        if name not in properties.PROPERTIES:
            continue
        accepts = lambda text: G.call_validator(name, text)[0] == 'ok'     # noqa: E731
        if not accepts('2px'):
            continue
        out.append((name, accepts('-2px'), accepts('50%')))
    return sorted(out)


def sec_lengths(run):
    from weasyprint.css import computed_values
    from weasyprint.css.properties import Dimension
    _, utils, _, _, properties = real.mods()
    sec = run.section('get-length', 'utils.get_length by direct call on number / dimension / percentage tokens, every '
                      'LENGTH_UNIT in lower, upper and mixed case plus foreign units, all four flag combinations, vs the '
                      'model; non-trivial = a dimension token')
    for _ in range(run.n(1500, 30000)):
        text = length_token_text(run.rng)
        toks = tokens_of(text)
        if len(toks) != 1:
            continue
        tok = toks[0]
        negative, percentage = run.rng.random() < 0.5, run.rng.random() < 0.5
        got = utils.get_length(tok, negative=negative, percentage=percentage)
        impl = 'none' if got is None else f'dim {sx.atom(Fraction(got.value))} {enc(got.unit) if got.unit is not None else "none"}'
        sec.add(sx.line('get-length', negative, percentage, ltok_wire(tok)), impl, meta={'token': text},
                nontrivial=tok.type == 'dimension',
                tags=[tok.type, 'accepted' if got is not None else 'rejected'])
    sec2 = run.section('length-pipeline', 'every longhand computed by computed_values.length: the real validator '
                       '(validate_non_shorthand) then the real computer on one token, vs model get_length (flags probed '
                       'from the validator) then model length: an accepted length must come out in px (or stay a '
                       'percentage); non-trivial = accepted')
    props = length_properties()
    run.extra['length_properties'] = len(props)
    for name, negative, percentage in props:
        for _ in range(run.n(60, 1200)):
            text = length_token_text(run.rng)
            toks = tokens_of(text)
            if len(toks) != 1 or toks[0].type not in ('number', 'dimension', 'percentage'):
                continue
            tok = toks[0]
            font_size = Fraction(run.rng.choice([8, 10, 16, 20]))
            root_size = Fraction(run.rng.choice([10, 16, 24]))
            ex, ch = Fraction(run.rng.choice([1, 2, 3]), 4), Fraction(run.rng.choice([1, 2]), 2)
            style = font_style_for(font_size, root_size, ex, ch)
            try:
                (_, value), = properties.validate_non_shorthand([tok], name, BASE_URL, required=True)
            except utils.InvalidValues:
                value = None
            except Exception as exc:  # noqa: BLE001
                value = exc
            impl_q = Fraction(0)
            if value is None:
                impl = 'rejected'
            elif isinstance(value, Exception):
                impl = f'err:{type(value).__name__}'
            elif not isinstance(value, Dimension):
                continue        # a keyword or a number of this property's own grammar (line-height: 2)
            else:
                try:
                    out = computed_values.length(style, name, value)
                except Exception as exc:  # noqa: BLE001
                    out = exc
                impl, impl_q = computed_out(out)
            sec2.add(sx.line('length-pipeline', negative, percentage, font_size, root_size, ex, ch, False,
                             ltok_wire(tok), impl_q), impl, meta={'name': name, 'css': text},
                     nontrivial=impl != 'rejected', tags=[impl.split(' ')[0]])


def judge_length_declaration(name, css):
    """Clauses on `name: <one token>`: either the declaration is dropped (and then has no effect), or it is
    supported: then its computed value is in px / % and the document renders; never an abort."""
    import tinycss2
    from weasyprint.css import computed_values
    from weasyprint.css.properties import Dimension
    _, utils, validation, _, _ = real.mods()
    decls = tinycss2.parse_blocks_contents(f'{name}: {css}')
    try:
        out = list(validation.preprocess_declarations(BASE_URL, decls))
    except Exception as exc:  # noqa: BLE001
        return f'`{name}: {css}` makes preprocess_declarations raise {type(exc).__name__}'
    for _, value, _ in out:
        values = value if isinstance(value, tuple) and not isinstance(value, Dimension) else (value,)
        for v in values:
            if isinstance(v, Dimension) and v.unit not in (None, '%') and v.unit not in utils.LENGTH_UNITS:
                return (f'`{name}: {css}` is accepted as {real.canon(v)}: the unit {v.unit!r} is not one of the length '
                        f'units the engine converts (LENGTH_UNITS), so the value is never turned into pixels '
                        f'(not interchangeable with its px spelling, layout aborts)')
    sel = '.p'
    a, exc = render_fp(f'{sel}{{border-style:solid;{name}: {css}}}')
    if exc is not None and not known_crash(exc):
        return f'`{sel}{{{name}: {css}}}` aborts rendering with {type(exc).__name__}'
    if not out:
        b, _ = render_fp(f'{sel}{{border-style:solid}}')
        if a != b:
            return f'`{name}: {css}` is dropped by the funnel but changes the rendering'
    return None


# ------------------------------------------- computed values: equal absolute lengths in any unit, at any depth

NESTED_LENGTH_TEMPLATES = [
    '10px', '10px 20px', '10px 20px 30px 40px', 'repeat(2, 10px)', 'repeat(3, 10px 20px)', 'repeat(2, minmax(10px, 1fr))',
    'repeat(2, minmax(10px, 20px)) 30px', '[a] 10px [b] repeat(2, 20px [c]) 30px', 'repeat(2, fit-content(10px))',
    'minmax(10px, 20px)', 'minmax(10px, 1fr) 20px', 'fit-content(10px)', 'fit-content(10px) 20px', '10px minmax(20px, auto)',
    'repeat(auto-fill, 10px)', 'repeat(auto-fit, minmax(10px, 1fr))', 'translate(10px, 20px)', 'translate(10px)',
    'translatex(10px) translatey(20px)', 'rotate(3deg) translate(10px, 20px)', 'rect(10px, 20px, 30px, 40px)',
    '10px / 20px', '10px 20px / 30px', 'left 10px top 20px', '10px 50%', 'center / 10px 20px', '10px auto',
    'auto 10px', '10px solid', 'circle at 10px 20px', 'radial-gradient(circle at 10px 20px, red, blue)',
    'radial-gradient(10px 20px at center, red, blue)', 'linear-gradient(red 10px, blue 20px)',
    'repeating-linear-gradient(red, blue 10px)', '1 10px', '10px 2', 'a 10px', '"x" 10px', 'bold 10px serif',
    '10px/20px serif', '2 10px', '10px dotted red', 'red 10px 20px', '10px 20px red', 'a4 landscape', '10px landscape',
]
UNIT_SPELLINGS_EXACT = [('in', Fraction(1, 96)), ('pt', Fraction(72, 96)), ('pc', Fraction(6, 96)),
                        ('cm', Fraction(254, 9600)), ('mm', Fraction(254, 960)), ('q', Fraction(1016, 960))]
PX_VALUES = [96, 48, 192, 144]       # 1in, 0.5in, 2in, 1.5in: every spelling below is an exact float


def px_literals(text):
    import re
    return list(re.finditer(r'(?<![\w.#-])(-?\d+(?:\.\d+)?)px\b', text))


def respell(text, unit, per_px):
    """`text` with its k-th px literal replaced by PX_VALUES[k % 4] px (spelling A) and by the same length in `unit`
    (spelling B); None when a spelling is not an exact float."""
    from weasyprint.css.utils import LENGTHS_TO_PIXELS
    out_a, out_b, last = [], [], 0
    for k, m in enumerate(px_literals(text)):
        px = PX_VALUES[k % len(PX_VALUES)]
        value = px * per_px
        if float(value) * LENGTHS_TO_PIXELS[unit] != float(px):
            return None
        out_a.append(text[last:m.start()] + f'{px}px')
        out_b.append(text[last:m.start()] + f'{float(value):.10g}{unit}')
        last = m.end()
    return ''.join(out_a) + text[last:], ''.join(out_b) + text[last:]


COMPUTED_PRE = 'border-style: solid; outline-style: solid; column-rule-style: solid; position: relative; display: block'


@__import__('functools').lru_cache(maxsize=None)
def length_templates(name):
    """Value texts with px lengths (at any depth) that the real validator of `name` accepts."""
    texts = [a for a in G.accepted_singles(name) if px_literals(a)] + NESTED_LENGTH_TEMPLATES
    seen, out = set(), []
    for t in texts:
        if t not in seen and 'var(' not in t and 'attr(' not in t and 'calc(' not in t and 'e3px' not in t \
                and G.call_validator(name, t)[0] == 'ok':
            seen.add(t)
            out.append(t)
    return tuple(out)


def computed_of(name, text):
    key = name.replace('-', '_')
    _, child = style_pair('font-size: 16px', f'{COMPUTED_PRE}; {name}: {text}')
    return style_value(child, key)[0]


def sec_computed_units(run):
    from weasyprint.css.properties import INITIAL_VALUES
    _, _, _, _, properties = real.mods()
    sec = run.section('computed-units', 'real ComputedStyle on every longhand x every value text of its own grammar '
                      'that contains px lengths at any depth (single tokens, tuples, repeat() / minmax() / '
                      'fit-content() tracks, transform functions, gradients, positions, rect()): the computed value of the '
                      'text respelled in in / pt / pc / cm / mm / q equals the computed value of the px spelling (echo), '
                      'and both spellings are accepted alike; non-trivial = the length sits inside a function')
    count, known = 0, 0
    for name in sorted(properties.PROPERTIES):
        key = name.replace('-', '_')
        if key not in INITIAL_VALUES or key in PENDING_SKIP:
            continue
        templates = length_templates(name)
        for text in templates:

            units = UNIT_SPELLINGS_EXACT if run.thorough else run.rng.sample(UNIT_SPELLINGS_EXACT, 2)
            for unit, per_px in units:
                pair = respell(text, unit, per_px)
                if pair is None:
                    continue
                a, b = pair
                if G.call_validator(name, a)[0] != 'ok':
                    continue
                want = computed_of(name, a)
                got = computed_of(name, b) if G.call_validator(name, b)[0] == 'ok' else 'dropped'
                count += 1
                sec.add(sx.line('echo', real.digest(want)), real.digest(got),
                        meta={'name': name, 'px': a, 'other': b, 'unit': unit},
                        nontrivial='(' in text, tags=[f'unit:{unit}', 'nested' if '(' in text else 'flat'])
    run.extra['computed_units_known_finding_skipped'] = known
    run.extra['computed_units_properties'] = len({m['name'] for s in run.sections if s.name == 'computed-units'
                                                  for m in s.meta})


# -------------------------------------------------------------- grid track lists: the computer, by direct call

TRACK_LENGTHS = ['96px', '1in', '72pt', '6pc', '2.54cm', '25.4mm', '101.6q', '48px', '0.5in', '36pt', '3pc', '2em',
                 '1.5em', '1rem', '4ex', '2ch', '50%', '0', '0px', '10px']


def track_wire(value, q=Fraction):
    """A validated / computed track-list element as the wire form of `Wp.Tracks07.Track`.  `q`: how a float becomes a
    rational — specified values are sent as the decimal that was written (2.54 is 254/100, not its binary
    neighbour), computed ones as the exact binary value."""
    from weasyprint.css.properties import Dimension

    def breadth(b):
        if isinstance(b, str):
            return ['kw', enc(b)]
        if isinstance(b, Dimension):
            return ['dim', q(b.value), enc(b.unit) if b.unit is not None else 'none']
        raise ValueError(b)
    if isinstance(value, str) or isinstance(value, Dimension):
        return ['breadth', breadth(value)]
    if isinstance(value, (tuple, list)) and value and value[0] == 'minmax()':
        return ['minmax', breadth(value[1]), breadth(value[2])]
    if isinstance(value, (tuple, list)) and value and value[0] == 'fit-content()':
        return ['fit', q(value[1].value), enc(value[1].unit) if value[1].unit is not None else 'none']
    if isinstance(value, (tuple, list)) and value and value[0] == 'repeat()':
        return ['rep', enc(str(value[1])), [track_wire(v, q) for v in value[2]]]
    if isinstance(value, (tuple, list)) and all(isinstance(v, str) for v in value):
        return ['names', *[enc(v) for v in value]]
    raise ValueError(value)


def decimal(x):
    return Fraction(repr(float(x)))


def track_text(rng, depth):
    """A track list text: names / sizes alternating, nested repeat()."""
    def breadth():
        return rng.choice(TRACK_LENGTHS + ['1fr', '2fr', 'auto', 'min-content', 'max-content'])

    def size():
        r = rng.random()
        if r < 0.5:
            return breadth()
        if r < 0.7:
            return f'minmax({rng.choice(TRACK_LENGTHS + ["auto", "min-content"])}, {breadth()})'
        if r < 0.82:
            return f'fit-content({rng.choice(TRACK_LENGTHS)})'
        if depth > 0:
            inner = ' '.join(track_text(rng, depth - 1) for _ in range(rng.choice([1, 1, 2])))
            return f'repeat({rng.choice(["2", "3", "1", "auto-fill", "auto-fit"])}, {inner})'
        return breadth()
    parts = []
    for _ in range(rng.choice([1, 1, 2, 3])):
        if rng.random() < 0.3:
            parts.append(rng.choice(['[a]', '[a b]', '[]']))
        parts.append(size())
    if rng.random() < 0.2:
        parts.append('[z]')
    return ' '.join(parts)


def sec_tracks(run):
    from weasyprint.css import computed_values
    _, _, _, _, properties = real.mods()
    sec = run.section('track-size', 'real computed_values.grid_template / grid_auto by direct call on the track lists '
                      'the real validators build from generated texts (line names, lengths in every absolute and '
                      'font-relative unit, %, fr, keywords, minmax(), fit-content(), repeat() nested up to depth 2, '
                      'none, subgrid) vs the model of _track_size and its recursion; non-trivial = a repeat() holding '
                      'a length that is not in px')
    for _ in range(run.n(500, 8000)):
        auto = run.rng.random() < 0.25
        name = run.rng.choice(['grid-auto-columns', 'grid-auto-rows'] if auto else
                              ['grid-template-columns', 'grid-template-rows'])
        r = run.rng.random()
        text = 'none' if (r < 0.03 and not auto) else 'subgrid [a] [b]' if (r < 0.06 and not auto) else \
            track_text(run.rng, 0 if auto else 2)
        tokens = tokens_of(text)
        try:
            values = properties.PROPERTIES[name](tokens)
        except Exception:  # noqa: BLE001 - the funnel section reports crashing validators
            continue
        if values is None:
            continue
        fs, rfs = Fraction(run.rng.choice([16, 10, 20])), Fraction(run.rng.choice([16, 12]))
        ex, ch = Fraction(run.rng.choice([1, 2]), 4), Fraction(1, 2)
        style = font_style_for(fs, rfs, ex, ch)
        try:
            if auto:
                out = computed_values.grid_auto(style, name, values)
                impl = sx.line(*[track_wire(v) for v in out])
                impl = f'({impl})' if out else '()'
                line = sx.line('track-auto', fs, rfs, ex, ch, [track_wire(v, decimal) for v in values])
            else:
                out = computed_values.grid_template(style, name, values)
                if out == 'none':
                    impl, tpl = 'none', 'none'
                elif out[0] == 'subgrid':
                    impl, tpl = 'subgrid', 'subgrid'
                else:
                    impl = '(' + sx.line('tracks', *[track_wire(v) for v in out]) + ')'
                    tpl = ['tracks', *[track_wire(v, decimal) for v in values]]
                line = sx.line('track-template', fs, rfs, ex, ch, tpl)
        except Exception as exc:  # noqa: BLE001
            impl = real.fail_atom(exc)
            line = sx.line('track-template', fs, rfs, ex, ch, 'none')
        import re
        nested = bool(re.search(r'repeat\([^)]*\d(in|pt|pc|cm|mm|q|em|rem|ex|ch)\b', text))
        sec.add(line, impl, meta={'name': name, 'css': text, 'font_size': str(fs)}, nontrivial=nested,
                tags=['auto' if auto else 'template', *(['repeat-non-px'] if nested else []),
                      *(['repeat-in-repeat'] if text.count('repeat(') > 1 else [])])


# ------------------------------------------------------------------------------- grid_line, by direct call

GRID_LINE_POOL = ['auto', 'AUTO', 'span', 'Span', 'a', 'B', 'foo', 'inherit', 'initial', 'none', '1', '2', '-1', '-3', '0',
                  '+2', '-0', '1.5', '2.0', '1e1', '2px', '50%', '"s"', 'f(x)', '[a]', '/', ',']


def gtok_wire(tok):
    from weasyprint.css.utils import get_keyword
    kw = get_keyword(tok)
    if kw is not None:
        return ['id', enc(kw), enc(tok.value)]
    if tok.type == 'number' and tok.is_integer:
        return ['int', tok.int_value]
    return 'other'


def grid_line_out(value):
    if value is None:
        return 'invalid'
    if value == 'auto':
        return 'auto'
    span, number, ident = value
    return (f'line {"span" if span else "none"} {number if number is not None else "none"} '
            f'{enc(ident) if ident is not None else "none"}')


def sec_grid_line(run):
    _, _, _, _, properties = real.mods()
    sec = run.section('grid-line', 'properties.grid_line (grid-row-start / -end, grid-column-start / -end) by direct '
                      'call on 0..4 tokens (auto, span, identifiers in any case, CSS-wide keywords, signed / zero / '
                      'non-integer numbers, dimensions, strings, functions, blocks, literals): every ordered pair of the '
                      'pool, then random longer values, vs the model; non-trivial = accepted')
    pool = GRID_LINE_POOL
    texts = [''] + list(pool) + [f'{a} {b}' for a in pool for b in pool]
    for _ in range(run.n(700, 12000)):
        texts.append(' '.join(run.rng.choice(pool) for _ in range(run.rng.choice([3, 3, 4]))))
    for text in texts:
        tokens = tokens_of(text)
        try:
            impl = grid_line_out(properties.grid_line(tokens))
        except Exception as exc:  # noqa: BLE001
            impl = real.fail_atom(exc)
        sec.add(sx.line('grid-line', [gtok_wire(t) for t in tokens]), impl, meta={'name': 'grid-row-start', 'css': text},
                nontrivial=impl != 'invalid', tags=[impl.split(' ')[0], f'n{min(len(tokens), 4)}',
                                                    *(['span'] if impl.startswith('line span') else [])])


def judge_grid_line(meta):
    """css-grid-1 §8.3 on the real validator, independently of the source: auto | <custom-ident> |
    [ <integer> && <custom-ident>? ] | [ span && [ <integer [1,∞]> || <custom-ident> ] ], components in any order."""
    import itertools
    _, _, _, _, properties = real.mods()
    tokens = tokens_of(meta['css'])

    def ref(toks):
        kinds = []
        for t in toks:
            if t.type == 'ident':
                kinds.append(('span',) if t.lower_value == 'span' else ('auto',) if t.lower_value == 'auto'
                             else ('ident', t.value))
            elif t.type == 'number' and t.int_value is not None and t.int_value != 0:
                kinds.append(('int', t.int_value))
            else:
                return None
        if kinds == [('auto',)]:
            return 'auto'
        if ('auto',) in kinds:
            return None
        spans = [k for k in kinds if k == ('span',)]
        ints = [k[1] for k in kinds if k[0] == 'int']
        idents = [k[1] for k in kinds if k[0] == 'ident']
        if len(spans) > 1 or len(ints) > 1 or len(idents) > 1 or not kinds:
            return None
        if spans:
            if (not ints and not idents) or (ints and ints[0] < 1):
                return None
        elif not ints and len(kinds) > 1:
            return None
        elif not ints and not idents:
            return None
        return ('span' if spans else None, ints[0] if ints else None, idents[0] if idents else None)
    if any(t.type == 'ident' and t.lower_value in ('inherit', 'initial') for t in tokens):
        return None      # known finding css-wide-keyword-as-ident
    try:
        got = properties.grid_line(tokens)
    except Exception as exc:  # noqa: BLE001
        return f'grid_line raised {type(exc).__name__} on `{meta["css"]}`'
    want = ref(tokens)
    if got != want:
        return (f'`grid-row-start: {meta["css"]}` gives {got!r}, the grammar of <grid-line> gives {want!r}')
    if 2 <= len(tokens) <= 4:
        for perm in itertools.permutations(tokens):
            if properties.grid_line(list(perm)) != got:
                return (f'`grid-row-start: {meta["css"]}` gives {got!r} but the same components in the order '
                        f'`{" ".join(real.tok_text(t) for t in perm)}` give {properties.grid_line(list(perm))!r}')
    return None


# ----------------------------------------------------------------------------- font_family, by direct call

FONT_FAMILY_POOL = ['Arial', 'serif', 'sans-serif', 'Black', 'inherit', 'initial', 'x', 'Times', '"My Font"', '"a, b"',
                    "'q'", '""', '1', '10px', 'f(x)', '[a]', '/', '#fff', ',', ',', ',']


def sec_font_family(run):
    _, utils, _, _, properties = real.mods()
    sec = run.section('font-family', 'properties.font_family (with its @comma_separated_list) by direct call on values '
                      'of 0..6 tokens (identifiers, CSS-wide keywords, strings — one holding a comma —, numbers, '
                      'dimensions, functions, blocks, literals, commas anywhere: leading, trailing, doubled): every '
                      'ordered pair and every `a, b` of the pool, then random longer values, vs the model; non-trivial = '
                      'accepted')
    pool = FONT_FAMILY_POOL
    atoms = sorted(set(pool))
    texts = [''] + atoms + [f'{a} {b}' for a in atoms for b in atoms] + [f'{a}, {b}' for a in atoms for b in atoms]
    for _ in range(run.n(500, 10000)):
        texts.append(' '.join(run.rng.choice(pool) for _ in range(run.rng.choice([3, 4, 5, 6]))))
    for text in texts:
        tokens = tokens_of(text)
        try:
            got = properties.font_family(tokens)
            impl = 'invalid' if got is None else 'ok' + ''.join(f' {enc(f)}' for f in got)
        except Exception as exc:  # noqa: BLE001
            impl = real.fail_atom(exc)
        parts = [[(['s', enc(t.value)] if t.type == 'string' else ['i', enc(t.value)] if t.type == 'ident' else 'x')
                  for t in utils.remove_whitespace(part)] for part in utils.split_on_comma(tokens)] if tokens else [[]]
        sec.add(sx.line('font-family', parts), impl, meta={'name': 'font-family', 'css': text},
                nontrivial=impl != 'invalid', tags=[impl.split(' ')[0], f'parts{min(len(parts), 4)}'])


def judge_font_family(meta):
    """css-fonts-4 §3.1 on the real validator, independently of the source: a comma-separated list, each item one
    <string> or one or more identifiers (joined by one space); nothing else."""
    _, _, _, _, properties = real.mods()
    import tinycss2
    text = meta['css']
    tokens = tokens_of(text)
    if any(t.type == 'ident' and t.lower_value in ('inherit', 'initial') for t in tokens):
        return None      # known finding css-wide-keyword-as-ident
    try:
        got = properties.font_family(tokens)
    except Exception as exc:  # noqa: BLE001
        return f'font_family raised {type(exc).__name__} on `{text}`'
    items, cur, want = [], [], []
    for t in tinycss2.parse_component_value_list(text):
        if t.type == 'literal' and t.value == ',':
            items.append(cur)
            cur = []
        elif t.type not in ('whitespace', 'comment'):
            cur.append(t)
    items.append(cur)
    for item in items:
        if len(item) == 1 and item[0].type == 'string':
            want.append(item[0].value)
        elif item and all(t.type == 'ident' for t in item):
            want.append(' '.join(t.value for t in item))
        else:
            want = None
            break
    want = tuple(want) if want is not None else None
    if got != want:
        return f'`font-family: {text}` gives {got!r}, the grammar of font-family gives {want!r}'
    return None


# ------------------------------------------------------------ gradient images: the computers, by direct call

def gimage_wire(pair, q):
    """One `(type, value)` pair of an image value as the wire form of `Wp.Grad07.Image`."""
    kind, value = pair

    def dim(d):
        return ['d', q(d.value), enc(d.unit) if d.unit is not None else 'none']
    if kind == 'linear-gradient':
        return ['linear', [dim(p) if p is not None else 'none' for p in value.stop_positions]]
    if kind == 'radial-gradient':
        _, pos_x, _, pos_y = value.center
        size = [dim(d) for d in value.size] if value.size_type == 'explicit' else 'none'
        return ['radial', [dim(p) if p is not None else 'none' for p in value.stop_positions],
                [dim(pos_x), dim(pos_y)], size]
    return ['other', enc(str(kind))]


def gradient_text(rng):
    length = lambda: rng.choice(TRACK_LENGTHS)       # noqa: E731
    stop = lambda: rng.choice(['red', 'blue', f'red {length()}', f'blue {length()}', 'green 50%'])    # noqa: E731
    stops = ', '.join(stop() for _ in range(rng.choice([2, 2, 3])))
    r = rng.random()
    if r < 0.4:
        return f'{rng.choice(["", "repeating-"])}linear-gradient({rng.choice(["", "to right, ", "45deg, "])}{stops})'
    if r < 0.9:
        shape = rng.choice(['', 'circle ', f'{length()} {length()} ', 'ellipse ', 'closest-side '])
        at = rng.choice(['', f'at {length()} {length()}', 'at center', f'at left {length()} top {length()}', 'at 25% 75%'])
        head = f'{shape}{at}'.strip()
        return f'{rng.choice(["", "repeating-"])}radial-gradient({head + ", " if head else ""}{stops})'
    return rng.choice(['none', 'url(a.png)'])


def sec_gradients(run):
    from weasyprint.css import computed_values
    _, _, _, _, properties = real.mods()
    computers, valued = c07_numeric.runtime_image_computers()
    sec = run.section('image-computer', 'every property whose validator takes a gradient (runtime probe) and every '
                      'property bound to the computers background_image / image: the real registered computer function '
                      'by direct call on the value the real validator builds from generated linear / radial gradients '
                      '(stops, centre, explicit size in every unit) vs the model; a property without computer keeps its '
                      'value in the model too; non-trivial = a length that is not in px')
    names = sorted(set(valued) | {n for n, _ in computers})
    for name in names:
        key = name.replace('-', '_')
        for _ in range(run.n(60, 1200)):
            layered = name == 'background-image'
            texts = [gradient_text(run.rng) for _ in range(run.rng.choice([1, 2, 3]) if layered else 1)]
            text = ', '.join(texts)
            fn = properties.PROPERTIES[name]
            try:
                value = fn(tokens_of(text), BASE_URL) if fn.wants_base_url else fn(tokens_of(text))
            except Exception:  # noqa: BLE001 - the funnel section reports crashing validators
                continue
            if value is None:
                continue
            pairs = list(value) if layered else [value]
            try:
                before = [gimage_wire(p, decimal) for p in pairs]
            except Exception:  # noqa: BLE001 - a value shape this wire form does not know
                continue
            fs, rfs = Fraction(run.rng.choice([16, 10, 20])), Fraction(run.rng.choice([16, 12]))
            ex, ch = Fraction(run.rng.choice([1, 2]), 4), Fraction(1, 2)
            style = font_style_for(fs, rfs, ex, ch)
            computer = computed_values.COMPUTER_FUNCTIONS.get(key)
            try:
                out = computer(style, name, value) if computer is not None else value
                out_pairs = list(out) if layered else [out]
                impl = '(' + sx.line(*[gimage_wire(p, Fraction) for p in out_pairs]) + ')'
            except Exception as exc:  # noqa: BLE001
                impl = real.fail_atom(exc)
            import re
            sec.add(sx.line('image-computer', fs, rfs, ex, ch, enc(name), before), impl,
                    meta={'name': name, 'css': text}, nontrivial=bool(re.search(r'\d(in|pt|pc|cm|mm|q|em|rem|ex|ch)\b', text)),
                    tags=[name, 'radial' if 'radial' in text else 'linear' if 'linear' in text else 'other'])
    run.extra['image_computers'] = {'computers': dict(computers), 'gradient_valued': valued}


def judge_tracks(meta):
    """A computed track list holds no absolute or font-relative unit any more (layout only takes px, %, fr), and the
    same text with its lengths respelled in px computes to the same list."""
    name, text = meta['name'], meta['css']
    got = computed_of(name, text)
    import re
    left = re.findall(r"Dimension\([-0-9.e]+,'(in|pt|pc|cm|mm|q|Q|em|rem|ex|ch)'\)", got)
    if left:
        return (f'`{name}: {text}` computes to {got[:300]}: the unit(s) {sorted(set(left))} reach layout unconverted '
                f'(equal lengths in different units are not interchangeable; layout asserts px or %)')
    return None


def judge_computed_units(meta):
    name, a, b = meta['name'], meta['px'], meta['other']
    if G.call_validator(name, a)[0] != 'ok':
        return None
    if G.call_validator(name, b)[0] != 'ok':
        return f'`{name}: {a}` is accepted but the same lengths written `{name}: {b}` are dropped'
    want, got = computed_of(name, a), computed_of(name, b)
    if want != got:
        return (f'`{name}: {b}` computes to {got[:300]}, the same lengths in px `{name}: {a}` compute to {want[:300]}: '
                f'equal lengths written in different absolute units are not interchangeable')
    return None


# ------------------------------------------------------------- ComputedStyle.__missing__: pending values

PENDING_CASES = ('absent', 'inherit', 'initial', 'value', 'pending-valid', 'pending-invalid', 'pending-inherit',
                 'pending-initial')
PENDING_SKIP = ('text_decoration_line', 'text_decoration_color', 'text_decoration_style', 'text_decoration_thickness',
                'page', 'anchor', 'link', 'lang')


def cascaded_from(css):
    import tinycss2
    from weasyprint.css.validation import preprocess_declarations
    return {name: (value, 0) for name, value, _ in
            preprocess_declarations(BASE_URL, tinycss2.parse_blocks_contents(css))}


def style_pair(parent_css, child_css):
    """A real root ComputedStyle and a real child of it, from declaration texts."""
    from weasyprint.css import ComputedStyle
    root = ComputedStyle(None, cascaded_from(parent_css), None, None, None, BASE_URL)
    root.root_style = root
    child = ComputedStyle(root, cascaded_from(child_css), None, None, root, BASE_URL)
    return root, child


def style_value(style, key):
    try:
        return real.canon(style[key]), None
    except RecursionError as exc:
        return 'err:RecursionError', exc
    except Exception as exc:  # noqa: BLE001
        return f'err:{type(exc).__name__}', exc


@__import__('functools').lru_cache(maxsize=None)
def pending_samples(name):
    """(valid non-initial value text, invalid value text) for a longhand, from its own / foreign grammar."""
    from weasyprint.css.properties import INITIAL_VALUES
    key = name.replace('-', '_')
    valid = None
    for atom in G.accepted_singles(name):
        if '(' in atom or atom in ('inherit', 'initial') or any(c in atom for c in '"\''):
            continue
        _, child = style_pair('', f'{name}: {atom}')
        _, plain = style_pair('', '')
        if style_value(child, key)[0] != style_value(plain, key)[0] and not style_value(child, key)[0].startswith('err'):
            valid = atom
            break
    invalid = None
    for atom in ('red', '12px', 'solid', '"x"', '7', 'italic', 'rgb(1, 2, 3)', '3deg'):
        if G.call_validator(name, atom)[0] == 'invalid':
            invalid = atom
            break
    return valid, invalid


def pending_case(name, case, root_is_subject):
    """-> (child css, wire casc, reference css for 'specified') for one cascade shape of `name`."""
    valid, invalid = pending_samples(name)
    if case == 'absent':
        return '', 'absent'
    if case == 'inherit':
        return f'{name}: inherit', 'inherit'
    if case == 'initial':
        return f'{name}: initial', 'initial'
    if case == 'value':
        return f'{name}: {valid}', 'value'
    if case == 'pending-valid':
        return f'--v: {valid}; {name}: var(--v)', ['pending', 'valid']
    if case == 'pending-invalid':
        return f'--v: {invalid}; {name}: var(--v)', ['pending', 'invalid']
    if case == 'pending-inherit':
        return f'--v: inherit; {name}: var(--v)', ['pending', 'inherit']
    return f'--v: initial; {name}: var(--v)', ['pending', 'initial']


def sec_pending(run):
    from weasyprint.css.properties import INHERITED, INITIAL_VALUES
    _, _, _, _, properties = real.mods()
    sec = run.section('computed-pending', 'real ComputedStyle.__missing__ on a root and on a child whose parent has a '
                      'non-initial value, for every longhand x {absent, inherit, initial, value, var() -> valid / '
                      'invalid / inherit / initial}: which of specified / parent / initial is selected, vs the model '
                      '(INHERITED regenerated from the source); non-trivial = a var() case')
    names = [n for n in sorted(properties.PROPERTIES) if n.replace('-', '_') not in PENDING_SKIP
             and n.replace('-', '_') in INITIAL_VALUES]
    known = {}
    for name in names:
        key = name.replace('-', '_')
        valid, invalid = pending_samples(name)
        if valid is None or invalid is None:
            continue
        cases = PENDING_CASES if run.thorough else run.rng.sample(PENDING_CASES, 4) + ['pending-invalid']
        for case in cases:
            for subject_is_root in (False, True):
                child_css, casc = pending_case(name, case, subject_is_root)
                if subject_is_root:
                    subject, _ = style_pair(child_css, '')
                    ref_parent = None
                else:
                    root, subject = style_pair(f'{name}: {valid}', child_css)
                    ref_parent, _ = style_value(root, key)
                got, exc = style_value(subject, key)
                # reference values of the three possible selections, computed by the real code on literal declarations
                if subject_is_root:
                    spec, _ = style_value(style_pair(f'{name}: {valid}', '')[0], key)
                    init, _ = style_value(style_pair(f'{name}: initial', '')[0], key)
                else:
                    init, _ = style_value(style_pair(f'{name}: {valid}', f'{name}: initial')[1], key)
                    spec = ref_parent      # the child's own `valid` value equals the parent's: disambiguate below
                if got.startswith('err:'):
                    impl = got
                elif subject_is_root:
                    impl = 'initial' if got == init else 'specified' if got == spec else f'other:{got[:40]}'
                else:
                    # parent carries `valid`; a specified `valid` on the child computes to the same value, so a
                    # different valid value is used for the specified cases
                    impl = 'initial' if got == init else 'parent' if got == ref_parent else f'other:{got[:40]}'
                    if case in ('value', 'pending-valid'):
                        impl = 'specified' if got == ref_parent else impl
                if init == (spec if subject_is_root else ref_parent):
                    continue        # the property's valid sample computes to its initial value here: ambiguous
                sec.add(sx.line('select', enc(key), not subject_is_root, casc), impl,
                        meta={'name': name, 'case': case, 'root': subject_is_root, 'valid': valid, 'invalid': invalid},
                        nontrivial=case.startswith('pending'),
                        tags=[case, 'inherited' if key in INHERITED else 'not-inherited', impl.split(':')[0]])
    run.extra['pending_known'] = known


# ----------------------------------------------- Pending.solve: one object per declaration, many elements

SOLVE_SHORTHANDS = ['margin', 'padding', 'border-width', 'border', 'outline', 'list-style', 'columns', 'flex',
                    'border-radius', 'font', 'text-decoration', 'gap', 'flex-flow', 'border-color']


def pending_objects(name):
    """[(longhand name, the real Pending object the funnel builds for `name: var(--v)`)]"""
    from weasyprint.css.utils import Pending
    return [(n.replace('_', '-'), v) for n, (v, _) in cascaded_from(f'{name}: var(--v)').items()
            if isinstance(v, Pending)]


class WarningCounter:
    """Counts the records the weasyprint logger emits inside the block (the harness keeps it quiet otherwise)."""

    def __enter__(self):
        import logging
        self.logger = logging.getLogger('weasyprint')
        self.level = self.logger.level
        self.count = 0
        counter = self

        class Handler(logging.Handler):
            def emit(self, record):
                counter.count += 1
        self.handler = Handler()
        self.logger.addHandler(self.handler)
        self.logger.setLevel(logging.WARNING)
        return self

    def __exit__(self, *exc):
        self.logger.removeHandler(self.handler)
        self.logger.setLevel(self.level)


def solve_call(pend, tokens, longhand, intern):
    with WarningCounter() as w:
        try:
            out = f'ok:{intern(pend.solve(list(tokens), longhand))}'
        except Exception as exc:  # noqa: BLE001
            out = real.fail_atom(exc)
    return out, w.count


def solve_sequence(name, texts, intern):
    """Calls `solve` of the Pending object(s) of `name: var(--v)` on the token lists of `texts`, in order, the way
    ComputedStyle does for successive elements (every longhand for each element).
    -> [(longhand, text, shared outcome, warnings, outcome of `validate` alone on these tokens)]"""
    rows = []
    for text in texts:
        tokens = tuple(tokens_of(text))
        # the reference answer comes from a FRESH object each time: nothing an earlier call may have left on the
        # shared object (a flag, a cache) can reach it
        fresh = dict(pending_objects(name))
        for longhand, pend in SOLVE_OBJECTS:
            try:
                alone = f'ok:{intern(fresh[longhand].validate(list(tokens), longhand))}' if tokens else 'empty'
            except Exception as exc:  # noqa: BLE001
                alone = real.fail_atom(exc)
            out, warnings = solve_call(pend, tokens, longhand, intern)
            rows.append((longhand, text, out, warnings, alone))
    return rows


SOLVE_OBJECTS = []


@__import__('functools').lru_cache(maxsize=None)
def lookalike_values(name):
    """Pairs of value texts the shorthand `name` accepts that are token-for-token alike at the top level and differ
    only INSIDE a function or a bracket block (rgb(255,0,0) / rgb(0,0,255), repeat(2, 50px) / repeat(4, 25px),
    [a] / [b]), or only in the spelling of one token (1px / 1.0px, red / RED): what a per-declaration cache keyed on
    a lossy view of the tokens would confuse.  Built from the own grammar of the longhands (probed)."""
    longhands = [n for n, _ in pending_objects(name)]
    atoms = []
    for longhand in longhands:
        for a in G.accepted_singles(longhand):
            if a not in atoms and 'var(' not in a and 'attr(' not in a:
                atoms.append(a)
    extra = ['rgb(255, 0, 0)', 'rgb(0, 0, 255)', 'repeat(2, 50px)', 'repeat(4, 25px)', 'minmax(10px, 1fr)',
             'minmax(20px, 2fr)', '[a]', '[b]', 'linear-gradient(red, blue)', 'linear-gradient(blue, red)',
             'translate(1px, 2px)', 'translate(3px, 4px)', 'fit-content(10px)', 'fit-content(20px)']
    atoms += [a for a in extra if a not in atoms]
    groups = {}
    for a in atoms:
        if '(' in a or a.startswith('['):
            head = a.split('(')[0].lower() if '(' in a else '['
            groups.setdefault(head, []).append(a)
    plain = [a for a in atoms if '(' not in a and not a.startswith('[') and a not in ('inherit', 'initial')]
    accepts = lambda t: G.call_validator(name, t)[0] == 'ok'      # noqa: E731
    contexts = ['{}'] + [f'{p} {{}}' for p in plain[:12]] + [f'{{}} {p}' for p in plain[:12]] + \
        [f'{p} / {{}}' for p in plain[:6]] + [f'{p} {q} {{}}' for p in plain[:5] for q in plain[5:9]]
    pairs = []
    for head, members in sorted(groups.items()):
        found = None
        for ctx in contexts:
            ok = [m for m in members if accepts(ctx.format(m))]
            distinct = []
            for m in ok:
                if all(real.canon(G.call_validator(name, ctx.format(m))[1]) !=
                       real.canon(G.call_validator(name, ctx.format(d))[1]) for d in distinct):
                    distinct.append(m)
                if len(distinct) == 2:
                    break
            if len(distinct) == 2:
                found = (ctx.format(distinct[0]), ctx.format(distinct[1]))
                break
        if found:
            pairs.append(found)
    return tuple(pairs[:6])


def sec_pending_solve(run):
    from weasyprint.css.properties import INITIAL_VALUES
    _, _, _, expanders, properties = real.mods()
    sec = run.section('pending-solve', 'the real Pending object the funnel builds for `name: var(--v)` (every longhand '
                      'with a valid / invalid sample, and shorthands), solved 2..5 times in a row on different '
                      'substituted token lists (valid, invalid, empty) as ComputedStyle does for the successive '
                      'elements a rule matches: outcome and number of warnings of every call vs the model state '
                      'machine fed with the answer of `validate` alone; non-trivial = a valid value is solved after an '
                      'invalid one')
    intern = real.Interner()
    names = [n for n in sorted(properties.PROPERTIES) if n.replace('-', '_') in INITIAL_VALUES]
    run.rng.shuffle(names)
    chosen = names[:run.n(50, len(names))] + SOLVE_SHORTHANDS
    global SOLVE_OBJECTS
    # fixed family first: every registered shorthand, look-alike values in a row on ONE shared object
    for name in sorted(expanders.EXPANDERS):
        try:
            pairs = lookalike_values(name)
        except Exception:  # noqa: BLE001 - reported by the funnel section
            continue
        for a, b in pairs:
            try:
                SOLVE_OBJECTS = pending_objects(name)
            except Exception:  # noqa: BLE001
                continue
            if not SOLVE_OBJECTS:
                continue
            texts = [a, b, a, b]
            rows = solve_sequence(name, texts, intern)
            by_object = {}
            for longhand, pend in SOLVE_OBJECTS:
                by_object.setdefault(id(pend), []).append(longhand)
            for longhands in by_object.values():
                mine = [r for r in rows if r[0] in longhands]
                calls = [[alone == 'empty', 'invalid' if alone == 'empty' else
                          (['ok', alone[3:]] if alone.startswith('ok:') else alone)] for _, _, _, _, alone in mine]
                impl = ' '.join(f'{out}/{"w" if warnings else "-"}' for _, _, out, warnings, _ in mine)
                sec.add(sx.line('pending-solve', calls), impl,
                        meta={'name': name, 'texts': texts, 'longhands': longhands}, nontrivial=True,
                        tags=['look-alike', 'shorthand'])
    for name in chosen:
        if name in expanders.EXPANDERS:
            valid_pool = [G.value_text(run.rng, name, 'own') for _ in range(4)]
            invalid_pool = [G.value_text(run.rng, name, run.rng.choice(['other', 'soup'])) for _ in range(3)]
        else:
            try:
                valid, invalid = pending_samples(name)
            except Exception:  # noqa: BLE001
                continue
            if valid is None or invalid is None:
                continue
            valid_pool = [valid] + [a for a in G.accepted_singles(name)[:6] if 'var(' not in a]
            invalid_pool = [invalid, '"x" 3deg', '!']
        for _ in range(run.n(3, 12)):
            try:
                SOLVE_OBJECTS = pending_objects(name)
            except Exception:  # noqa: BLE001 - reported by the funnel section
                continue
            if not SOLVE_OBJECTS:
                continue
            texts = []
            for _ in range(run.rng.choice([2, 3, 3, 4, 5])):
                r = run.rng.random()
                texts.append(run.rng.choice(valid_pool) if r < 0.55 else run.rng.choice(invalid_pool) if r < 0.9 else '')
            texts = [t for t in texts if 'var(' not in t.lower()]
            rows = solve_sequence(name, texts, intern)
            # one protocol line per Pending object (a shorthand shares one object between its longhands)
            by_object = {}
            for longhand, pend in SOLVE_OBJECTS:
                by_object.setdefault(id(pend), []).append(longhand)
            for longhands in by_object.values():
                mine = [r for r in rows if r[0] in longhands]
                calls = [[alone == 'empty', 'invalid' if alone == 'empty' else
                          (['ok', alone[3:]] if alone.startswith('ok:') else alone)] for _, _, _, _, alone in mine]
                impl = ' '.join(f'{out}/{"w" if warnings else "-"}' for _, _, out, warnings, _ in mine)
                seen_invalid, after = False, False
                for _, _, _, _, alone in mine:
                    after = after or (seen_invalid and alone.startswith('ok:'))
                    seen_invalid = seen_invalid or alone in ('invalid', 'empty')
                sec.add(sx.line('pending-solve', calls), impl,
                        meta={'name': name, 'texts': texts, 'longhands': longhands}, nontrivial=after,
                        tags=['valid-after-invalid' if after else 'other', 'shorthand' if len(longhands) > 1 else
                              'longhand', *(['warned'] if '/w' in impl else [])])


def judge_pending_solve(meta):
    """The clause on the real object: what an element gets out of `name: var(--v)` depends on its own substituted
    value only — each call of the shared Pending object answers like a fresh object does."""
    global SOLVE_OBJECTS
    intern = real.Interner()
    SOLVE_OBJECTS = pending_objects(meta['name'])
    shared = solve_sequence(meta['name'], meta['texts'], intern)
    for i, (longhand, text, out, _, _) in enumerate(shared):
        fresh = dict(pending_objects(meta['name']))[longhand]
        alone, _ = solve_call(fresh, tuple(tokens_of(text)), longhand, intern)
        if out != alone:
            earlier = [t for _, t, _, _, _ in shared[:i]]
            return (f'`{meta["name"]}: var(--v)` shared by several elements: with `--v: {text}` the longhand '
                    f'{longhand} is {"refused" if out == "invalid" else out} after the rule was applied to elements '
                    f'with --v = {sorted(set(earlier))}, but {alone} on a fresh object: var() is not the textual '
                    f'substitution of each element\'s own value (what one element gets depends on the values of the others)')
    return None


def judge_pending(meta):
    """var() = textual substitution at computed-value level: `name: var(--v)` with `--v: T` computes like
    `name: T`; an invalid T leaves the property as if the declaration were absent."""
    name, key = meta['name'], meta['name'].replace('-', '_')
    for text in (meta['invalid'], meta['valid'], 'initial', 'inherit'):
        for subject_is_root in (False, True):
            var_css, lit_css = f'--v: {text}; {name}: var(--v)', f'{name}: {text}'
            if subject_is_root:
                a, exc = style_value(style_pair(var_css, '')[0], key)
                b, _ = style_value(style_pair(lit_css, '')[0], key)
                where = 'on the root element'
            else:
                a, exc = style_value(style_pair(f'{name}: {meta["valid"]}', var_css)[1], key)
                b, _ = style_value(style_pair(f'{name}: {meta["valid"]}', lit_css)[1], key)
                where = f'in a child of an element with {name}: {meta["valid"]}'
            if a != b:
                return (f'`{name}: var(--v)` with `--v: {text}` computes to {a} {where}, the textual substitution '
                        f'`{name}: {text}` computes to {b}')
    return None



def sec_descriptors(run):
    """@font-face / @counter-style descriptor blocks through the real preprocess_descriptors, and font-variant."""
    import tinycss2
    from weasyprint.css.validation import descriptors
    _, utils, _, expanders, properties = real.mods()
    sec = run.section('descriptor-funnel', 'real preprocess_descriptors on generated @font-face / @counter-style blocks '
                      '(every registered descriptor x own values / foreign values / token soup, unknown and upper-case '
                      'names, !important, font-display) vs the model funnel fed with each descriptor validated alone; '
                      'any exception other than InvalidValues breaks the model assumption; non-trivial = one kept, '
                      'one dropped')
    intern = real.Interner()
    own = {
        'font-family': ['x', '"My Font"', 'a b', '1'], 'src': ['url(a.woff)', 'local(x)', 'url(a.woff) format("woff")',
                                                               'local("x"), url(b.ttf)', 'format("woff")', 'local()'],
        'font-style': ['normal', 'italic', 'oblique'], 'font-weight': ['normal', 'bold', '400', '1000'],
        'font-stretch': ['condensed', 'normal'], 'font-feature-settings': ['"liga" 1', 'normal', '"ab"'],
        'font-variant': ['normal', 'none', 'small-caps', 'small-caps oldstyle-nums', 'normal small-caps'],
        'unicode-range': ['U+26', 'U+0-7F', 'U+4??'], 'system': ['cyclic', 'fixed 3', 'extends decimal', 'additive', '',
                                                                 'fixed', 'extends', 'fixed 1 2', 'symbolic'],
        'negative': ['"-"', '"(" ")"'], 'prefix': ['"a"', 'url(x)'], 'suffix': ['"."'], 'range': ['auto', '1 5', 'infinite 3',
                                                                                               '5 1'],
        'pad': ['3 "0"', '"0" 3', '-1 "0"'], 'fallback': ['decimal', 'none'], 'symbols': ['"a" "b"', 'a b', 'url(x)'],
        'additive-symbols': ['5 "V", 1 "I"', '1 "I", 5 "V"', '0 "Z"'],
    }
    known = {}
    for rule in sorted(descriptors.DESCRIPTORS):
        names = sorted(descriptors.DESCRIPTORS[rule])
        for _ in range(run.n(400, 6000)):
            parts = []
            for _ in range(run.rng.choice([1, 1, 2, 3, 4])):
                r = run.rng.random()
                name = run.rng.choice(names)
                if r < 0.55:
                    value = run.rng.choice(own.get(name, ['x']))
                elif r < 0.75:
                    value = run.rng.choice(own[run.rng.choice(sorted(own))])
                else:
                    value = G.value_text(run.rng, 'width', 'soup')
                written = name if run.rng.random() < 0.85 else run.rng.choice(
                    [name.upper(), 'font-display', 'unknown-desc', '--x', 'color'])
                parts.append(f'{written}: {value}{" !important" if run.rng.random() < 0.05 else ""}')
            if run.rng.random() < 0.1:
                parts.insert(run.rng.randrange(len(parts) + 1), run.rng.choice(['@foo;', 'a { b: c }', '!', '']))
            text = '; '.join(parts)
            decls = tinycss2.parse_blocks_contents(text)
            kind, result, exc = real.outcome_list(lambda: descriptors.preprocess_descriptors(rule, BASE_URL, decls))
            finding = known_crash(exc) if exc is not None else None
            if finding:
                known[finding] = known.get(finding, 0) + 1
                continue
            impl = 'ok' + ''.join(f' ({enc(n)} {intern(v)})' for n, v in result) if kind == 'ok' else result
            items = []
            for d in decls:
                if d.type != 'declaration':
                    items.append([d.type, 'x', False, False, 'none'])
                    continue
                res = 'none'
                function = descriptors.DESCRIPTORS[rule].get(d.name)
                tokens = utils.remove_whitespace(d.value)
                if function is not None and tokens:       # the funnel never calls a validator on an empty value
                    try:
                        value = function(tokens, BASE_URL) if function.wants_base_url else function(tokens)
                        res = ['ok', intern(value)] if value is not None else 'none'
                    except utils.InvalidValues:
                        res = 'invalid'
                    except Exception:  # noqa: BLE001 - the model assumes this never happens
                        res = 'err:AssumptionBroken'
                items.append(['declaration', enc(d.name), bool(d.important), not tokens, res])
            sec.add(sx.line('descriptors', enc(rule), items), impl, meta={'rule': rule, 'css': text},
                    nontrivial=impl.count('(') > 0 and len(items) > impl.count('('),
                    tags=[rule, 'raised' if impl.startswith('err') else 'kept' if '(' in impl else 'all-dropped'])
    run.extra['known_crashes_skipped_in_descriptors'] = known
    # font-variant: its wrapped generator lives in descriptors.py
    variant_pool = ['normal', 'none', 'small-caps', 'all-small-caps', 'oldstyle-nums', 'lining-nums', 'sub', 'super',
                    'jis78', 'ruby', 'common-ligatures', 'no-contextual', 'historical-forms', 'slashed-zero', 'foo',
                    '1', 'NORMAL', 'titling-caps']
    for _ in range(run.n(400, 5000)):
        n = run.rng.choice([1, 1, 2, 2, 3, 4])
        atoms = [run.rng.choice(variant_pool) if run.rng.random() < 0.93 else G.soup_atom(run.rng) for _ in range(n)]
        if run.rng.random() < 0.03:
            atoms = [run.rng.choice(['inherit', 'initial', 'var(--z)'])]
        tokens = tokens_of(' '.join(atoms))
        if not tokens:
            continue

        def build(ids, table, tokens=tokens):
            wire = []
            for i, t in enumerate(tokens):
                feature = None
                for f in ('alternates', 'caps', 'east-asian', 'ligatures', 'numeric', 'position'):
                    if getattr(properties, f'font_variant_{f.replace("-", "_")}')([t]):
                        feature = f
                        break
                wire.append([utils.get_keyword(t) == 'normal', enc(feature) if feature else 'none', f't{i}'])
            kw = utils.get_single_keyword(tokens)
            return sx.line('font-variant', 'font-variant', head_atom(tokens), 'i:' + enc(kw) if kw is not None else 'x',
                           wire, table)
        modelled_raw_case(sec, run, 'font-variant', 'font-variant', tokens, build, intern)


def judge_descriptors(meta):
    import tinycss2
    from weasyprint.css.validation import descriptors
    decls = tinycss2.parse_blocks_contents(meta['css'])
    kind, result, exc = real.outcome_list(lambda: descriptors.preprocess_descriptors(meta['rule'], BASE_URL, decls))
    if kind != 'ok':
        if known_crash(exc):
            return None
        cls, fn = real.innermost(exc)
        return (f'preprocess_descriptors raised {cls} (in {fn}) on `@{meta["rule"]} {{ {meta["css"]} }}`: a malformed '
                f'descriptor aborts the stylesheet')
    singles = []
    for d in decls:
        k1, r1, _ = real.outcome_list(lambda: descriptors.preprocess_descriptors(meta['rule'], BASE_URL, [d]))
        if k1 != 'ok':
            return f'preprocess_descriptors raised on one descriptor of `{meta["css"]}`'
        singles += r1
    if [real.canon(x) for x in singles] != [real.canon(x) for x in result]:
        return f'descriptors of `{meta["css"]}` are not validated independently of their neighbours'
    return None



def sec_keywords(run):
    """The keyword-only validators: table regenerated from the source (AST) vs the registered functions."""
    _, utils, _, _, properties = real.mods()
    table, inventory, _ = c07_tables.ast_keyword_validators()
    sec = run.section('keyword-validators', 'the keyword-only longhand validators (50 at HEAD): AST-generated table + models of '
                      'single_keyword / comma_separated_list vs the registered PROPERTIES functions, on every keyword of '
                      'every table, case variants, several tokens, comma lists, non-identifiers; exhaustive over '
                      '(property, keyword of any table); non-trivial = accepted')
    all_keywords = sorted({kw for _, kws, _ in table for kw in kws})
    extras = ['1', '0', '10px', '"s"', 'red', 'f(x)', '[a]', ',', '/', 'inherit', 'auto', 'none', 'foo']
    for name, keywords, comma in table:
        texts = list(all_keywords) + [kw.upper() for kw in keywords] + [kw.capitalize() for kw in keywords[:2]] + extras
        for _ in range(run.n(12, 60)):
            a, b = run.rng.choice(keywords), run.rng.choice(all_keywords + extras)
            texts.append(run.rng.choice([f'{a} {b}', f'{a}, {b}', f'{a},{a}', f'{a}, , {b}', f', {a}', f'{a},',
                                         f'{a} /**/', f'{a} , {a} , {a}', f'{a} {a}, {a}']))
        for text in texts:
            tokens = tokens_of(text)
            if not tokens:
                continue
            try:
                got = properties.PROPERTIES[name](tokens)
                impl = 'invalid' if got is None else 'ok ' + ' '.join(
                    enc(k) for k in (got if isinstance(got, tuple) else (got,)))
            except Exception as exc:  # noqa: BLE001
                impl = real.fail_atom(exc)
            parts = [[('i:' + enc(t.lower_value) if t.type == 'ident' else 'x') for t in part]
                     for part in utils.split_on_comma(tokens)]
            sec.add(sx.line('keyword-validator', enc(name), parts), impl, meta={'name': name, 'css': text},
                    nontrivial=impl.startswith('ok'),
                    tags=['comma-list' if comma else 'single', impl.split(' ')[0]])
    run.extra['validator_inventory'] = {
        'functions': len(inventory),
        'single_keyword': sum(1 for _, k, _, _, _ in inventory if k == 'single_keyword'),
        'single_token': sum(1 for _, k, _, _, _ in inventory if k == 'single_token'),
        'tokens': sum(1 for _, k, _, _, _ in inventory if k == 'tokens'),
        'properties_mirrored_by_keyword_table': len(table),
        'properties_registered': len(properties.PROPERTIES),
        'not_mirrored_functions': [f for f, _, _, _, m in inventory if not m][:100],
    }


# --------------------------------------------------------------------------------- numeric validators

# Independent reference (the CSS specifications, not the source): which single numbers a property takes.
#   kind: 'integer' | 'number'; lo: inclusive lower bound or None; keywords; lengths: also takes a <length>
CSS_NUMERIC_SPEC = {
    'orphans': ('integer', 1, (), 'css-break-3 §3.3: <integer [1,∞]>; zero and negative values are invalid'),
    'widows': ('integer', 1, (), 'css-break-3 §3.3: <integer [1,∞]>; zero and negative values are invalid'),
    'column-count': ('integer', 1, ('auto',), 'css-multicol-1 §3.2: auto | <integer [1,∞]>'),
    'max-lines': ('integer', 1, ('none',), 'css-overflow-4: none | <integer [1,∞]>'),
    'bookmark-level': ('integer', 1, ('none',), 'css-gcpm-3 §6.1: none | <integer [1,∞]>'),
    'tab-size': ('number', 0, (), 'css-text-3 §4.2: <number [0,∞]> | <length [0,∞]>'),
    'z-index': ('integer', None, ('auto',), 'CSS 2.1 §9.9.1: auto | <integer>'),
    'order': ('integer', None, (), 'css-flexbox-1 §5.4: <integer>'),
    'font-weight': ('number', 1, ('normal', 'bold', 'bolder', 'lighter'), 'css-fonts-4 §2.2: <number [1,1000]>'),
    'line-height': ('number', 0, ('normal',), 'CSS 2.1 §10.8.1: negative values are illegal'),
    'flex-grow': ('number', 0, (), 'css-flexbox-1 §7.2: <number [0,∞]>, negative values are invalid'),
    'flex-shrink': ('number', 0, (), 'css-flexbox-1 §7.3: <number [0,∞]>, negative values are invalid'),
}
NUMERIC_TEXTS = ['-3', '-2', '-1', '-0', '0', '+0', '1', '+1', '2', '3', '4', '7', '12', '99', '100', '400', '450', '900',
                 '1000', '1001', '1.5', '2.0', '0.0', '-1.5', '0.5', '1e2', '1e0', '2px', '0px', '-1px', '1.5em', '3PX',
                 '2xx', '50%', '-5%', '0%', '150%', 'auto', 'none', 'normal', 'bold', 'bolder', 'lighter', 'foo',
                 'AUTO', 'None', '"s"', 'calc(1)', '1 2', '1, 2', 'auto 1', '[1]']


def ntok_wire(tok):
    from weasyprint.css.utils import get_keyword
    kw = get_keyword(tok)
    return [tok.int_value if tok.type == 'number' and tok.int_value is not None else None,
            'i:' + enc(kw) if kw is not None else 'none', ltok_wire(tok)]


def numeric_out(value):
    from weasyprint.css.properties import Dimension
    if value is None:
        return 'invalid'
    if isinstance(value, bool):
        return f'other:{value}'
    if isinstance(value, int):
        return f'int {value}'
    if isinstance(value, float):
        return f'num {sx.atom(Fraction(value))}' if math.isfinite(value) else 'num inf'
    if isinstance(value, str):
        return f'kw {enc(value)}'
    if isinstance(value, Dimension):
        return f'dim {sx.atom(Fraction(value.value))} {enc(value.unit) if value.unit is not None else "none"}'
    return f'other:{real.canon(value)}'


def sec_numeric(run):
    """The numeric single-token validators: clause tables regenerated from the source (AST) vs the registered
    functions."""
    _, utils, _, _, properties = real.mods()
    table, skipped = c07_numeric.ast_numeric_validators()
    sec = run.section('numeric-validators', 'the numeric @single_token validators (orphans, widows, column-count, '
                      'max-lines, bookmark-level, tab-size, z-index, order, font-weight, line-height, flex-grow, '
                      'flex-shrink): AST-generated clause tables (bounds, keyword tuples, get_length flags) + the model '
                      'of their if / elif / return sequence vs the registered PROPERTIES functions, on integers around '
                      'every bound, signed zeros, non-integer and exponent spellings, dimensions, percentages, '
                      'keywords, several tokens; exhaustive over (property, text of the fixed list) plus random '
                      'integers; non-trivial = accepted')
    for name, _, _ in table:
        texts = list(NUMERIC_TEXTS)
        for _ in range(run.n(25, 400)):
            r = run.rng.random()
            n = run.rng.randrange(-20, 1200)
            texts.append(str(n) if r < 0.6 else f'{n}.{run.rng.randrange(10)}' if r < 0.75 else
                         f'{n}{run.rng.choice(["px", "em", "%", "pt", "Q", "q", "deg"])}' if r < 0.9 else f'+{abs(n)}')
        for text in texts:
            tokens = tokens_of(text)
            if not tokens or any(t.type in ('number', 'dimension', 'percentage') and not math.isfinite(t.value)
                                 for t in tokens):
                continue
            try:
                impl = numeric_out(properties.PROPERTIES[name](tokens))
            except Exception as exc:  # noqa: BLE001
                impl = real.fail_atom(exc)
            sec.add(sx.line('numeric-validator', enc(name), [ntok_wire(t) for t in tokens]), impl,
                    meta={'name': name, 'css': text}, nontrivial=impl != 'invalid',
                    tags=[impl.split(' ')[0], f'tokens{min(len(tokens), 2)}'])
    # opacity: a clamp (exact decimal spellings only: v / 100 must be an exact float)
    for text in ['0', '1', '0.5', '0.25', '-3', '-0.5', '2', '1.5', '1e3', '50%', '25%', '12.5%', '75%', '0%', '100%',
                 '150%', '300%', '-5%', '2px', 'auto', 'none', '"s"', '0.5 0.5', '50% 1']:
        toks = tokens_of(text)
        try:
            impl = numeric_out(properties.PROPERTIES['opacity'](toks))
        except Exception as exc:  # noqa: BLE001
            impl = real.fail_atom(exc)
        if impl.startswith('int '):
            impl = 'num ' + impl[4:]       # min(1, max(0, v)) returns the int bound itself when it clamps
        line = sx.line('opacity', ltok_wire(toks[0])) if len(toks) == 1 else sx.line('echo', 'invalid')
        sec.add(line, impl, meta={'name': 'opacity', 'css': text}, nontrivial=impl != 'invalid', tags=['opacity'])
    # get_resolution (the whole validator of image-resolution)
    for text in ['1dppx', '2dppx', '96dpi', '300dpi', '118dpcm', '0dppx', '-1dppx', '0dpi', '-96dpi', '2DPPX', '1dpI',
                 '1.5dppx', '1px', '2', '0', '50%', 'auto', '1x', '1e2dpi']:
        toks = tokens_of(text)
        if len(toks) != 1:
            continue
        got = utils.get_resolution(toks[0])
        impl = 'none' if got is None else 'ok ' + ('neg' if got < 0 else 'zero' if got == 0 else 'pos') + (
            ' exact' if Fraction(got).limit_denominator(10 ** 6) == Fraction(got) else ' near')
        sec.add(sx.line('get-resolution', ltok_wire(toks[0]), Fraction(got) if got is not None else 0), impl,
                meta={'name': 'image-resolution', 'css': text}, nontrivial=got is not None, tags=['resolution'])
        try:
            kept = properties.PROPERTIES['image-resolution'](toks)
            impl = 'invalid' if kept is None else 'ok ' + (
                'exact' if Fraction(kept).limit_denominator(10 ** 6) == Fraction(kept) else 'near')
        except Exception as exc:  # noqa: BLE001
            kept, impl = None, real.fail_atom(exc)
        sec.add(sx.line('image-resolution', ltok_wire(toks[0]), Fraction(kept) if kept is not None else 0), impl,
                meta={'name': 'image-resolution', 'css': text}, nontrivial=kept is not None,
                tags=['image-resolution:' + impl.split(' ')[0]])
    run.extra['numeric_validators'] = {'properties_mirrored': [n for n, _, _ in table],
                                       'not_mirrored': [f for f, _ in skipped]}


# Independent reference (the CSS specifications): for the properties whose single-token value may be a <length>,
# whether a negative length is in the grammar and whether a <percentage> is.  (negative_ok, percentage_ok)
CSS_LENGTH_SPEC = {
    **{n: (False, False) for n in ('border-top-width', 'border-right-width', 'border-bottom-width', 'border-left-width',
                                   'column-rule-width', 'outline-width', 'border-spacing', 'column-width', 'tab-size',
                                   'border-image-outset', 'mask-border-outset')},
    **{n: (False, True) for n in ('border-top-left-radius', 'border-top-right-radius', 'border-bottom-right-radius',
                                  'border-bottom-left-radius', 'column-gap', 'row-gap', 'flex-basis', 'font-size',
                                  'width', 'height', 'min-width', 'min-height', 'max-width', 'max-height',
                                  'padding-top', 'padding-right', 'padding-bottom', 'padding-left',
                                  'hyphenate-limit-zone', 'line-height', 'background-size', 'border-image-width',
                                  'mask-border-width', 'grid-template-columns', 'grid-template-rows',
                                  'grid-auto-columns', 'grid-auto-rows')},
    **{n: (True, False) for n in ('letter-spacing', 'word-spacing', 'outline-offset', 'bleed-top', 'bleed-right',
                                  'bleed-bottom', 'bleed-left')},
    **{n: (True, True) for n in ('top', 'right', 'bottom', 'left', 'margin-top', 'margin-right', 'margin-bottom',
                                 'margin-left', 'text-indent', 'vertical-align', 'text-underline-offset',
                                 'background-position', 'object-position', 'transform-origin')},
}
LENGTH_PROBES = ['2px', '-2px', '0px', '1.5em', '-1.5em', '1in', '-3pt', '2rem', '50%', '-50%', '0%', '150%', '0', '2xx',
                 '-2xx', '2deg']


def length_probe_bits(name, texts):
    import tinycss2
    _, _, validation, _, _ = real.mods()
    bits = []
    for text in texts:
        try:
            out = list(validation.preprocess_declarations(
                BASE_URL, tinycss2.parse_blocks_contents(f'{name}: {text}')))
            bits.append('1' if out else '0')
        except Exception:  # noqa: BLE001
            bits.append('E')
    return ''.join(bits)


def sec_length_flags(run):
    _, utils, _, _, properties = real.mods()
    sec = run.section('length-flags', 'every property whose value may be a single <length> (61 at HEAD, table of CSS '
                      'grammars: negative allowed? percentage allowed?): the real funnel on single dimension / percentage '
                      'tokens of both signs, zero, foreign units vs the reference `get_length` of the model called with '
                      'the flags of the CSS grammar; and the "one or two lengths" validators (border-spacing, the four '
                      'radii; flags regenerated by AST) on 0..3 tokens vs their model; non-trivial = a token is accepted')
    for name in sorted(CSS_LENGTH_SPEC):
        if name not in properties.PROPERTIES:
            continue
        negative, percentage = CSS_LENGTH_SPEC[name]
        texts = list(LENGTH_PROBES)
        for _ in range(run.n(6, 60)):
            v = run.rng.choice(['-', '']) + run.rng.choice(['0', '1', '2.5', '12', '0.25', '100'])
            texts.append(v + run.rng.choice(['px', 'em', '%', 'pt', 'cm', 'mm', 'q', 'pc', 'in', 'ex', 'ch', 'rem']))
        toks = [tokens_of(t)[0] for t in texts]
        impl = length_probe_bits(name, texts)
        sec.add(sx.line('length-flags', negative, percentage, [ltok_wire(t) for t in toks]), impl,
                meta={'name': name, 'texts': texts}, nontrivial='1' in impl,
                tags=[f'neg:{negative}', f'pct:{percentage}'])
    pool = ['2px', '0', '4px', '1em', '50%', '0%', '-1px', '-5%', '2', 'auto', '3pt', '10%', '1.5in']
    for name, _, _, _ in c07_numeric.ast_length_list_validators():
        for _ in range(run.n(80, 1500)):
            atoms = [run.rng.choice(pool) for _ in range(run.rng.choice([1, 1, 2, 2, 2, 3, 0]))]
            tokens = tokens_of(' '.join(atoms))
            if any(t.type not in ('number', 'dimension', 'percentage', 'ident') for t in tokens):
                continue
            try:
                got = properties.PROPERTIES[name](tokens)
                impl = 'invalid' if got is None else 'ok ' + ' | '.join(
                    f'dim {sx.atom(Fraction(d.value))} {enc(d.unit) if d.unit is not None else "none"}' for d in got)
            except Exception as exc:  # noqa: BLE001
                impl = real.fail_atom(exc)
            sec.add(sx.line('length-list', enc(name), [ltok_wire(t) for t in tokens]), impl,
                    meta={'name': name, 'css': ' '.join(atoms), 'list': True}, nontrivial=impl.startswith('ok'),
                    tags=[f'list:{impl.split(" ")[0]}', f'list-n{len(tokens)}'])


def judge_length_flags(meta):
    """A length outside the grammar of the property is an invalid declaration and must be dropped; one inside it
    is supported; a kept length never aborts the rendering of a document that uses it."""
    name = meta['name']
    if name not in CSS_LENGTH_SPEC:
        return None
    negative, percentage = CSS_LENGTH_SPEC[name]
    texts = meta['texts'] if 'texts' in meta else LENGTH_PROBES + [meta['css']]
    for text in texts:
        toks = tokens_of(text)
        bits = length_probe_bits(name, [text])
        if len(toks) != 1:
            if name == 'border-spacing' and bits == '1' and any(t.type == 'percentage' for t in toks):
                return (f'`{name}: {text}` is accepted although a <percentage> is not in the grammar of {name} '
                        f'(CSS 2.1 §17.6.1: <length> <length>?): the declaration is invalid and must be ignored')
            continue
        tok = toks[0]
        if bits == 'E':
            return f'`{name}: {text}` makes preprocess_declarations raise'
        if tok.type == 'percentage' and not percentage and bits == '1':
            return (f'`{name}: {text}` is accepted although a <percentage> is not in the grammar of {name}: the '
                    f'declaration is invalid and must be ignored (it overrides earlier valid values and reaches layout '
                    f'as a percentage)')
        if tok.type in ('percentage', 'dimension') and tok.value < 0 and not negative and bits == '1':
            return f'`{name}: {text}` is accepted although negative values are not in the grammar of {name}'
        from weasyprint.css.utils import LENGTH_UNITS
        in_grammar = (tok.type == 'dimension' and tok.unit in LENGTH_UNITS and (negative or tok.value >= 0)) or \
            (tok.type == 'percentage' and percentage and (negative or tok.value >= 0))
        if in_grammar and bits == '0':
            return f'`{name}: {text}` is dropped although it is in the grammar of {name}'
        if tok.type == 'dimension' and tok.unit not in LENGTH_UNITS and tok.lower_unit not in LENGTH_UNITS \
                and bits == '1' and name not in ('grid-template-columns', 'grid-template-rows', 'grid-auto-columns',
                                                 'grid-auto-rows', 'transform-origin'):
            return f'`{name}: {text}` is accepted although `{tok.unit}` is not a length unit'
    return None


def judge_opacity(css):
    """css-color-4 §5: <alpha-value> = <number> | <percentage>, clamped to [0, 1] (never invalid for its range)."""
    got = dict(real_funnel_pairs(f'opacity: {css}')).get('opacity')
    toks = tokens_of(css)
    if len(toks) != 1 or toks[0].type not in ('number', 'percentage'):
        return f'`opacity: {css}` is accepted as {got!r}' if got is not None else None
    v = toks[0].value / (100 if toks[0].type == 'percentage' else 1)
    want = min(1, max(0, v))
    if got is None or not math.isclose(got, want, abs_tol=1e-12) or not 0 <= got <= 1:
        return f'`opacity: {css}` gives {got!r}, an alpha value is {want!r} (clamped to [0, 1])'
    return None


def judge_image_resolution(css):
    """css-images-3 §5.1: the <resolution> of image-resolution must be positive; a kept declaration never aborts the
    rendering of a raster image."""
    import tinycss2
    _, utils, validation, _, _ = real.mods()
    toks = tokens_of(css)
    try:
        out = list(validation.preprocess_declarations(
            BASE_URL, tinycss2.parse_blocks_contents(f'image-resolution: {css}')))
    except Exception as exc:  # noqa: BLE001
        return f'`image-resolution: {css}` makes preprocess_declarations raise {type(exc).__name__}'
    if out and len(toks) == 1 and toks[0].type == 'dimension' and toks[0].value <= 0:
        return (f'`image-resolution: {css}` is accepted as {real.canon(out[0][1])}: a resolution that is not positive is '
                f'invalid and must be ignored (with a raster <img> zero raises ZeroDivisionError in get_intrinsic_size)')
    if not out and len(toks) == 1 and toks[0].type == 'dimension' and toks[0].value > 0 \
            and toks[0].unit in ('dppx', 'dpi', 'dpcm') and math.isfinite(toks[0].value):
        return f'`image-resolution: {css}` is dropped although it is a positive resolution'
    return None


def judge_numeric(name, css):
    """The clause on the real funnel, against the CSS grammar of the property (independent of the source): a value
    outside the range the specification gives is an invalid declaration and must be dropped; a plain integer inside
    the range of an integer-valued property is a supported value."""
    import tinycss2
    from weasyprint.css.properties import Dimension
    _, _, validation, _, _ = real.mods()
    if name == 'opacity':
        return judge_opacity(css)
    if name == 'image-resolution':
        return judge_image_resolution(css)
    if name not in CSS_NUMERIC_SPEC:
        return None
    kind, lo, keywords, ref = CSS_NUMERIC_SPEC[name]
    tokens = tokens_of(css)
    try:
        out = list(validation.preprocess_declarations(BASE_URL, tinycss2.parse_blocks_contents(f'{name}: {css}')))
    except Exception as exc:  # noqa: BLE001
        return f'`{name}: {css}` makes preprocess_declarations raise {type(exc).__name__}'
    accepted = bool(out)
    value = out[0][1] if accepted else None
    if len(tokens) != 1:
        if accepted:
            return f'`{name}: {css}` is accepted as {real.canon(value)} although {name} takes a single value ({ref})'
        return None
    tok = tokens[0]
    if accepted and tok.type == 'number':
        if kind == 'integer' and tok.int_value is None:
            return f'`{name}: {css}` is accepted as {real.canon(value)}: {name} takes an integer ({ref})'
        if lo is not None and tok.value < lo:
            return (f'`{name}: {css}` is accepted as {real.canon(value)} and overrides any earlier valid value; the '
                    f'declaration is invalid and must be ignored ({ref})')
        written = tok.int_value if kind == 'integer' else tok.value
        got = value.value if isinstance(value, Dimension) else value
        if isinstance(got, (int, float)) and not isinstance(got, bool) and got != written:
            return f'`{name}: {css}` is accepted with the value {got!r} instead of {written!r}'
    if accepted and tok.type == 'percentage' and name == 'line-height' and tok.value < 0:
        return f'`{name}: {css}` is accepted although negative values are illegal ({ref})'
    if accepted and tok.type == 'ident' and tok.lower_value not in keywords + ('inherit', 'initial'):
        return f'`{name}: {css}` is accepted although `{css}` is not a keyword of {name} ({ref})'
    if not accepted and kind == 'integer' and tok.type == 'number' and tok.int_value is not None \
            and (lo is None or tok.int_value >= lo):
        return f'`{name}: {css}` is dropped although {css} is a valid value of {name} ({ref})'
    if not accepted and name in ('line-height', 'flex-grow', 'flex-shrink') and tok.type == 'number' \
            and tok.value >= lo:
        return f'`{name}: {css}` is dropped although {css} is a valid value of {name} ({ref})'
    if not accepted and tok.type == 'ident' and tok.lower_value in keywords:
        return f'`{name}: {css}` is dropped although `{css}` is a keyword of {name} ({ref})'
    return None


# --------------------------------------------------------------------------------- the rule-level funnel

SHEET_URL = 'http://c07.test/imp/'


class RecordingMatcher:
    """Stands for cssselect2.Matcher in CSS(...): records what preprocess_stylesheet adds."""

    def __init__(self):
        self.events = []
        self.counts = {}

    def add_selector(self, selector, declarations):
        rid = rule_id(declarations)
        index = self.counts.get(rid, 0)
        self.counts[rid] = index + 1
        self.events.append(f'(sel {rid} {index})')


def rule_id(declarations):
    for name, value, _ in declarations:
        if name == '__id':
            return int(value[0].value)
    return 0


def real_sheet_events(text, imports, failing=()):
    """Events of the real CSS(string=text) with a recording matcher; imported sheets served from `imports`."""
    from weasyprint import CSS
    from weasyprint.text.fonts import FontConfiguration  # noqa: F401 - font_config stays None

    def fetcher(url):
        name = url[len(SHEET_URL):] if url.startswith(SHEET_URL) else None
        if name in imports and name not in failing:
            return {'string': imports[name], 'mime_type': 'text/css', 'encoding': 'utf-8', 'redirected_url': url}
        raise ValueError(f'no such sheet {url}')
    matcher, page_rules = RecordingMatcher(), []
    try:
        CSS(string=text, base_url=SHEET_URL, url_fetcher=fetcher, media_type='print', matcher=matcher,
            page_rules=page_rules, counter_style={})
    except RecursionError as exc:
        return 'err:RecursionError', exc
    except Exception as exc:  # noqa: BLE001
        return f'err:{type(exc).__name__}', exc
    # page rules were appended in order, interleaved with the matcher events only across rules: rebuild the order
    return matcher, page_rules


def sheet_rule_text(rng, next_id, depth, imports, failing):
    """(css text of one rule, ids used)"""
    r = rng.random()
    rid = next_id[0]
    next_id[0] += 1
    decls = lambda: (f'--id: {rid}; color: red' if rng.random() < 0.8 else     # noqa: E731
                     rng.choice(['colour: red', 'width: red', '', 'cursor: pointer']))
    if r < 0.34:
        sels = []
        for _ in range(rng.choice([1, 1, 2, 3])):
            sels.append(rng.choice(['p', '.c', 'div > p', 'li::before', 'p::after', 'a::foo', 'b::-webkit-x',
                                    'i:hover', 'p::first-line', 'q::marker', '*', 'p::selection', 'input::placeholder',
                                    'li:after']))
        if rng.random() < 0.12:
            sels[rng.randrange(len(sels))] = rng.choice(['p >', '::', 'a:nosuch(', '.', 'p:unknown-pseudo', '!'])
        return f'{", ".join(sels)} {{ {decls()} }}'
    if r < 0.44:
        name = f's{rid}.css'
        inner = [sheet_rule_text(rng, next_id, depth + 1, imports, failing)
                 for _ in range(rng.choice([1, 2]))] if depth < 2 else []
        imports[name] = '\n'.join(inner)
        if rng.random() < 0.15:
            failing.add(name)
        form = rng.choice([f'"{name}"', f'url({name})', f'url("{name}")', f'"{name}" print', f'"{name}" screen',
                           f'"{name}" all', f'"{name}" !!', 'foo', '', f'url(#frag)', f'"{name}" print, screen'])
        return f'@import {form};'
    if r < 0.56 and depth < 2:
        inner = ' '.join(sheet_rule_text(rng, next_id, depth + 1, imports, failing)
                         for _ in range(rng.choice([1, 2, 3])))
        query = rng.choice(['print', 'screen', 'all', 'print, screen', '!!', '(min-width: 10px)', 'not print', ''])
        return f'@media {query} {{ {inner} }}'
    if r < 0.70:
        sel = rng.choice(['', ':first', ':left', 'name', 'name:first', ':first, :left', ':nth(2)', ':unknown',
                          'a b', ':first :left', ':blank'])
        margins = ' '.join(
            f'@{rng.choice(["top-left", "bottom-center", "TOP-RIGHT", "foo"])} {{ {decls()} }}'
            for _ in range(rng.choice([0, 0, 1, 2])))
        extra = rng.choice(['', '@top-left;', 'p { color: red }'])
        return f'@page {sel} {{ {decls()}; {margins} {extra} }}'
    if r < 0.75:
        return rng.choice(['@font-face { font-family: x; src: url(f.woff) }', '@font-face { }'])
    if r < 0.81:
        return rng.choice(['@counter-style cs { system: cyclic; symbols: "a" }', '@counter-style none { }',
                           '@counter-style decimal { }', '@counter-style { }', '@counter-style a b { }'])
    if r < 0.90:
        return rng.choice(['@supports (display: grid) { p { color: red } }', '@keyframes k { from { top: 0 } }',
                           '@foo { bar: baz }', '@namespace svg "http://x";', '@foo;', '@charset "utf-8";',
                           '@media;', '@page;'])
    return rng.choice(['}', 'p', '{ color: red }', '/* c */', 'p { color: red', ';', '<!--', '-->', ')', '@'])


def sheet_model_rules(text):
    """The stylesheet as the `Wp.Sheet.Rule` trees of the model: every answer comes from the real helpers."""
    import cssselect2
    import tinycss2
    from weasyprint.css import PSEUDO_ELEMENTS, counters, media_queries, parse_page_selectors
    from weasyprint.css.utils import get_url, remove_whitespace
    from weasyprint.css.validation import preprocess_declarations
    from weasyprint.urls import url_join
    rules = []
    for rule in (tinycss2.parse_stylesheet(text) if isinstance(text, str) else text):
        if getattr(rule, 'content', None) is None and not (
                rule.type == 'at-rule' and rule.lower_at_keyword == 'import'):
            rules.append('nc')
        elif rule.type == 'qualified-rule':
            contents = tinycss2.parse_blocks_contents(rule.content)
            try:
                pairs = list(preprocess_declarations(SHEET_URL, contents, rule.prelude))
            except cssselect2.SelectorError:
                rules.append(['style', 0, False, [], False])
                continue
            selectors = cssselect2.compile_selector_list(rule.prelude)
            rid = rule_id([d for _, d in pairs]) if pairs else 0
            rules.append(['style', max(rid, 0), True, [s.pseudo_element in PSEUDO_ELEMENTS for s in selectors],
                          bool(pairs)])
        elif rule.type == 'at-rule' and rule.lower_at_keyword == 'import':
            tokens = remove_whitespace(rule.prelude)
            url = None
            if tokens:
                if tokens[0].type == 'string':
                    url = url_join(SHEET_URL, tokens[0].value, allow_relative=False, context='', context_args=())
                else:
                    url_tuple = get_url(tokens[0], SHEET_URL)
                    if url_tuple and url_tuple[1][0] == 'external':
                        url = url_tuple[1][1]
            usable = False
            if url is not None:
                media = media_queries.parse_media_query(tokens[1:])
                usable = media is not None and bool(media_queries.evaluate_media_query(media, 'print'))
            rules.append(['import', usable, url])
        elif rule.type == 'at-rule' and rule.lower_at_keyword == 'media':
            media = media_queries.parse_media_query(rule.prelude)
            query = None if media is None else bool(media_queries.evaluate_media_query(media, 'print'))
            rules.append(['media', query, sheet_model_rules(tinycss2.parse_rule_list(rule.content))])
        elif rule.type == 'at-rule' and rule.lower_at_keyword == 'page':
            data = parse_page_selectors(rule)
            content = tinycss2.parse_blocks_contents(rule.content)
            decls = list(preprocess_declarations(SHEET_URL, content))
            margins = []
            for margin_rule in content:
                if margin_rule.type != 'at-rule' or margin_rule.content is None:
                    continue
                mdecls = list(preprocess_declarations(
                    SHEET_URL, tinycss2.parse_blocks_contents(margin_rule.content)))
                margins.append([enc('@' + margin_rule.lower_at_keyword), bool(mdecls)])
            rid = max([rule_id(decls)] + [rule_id(list(preprocess_declarations(
                SHEET_URL, tinycss2.parse_blocks_contents(m.content)))) for m in content
                if m.type == 'at-rule' and m.content is not None] + [0])
            rules.append(['page', rid, None if data is None else len(data), bool(decls), margins])
        elif rule.type == 'at-rule' and rule.lower_at_keyword == 'font-face':
            rules.append('fontface')
        elif rule.type == 'at-rule' and rule.lower_at_keyword == 'counter-style':
            rules.append(['counter', counters.parse_counter_style_name(rule.prelude, {}) is not None])
        else:
            rules.append('other')
    return rules


def resolve_imports(rules, imports, failing):
    """Replace ['import', usable, url] by the model's import rule with the imported sheet's rules."""
    out = []
    for rule in rules:
        if isinstance(rule, list) and rule[0] == 'import':
            _, usable, url = rule
            name = url[len(SHEET_URL):] if url and url.startswith(SHEET_URL) else None
            fetched = name in imports and name not in failing
            inner = resolve_imports(sheet_model_rules(imports[name]), imports, failing) if fetched and usable else []
            out.append(['import', usable, fetched, inner])
        elif isinstance(rule, list) and rule[0] == 'media':
            out.append(['media', rule[1], resolve_imports(rule[2], imports, failing)])
        else:
            out.append(rule)
    return out


def real_events_text(text, imports, failing):
    got = real_sheet_events(text, imports, failing)
    if isinstance(got[0], str):
        return got[0], got[1]
    matcher, page_rules = got
    return (matcher.events, [(f'(page {rule_id(d)})' if sl[0][1] is None else
                              f'(margin {rule_id(d)} {enc(sl[0][1])})') for _, sl, d in page_rules]), None


def sec_sheet(run):
    sec = run.section('sheet-funnel', 'real CSS(string=...) -> preprocess_stylesheet with a recording matcher on generated '
                      'stylesheets (style rules with valid / invalid selectors and unknown pseudo-elements, @import in '
                      'and out of place with working / failing fetches, @media, @page with margin rules, @font-face, '
                      '@counter-style, unknown at-rules, parse errors) vs the model of the rule loop and its '
                      'ignore_imports state; non-trivial = at least one rule ignored and one kept')
    rng = run.rng
    for _ in range(run.n(400, 8000)):
        imports, failing, next_id = {}, set(), [1]
        parts = [sheet_rule_text(rng, next_id, 0, imports, failing) for _ in range(rng.choice([1, 2, 3, 4, 5, 6]))]
        # a trailing @import makes the final value of ignore_imports observable
        imports['probe.css'] = 'p { --id: 9999; color: red }'
        parts.append('@import "probe.css";')
        text = '\n'.join(parts)
        import tinycss2
        if any(has_nested_style_rule(tinycss2.parse_stylesheet(t)) for t in [text, *imports.values()]):
            continue
        got, exc = real_events_text(text, imports, failing)
        try:
            rules = resolve_imports(sheet_model_rules(text), imports, failing)
        except Exception:  # noqa: BLE001 - a helper crashed on its own: the real run above shows it
            continue
        if exc is not None:
            impl = got
        else:
            sel_events, page_events = got
            impl = 'ok' + ''.join(f' {e}' for e in sel_events) + ' |' + ''.join(f' {e}' for e in page_events)
        sec.add(sx.line('sheet', False, rules), impl, meta={'css': text, 'imports': imports, 'failing': sorted(failing)},
                nontrivial=impl.count('(') > 0 and ('nc' in rules or 'other' in rules),
                tags=['raised' if impl.startswith('err') else 'probe-imported' if '9999' in impl else 'probe-ignored',
                      *sorted(sheet_rule_tags(rules, False))])


def has_nested_style_rule(rules):
    """A qualified rule inside a qualified rule (CSS nesting): not modelled at rule level."""
    import tinycss2
    for rule in rules:
        if rule.type == 'qualified-rule':
            if any(c.type == 'qualified-rule' for c in tinycss2.parse_blocks_contents(rule.content)):
                return True
        elif rule.type == 'at-rule' and rule.lower_at_keyword == 'media' and rule.content is not None:
            if has_nested_style_rule(tinycss2.parse_rule_list(rule.content)):
                return True
    return False


def sheet_rule_tags(rules, nested):
    """Which branches of the model's rule loop a generated sheet reaches."""
    out = set()
    for rule in rules:
        if rule == 'nc':
            out.add('rule:no-content')
        elif rule == 'fontface':
            out.add('rule:font-face')
        elif rule == 'other':
            out.add('rule:other-at')
        elif rule[0] == 'counter':
            out.add('rule:counter-style-ok' if rule[1] else 'rule:counter-style-bad-name')
        elif rule[0] == 'style':
            _, _, ok, pseudo, decls = rule
            out.add('rule:style-bad-selector' if not ok else 'rule:style-no-declaration' if not decls else
                    'rule:style-unknown-pseudo' if not all(pseudo) else 'rule:style-ok')
        elif rule[0] == 'import':
            _, usable, fetched, inner = rule
            out.add('rule:import-unusable' if not usable else 'rule:import-fetch-failed' if not fetched else
                    'rule:import-ok')
            out |= sheet_rule_tags(inner, True)
        elif rule[0] == 'media':
            out.add('rule:media-invalid' if rule[1] is None else 'rule:media-match' if rule[1] else 'rule:media-no-match')
            out |= sheet_rule_tags(rule[2], True)
        elif rule[0] == 'page':
            out.add('rule:page-bad-selector' if rule[2] is None else 'rule:page-ok')
            if rule[4]:
                out.add('rule:page-margin-rule')
    return out


def judge_sheet(meta):
    """The clause on the real code: the stylesheet loads, and the rules it ignores leave no trace — the same
    events come out when every ignored top-level rule is deleted from the text."""
    import tinycss2
    text, imports, failing = meta['css'], meta['imports'], set(meta['failing'])
    got, exc = real_events_text(text, imports, failing)
    if exc is not None:
        return f'loading the stylesheet raised {type(exc).__name__}: `{text}`'
    kept = []
    for rule in tinycss2.parse_stylesheet(text):
        alone, exc1 = real_events_text(tinycss2.serialize([rule]), imports, failing)
        if exc1 is not None:
            return f'loading the rule `{tinycss2.serialize([rule])}` raised {type(exc1).__name__}'
        at = rule.type == 'at-rule' and rule.lower_at_keyword in ('media', 'page', 'font-face', 'counter-style',
                                                                     'import')
        if alone != ([], []) or at or (rule.type == 'qualified-rule'):
            kept.append(rule)
    again, _ = real_events_text(tinycss2.serialize(kept), imports, failing)
    if again != got:
        return f'deleting the ignored rules of `{text}` changes what the stylesheet contributes: {got} vs {again}'
    return None


# ------------------------------------------------------------------------------------------- var()

VAR_NAMES = ['a', 'b', 'c-d', 'd', 'e-f-g']


def var_value_text(rng, depth, names, allow_sibling_fn):
    """A value text mixing plain tokens, functions and var() references to `names`."""
    parts = []
    for _ in range(rng.choice([1, 1, 2, 3])):
        r = rng.random()
        if r < 0.35 and names:
            name = rng.choice(names)
            r2 = rng.random()
            if r2 < 0.55:
                parts.append(f'var(--{name})')
            elif r2 < 0.80:
                parts.append(f'var(--{name}, {var_value_text(rng, depth - 1, names, allow_sibling_fn) if depth > 0 else "1px"})')
            elif r2 < 0.88:
                parts.append(f'var(--{name}, 1px, 2px)')
            elif r2 < 0.92:
                parts.append(f'var( --{name} )')
            elif r2 < 0.96:
                parts.append(f'VAR(--{name})')
            else:
                parts.append(rng.choice([f'var(--{name},)', 'var()', f'var({name})', f'var(--{name} 1px)',
                                         f'var(--{name}, , 1px)', 'var(--undefined, fb)', 'var(--undefined)',
                                         f'var(-{name})', f'var(-{name}, 1px)', 'var(--)', 'var(-)', f'var("--{name}")',
                                         f'var(1px, --{name})', f'var(, --{name})', f'var(--{name.upper()})']))
        elif r < 0.60 and depth > 0:
            fname = rng.choice(['f', 'rgb', 'calc', 'translate', 'G'])
            args = [var_value_text(rng, depth - 1, names, allow_sibling_fn) for _ in range(rng.choice([1, 2, 3]))]
            if not allow_sibling_fn:
                # keep sibling function arguments var()-bearing or absent (the TypeError finding otherwise)
                pass
            parts.append(f'{fname}({rng.choice([", ", " ", ","]).join(args)})')
        else:
            parts.append(rng.choice(['1px', 'red', '2', '"s"', '[x]', '(y)', '10%', 'auto', ',', '/', 'url(u)']))
    return ' '.join(parts)


def build_env(rng, cyclic):
    """Custom properties --a … --e; acyclic: a value only refers to later names."""
    env = {}
    for i, name in enumerate(VAR_NAMES):
        if rng.random() < 0.2:
            continue        # undefined
        later = VAR_NAMES[i + 1:] + ['undefined']
        refs = VAR_NAMES if cyclic else later
        env[name] = var_value_text(rng, 2, refs, True)
    return env


def real_style(env_texts):
    """A real root ComputedStyle whose cascaded custom properties come out of the real funnel."""
    import tinycss2
    from weasyprint.css import ComputedStyle
    from weasyprint.css.validation import preprocess_declarations
    css = '; '.join(f'--{k}: {v}' for k, v in env_texts.items())
    cascaded = {}
    for name, value, _ in preprocess_declarations(BASE_URL, tinycss2.parse_blocks_contents(css)):
        cascaded[name] = (value, 0)
    style = ComputedStyle(None, cascaded, None, None, None, BASE_URL)
    wire = [[enc(name), [real.tk_wire(t) for t in value]] for name, (value, _) in cascaded.items()]
    return style, wire


def resolve_out(style, tok):
    from weasyprint.css import resolve_var
    try:
        result = resolve_var(style, tok, None)
    except RecursionError as exc:
        return 'err:RecursionError', exc
    except Exception as exc:  # noqa: BLE001
        return real.fail_atom(exc), exc
    if result is None:
        return 'none', None
    return 'ok ' + real.toks_out(result), None


def sec_var(run):
    _, utils, _, _, _ = real.mods()
    sec = run.section('var', 'parse_function / check_var_function / resolve_var by direct call on generated token '
                      'trees and environments of custom properties (real ComputedStyle built by the real funnel; '
                      'acyclic, cyclic, undefined, fallbacks, nested functions, malformed var()) vs the model; '
                      'non-trivial = the token contains a detectable var()')
    old_limit = sys.getrecursionlimit()
    sys.setrecursionlimit(400)
    try:
        for _ in range(run.n(1000, 10000)):
            cyclic = run.rng.random() < 0.12
            env_texts = build_env(run.rng, cyclic)
            style, env_wire = real_style(env_texts)
            for _ in range(4):
                text = var_value_text(run.rng, 3, VAR_NAMES + ['undefined'], True)
                for tok in tokens_of(text):
                    wire = real.tk_wire(tok)
                    is_var = bool(utils.check_var_function(tok))
                    if tok.type == 'function':
                        sec.add(sx.line('check-var', wire), 'true' if is_var else 'false', nontrivial=is_var,
                                meta={'token': real.tok_text(tok)}, tags=['check-var'])
                        parsed = utils.parse_function(tok)
                        sec.add(sx.line('parse-function', wire),
                                'none' if parsed is None else f'ok {enc(parsed[0])} {real.toks_out(parsed[1])}',
                                nontrivial=parsed is not None, meta={'token': real.tok_text(tok)},
                                tags=['parse-function'])
                    impl, exc = resolve_out(style, tok)
                    sec.add(sx.line('resolve', FUEL, env_wire, wire), impl, nontrivial=is_var,
                            meta={'env': env_texts, 'token': real.tok_text(tok)},
                            tags=['cyclic-env' if cyclic else 'acyclic-env', impl.split(' ')[0],
                                  *(['cyclic-resolved'] if cyclic and is_var and impl.startswith('ok') else [])])
    finally:
        sys.setrecursionlimit(old_limit)


# ------------------------------------------------------------------------------------ document level

PAGE_CSS = '@page{size:300px 200px;margin:0}body{margin:0;font-size:16px;line-height:20px}'
DOC_BODY = ('<div class=a><p class=p>ab cd</p><ul class=u><li>one</li><li class=l>two</li></ul></div>'
            '<section class=s><span class=x>xx</span> <b class=y>yy</b></section>')
SELECTORS = ['div', '.a', 'p', '.p', 'ul', '.u', 'li', '.l', 'section', '.s', 'span', '.x', '.y', 'body']
LAYOUT_PROPS = ['width', 'height', 'margin', 'margin-left', 'padding', 'padding-top', 'border', 'border-left',
                'border-width', 'border-style', 'border-color', 'color', 'background-color', 'font-size',
                'font-weight', 'font-style', 'line-height', 'text-align', 'text-indent', 'display', 'float',
                'list-style', 'list-style-type', 'text-decoration', 'outline', 'border-radius', 'columns',
                'flex-flow', 'gap', 'opacity', 'letter-spacing', 'word-wrap', 'page-break-before', 'position',
                'min-width', 'max-width', 'top', 'left', 'column-rule', 'visibility', 'box-sizing']


# every parent carries non-initial values, so that a longhand wrongly left to `inherit` shows
PARENTS_CSS = ('body,div,ul,section{border:3px dotted blue;outline:2px dashed green;column-rule:1px solid red;'
               'list-style:square inside;border-radius:7px;margin:5px;padding:3px}')


def render_fp(css, body=DOC_BODY):
    try:
        return real.digest(real.fingerprint(docs.render(f'<style>{PAGE_CSS}{css}</style>{body}'))), None
    except RecursionError as exc:
        return 'err:RecursionError', exc
    except Exception as exc:  # noqa: BLE001
        return f'err:{type(exc).__name__}', exc


def valid_declaration(rng, restrict=None):
    for _ in range(50):
        name = rng.choice(restrict or LAYOUT_PROPS)
        singles = G.accepted_singles(name)
        if not singles:
            continue
        text = ' '.join(rng.choice(singles) for _ in range(rng.choice([1, 1, 1, 2])))
        if 'attr(' in text or 'var(' in text or 'url(' in text:
            continue
        import re
        if re.search(r'\d{4}|\de\d|e\+|e-', text):
            continue        # huge numbers make layout arbitrarily slow (column-count: 99999999999)
        if G.call_validator(name, text)[0] == 'ok':
            return name, text
    return 'color', 'red'


def invalid_declaration(rng, wanted=None):
    """A declaration the real funnel drops (checked), of any kind, that cannot swallow its neighbours.
    `wanted`: the registered property / shorthand it should be a declaration of (systematic coverage)."""
    props, shorthands = G.all_names()
    for attempt in range(300):
        r = rng.random()
        unknown = r < 0.2 and (wanted is None or attempt >= 60)
        name = f'unknown-prop-{rng.choice("abc")}' if unknown else wanted if (wanted and attempt < 60) else \
            rng.choice(LAYOUT_PROPS if r < 0.7 else props + shorthands)
        text = G.value_text(rng, name if not unknown else 'width', rng.choice(['other', 'soup', 'adversarial']))
        if any(c in text for c in ';{}\\') or 'var(' in text.lower() or '/*' in text or '"' in text or "'" in text \
                or 'url(' in text.lower() or '!' in text or '\n' in text or '<!--' in text or '-->' in text:
            continue
        if text.count('(') != text.count(')') or text.count('[') != text.count(']'):
            continue
        if not G.tokens_of(text) or any(t.type == 'error' for t in G.parse_value(text)):
            continue
        written = name if unknown else G.decl_name(rng, name)
        if written.startswith('--'):
            continue
        import tinycss2
        decls = tinycss2.parse_blocks_contents(f'{written}: {text}')
        if len(decls) != 1 or decls[0].type != 'declaration':
            continue
        # it must not swallow what follows it (misnested brackets such as `f( ] [)` balance by count only)
        after = [d for d in tinycss2.parse_blocks_contents(f'{written}: {text}; --probe: 1') if d.type == 'declaration']
        if len(after) != 2 or after[1].name != '--probe':
            continue
        from weasyprint.css.validation import preprocess_declarations
        try:
            if list(preprocess_declarations(BASE_URL, decls)):
                continue
        except Exception:  # noqa: BLE001 - crashing declarations belong to the funnel section
            continue
        return f'{written}: {text}'
    return 'color: 12px'


def sec_docs(run):
    docs.quiet()
    sec = run.section('documents', 'rendered metamorphic pairs (layout fingerprint = geometry + computed styles of '
                      'every box): stylesheet with invalid declarations injected vs without; shorthand vs the longhand '
                      'set produced by the model expansion; a length vs the same length in another absolute unit; '
                      'var() vs the substitution computed by the model; echo of the reference digest')
    rng = run.rng
    known = {}
    # (1) invalid declarations vanish — systematically one of every registered property and shorthand
    props_all, shorthands_all = G.all_names()
    cycle = props_all + shorthands_all
    rng.shuffle(cycle)
    cursor = [0]
    injected = set()

    def next_invalid():
        wanted = cycle[cursor[0] % len(cycle)]
        cursor[0] += 1
        text = invalid_declaration(rng, wanted)
        injected.add(text.split(':')[0].strip().lower().replace('-weasy-', '').replace('-webkit-', ''))
        return text
    inert_rules = ['p > { color: red }', '@foo { x: y }', '@foo;', '@media !! { p { color: red; margin: 9px } }',
                   '@page :unknown { margin: 1px }', '@import "nope.css";', '@counter-style { }', '/* c */',
                   '.nope::foo { color: red }', ':nosuch(p) { margin: 50px }', '@supports (x: y) { p { margin: 50px } }',
                   '@media screen { p { margin: 50px } }', '@page { colour: red; @top-left { nope: 1 } }',
                   'p:: { margin: 50px }', '@namespace x "y";', '@font-face { }', '@keyframes k { from { top: 0 } }']
    for _ in range(run.n(100, 1500)):
        rules = []
        for _ in range(rng.choice([1, 2, 3])):
            decls = ['%s: %s' % valid_declaration(rng) for _ in range(rng.choice([1, 2, 3]))]
            rules.append((rng.choice(SELECTORS), decls))
        clean = ''.join(f'{sel}{{{"; ".join(decls)}}}' for sel, decls in rules)
        dirty_rules = []
        for sel, decls in rules:
            decls = list(decls)
            for _ in range(rng.choice([1, 2, 2, 3])):
                decls.insert(rng.randrange(len(decls) + 1), next_invalid())
            dirty_rules.append(f'{sel}{{{"; ".join(decls)}}}')
        if rng.random() < 0.3:
            dirty_rules.insert(rng.randrange(len(dirty_rules) + 1), f'{rng.choice(SELECTORS)}{{{next_invalid()}}}')
        for _ in range(rng.choice([0, 1, 2])):
            # an ignored rule or at-rule anywhere after the first rule (an @import would be honoured first)
            dirty_rules.insert(rng.randrange(1, len(dirty_rules) + 1), rng.choice(inert_rules))
        dirty = ''.join(dirty_rules)
        want, exc0 = render_fp(clean)
        got, exc = render_fp(dirty)
        finding = known_crash(exc) or known_crash(exc0)
        if finding:
            known[finding] = known.get(finding, 0) + 1
            continue
        sec.add(sx.line('echo', want), got, meta={'kind': 'invalid-vanish', 'clean': clean, 'dirty': dirty},
                tags=['invalid-vanish'])
    registered = set(cycle)
    run.extra['invalid_vanish_names_injected'] = len(injected & registered)
    run.extra['invalid_vanish_names_registered'] = len(registered)
    run.extra['invalid_vanish_names_never_injected'] = sorted(registered - injected)[:40]
    # (2) units
    conversions = [('in', 1), ('pt', 72), ('pc', 6), ('cm', Fraction(254, 100)), ('mm', Fraction(254, 10)),
                   ('q', Fraction(1016, 10)), ('px', 96)]
    for _ in range(run.n(60, 800)):
        prop = rng.choice(['width', 'margin-left', 'padding-top', 'font-size', 'border-left-width', 'text-indent',
                           'height', 'letter-spacing'])
        inches = Fraction(rng.choice([1, 2, 3, 5]), rng.choice([1, 2, 4, 8]))
        (u1, k1), (u2, k2) = rng.sample(conversions, 2)
        def spell(k, u):
            v = inches * k
            return f'{float(v):.10g}{u}'
        pre = 'border-left-style:solid;' if prop.startswith('border') else ''
        sel = rng.choice(['.p', '.a', 'li', '.x'])
        a, _ = render_fp(f'{sel}{{{pre}{prop}:{spell(k1, u1)}}}')
        b, _ = render_fp(f'{sel}{{{pre}{prop}:{spell(k2, u2)}}}')
        exact = all(float(inches * k) * f == 96 * float(inches) for k, f in ((k1, _factor(u1)), (k2, _factor(u2))))
        if not exact:
            continue     # float rounding of the conversion differs between the two spellings: not comparable exactly
        sec.add(sx.line('echo', a), b, meta={'kind': 'units', 'prop': prop, 'a': spell(k1, u1), 'b': spell(k2, u2)},
                tags=['units'])
    # (3) shorthand = longhands given by the model
    shorthand_cases = []
    for _ in range(run.n(90, 1200)):
        key = rng.choice(['margin', 'padding', 'border-width', 'border-style', 'border-color', 'border-top',
                          'border-left', 'outline', 'border', 'list-style', 'border-radius', 'column-rule'])
        shorthand_cases.append(shorthand_case(rng, key))
    shorthand_cases = [c for c in shorthand_cases if c]
    outs = lean.run_driver(PROP.driver, [c['line'] for c in shorthand_cases])
    for case, out in zip(shorthand_cases, outs):
        longhands = model_longhands_css(case, out)
        if longhands is None:
            continue
        sel = rng.choice(['.p', '.a', 'li', 'ul', '.x'])
        pre = case.get('pre', '')
        a, _ = render_fp(f'{PARENTS_CSS}{sel}{{{pre}{case["key"]}: {case["css"]}}}')
        b, _ = render_fp(f'{PARENTS_CSS}{sel}{{{pre}{longhands}}}')
        sec.add(sx.line('echo', b), a, meta={'kind': 'shorthand', 'key': case['key'], 'css': case['css'],
                                             'longhands': longhands, 'sel': sel, 'pre': pre},
                tags=['shorthand:' + case['key']])
    # (4) var() = substitution given by the model
    var_cases = []
    for _ in range(run.n(90, 1200)):
        case = var_doc_case(rng)
        if case:
            var_cases.append(case)
    outs = lean.run_driver(PROP.driver, [c['line'] for c in var_cases])
    for case, out in zip(var_cases, outs):
        if not out.startswith('ok '):
            continue
        text = render_tokens(sx.loads_line(out[3:])[0])
        env_css = ''.join(f'--{k}: {v};' for k, v in case['env'].items())
        a, exc = render_fp(f'{case["sel"]}{{{env_css}{case["prop"]}: {case["value"]}}}')
        b, _ = render_fp(f'{case["sel"]}{{{env_css}{case["prop"]}: {text}}}')
        finding = known_crash(exc)
        if finding:
            known[finding] = known.get(finding, 0) + 1
            continue
        sec.add(sx.line('echo', b), a, meta={'kind': 'var', **{k: case[k] for k in ('env', 'prop', 'value', 'sel')},
                                             'substituted': text}, tags=['var'])
    # (5) unit spellings: a length the funnel keeps renders like its px spelling; one it drops, like nothing
    from weasyprint.css.utils import LENGTHS_TO_PIXELS
    import tinycss2
    from weasyprint.css.validation import preprocess_declarations
    for _ in range(run.n(40, 600)):
        prop = rng.choice(['width', 'margin-left', 'padding-top', 'font-size', 'border-left-width', 'text-indent',
                           'height', 'letter-spacing', 'line-height', 'top', 'column-gap', 'outline-width'])
        unit = rng.choice(sorted(LENGTHS_TO_PIXELS))
        written = rng.choice([unit, unit.upper(), unit.capitalize(), unit.upper(), unit[:-1] + unit[-1].upper()])
        inches = Fraction(rng.choice([1, 2, 3]), rng.choice([1, 2, 4]))
        k = dict(conversions)[unit]
        if float(inches * k) * LENGTHS_TO_PIXELS[unit] != 96 * float(inches):
            continue
        value = f'{float(inches * k):.10g}{written}'
        pre = 'border-left-style:solid;outline-style:solid;position:relative;'
        sel = rng.choice(['.p', '.a', 'li'])
        try:
            kept = bool(list(preprocess_declarations(BASE_URL, tinycss2.parse_blocks_contents(f'{prop}: {value}'))))
        except Exception:  # noqa: BLE001 - reported by the funnel section
            continue
        reference = f'{prop}:{float(96 * inches):.10g}px' if kept else ''
        want, _ = render_fp(f'{sel}{{{pre}{reference}}}')
        got, _ = render_fp(f'{sel}{{{pre}{prop}:{value}}}')
        sec.add(sx.line('echo', want), got, meta={'kind': 'unit-spelling', 'prop': prop, 'value': value, 'sel': sel,
                                                  'pre': pre, 'kept': kept},
                tags=['unit-spelling:kept' if kept else 'unit-spelling:dropped'])
    # (6) var() whose substituted value is invalid for the property = the literal invalid declaration = nothing
    from weasyprint.css.properties import INHERITED
    inherited = [n.replace('_', '-') for n in sorted(INHERITED)]
    for _ in range(run.n(50, 800)):
        # inherited properties only: for the others CSS makes a var() that is invalid at computed-value time fall
        # back to the initial value even when a lower-priority declaration exists (css-variables-1 §3.1)
        prop = rng.choice(inherited)
        try:
            valid, invalid = pending_samples(prop)
        except Exception:  # noqa: BLE001
            continue
        if valid is None or invalid is None or prop.replace('-', '_') in PENDING_SKIP:
            continue
        parent = f'.a, ul, section{{{prop}: {valid}}}'
        sel = rng.choice(['.p', 'li', '.x'])
        want, _ = render_fp(f'{parent}{sel}{{{prop}: {invalid}}}')
        got, exc = render_fp(f'{parent}body{{--v: {invalid}}}{sel}{{{prop}: var(--v)}}')
        if known_crash(exc):
            continue
        sec.add(sx.line('echo', want), got, meta={'kind': 'var-invalid', 'prop': prop, 'valid': valid,
                                                  'invalid': invalid, 'sel': sel}, tags=['var-invalid'])
    # (7) one rule with var() shared by several elements whose custom property differs (valid for some, invalid for
    #     others): element by element it is the literal declaration of the element's own value
    fixed_shared = [
        ('border', {'a': '2px solid rgb(255, 0, 0)', 'b': '2px solid rgb(0, 0, 255)', 'c': '2px solid rgb(255, 0, 0)',
                    'd': '2px solid rgb(0, 255, 0)'}),
        ('background', {'a': 'linear-gradient(red, blue)', 'b': 'linear-gradient(blue, red)', 'c': 'rgb(255, 0, 0)',
                        'd': 'rgb(0, 0, 255)'}),
        ('grid-template', {'a': '20px / repeat(2, 50px)', 'b': '20px / repeat(4, 25px)', 'c': '20px / [x] 50px',
                           'd': '20px / [y] 50px'}),
        ('outline', {'a': '2px solid rgb(255, 0, 0)', 'b': '2px solid rgb(0, 0, 255)', 'c': '3px dotted', 'd': 'rgb(1, 2, 3)'}),
    ]
    cases = []
    for prop, values in fixed_shared:
        base = 'body{color: inherit}.t{display: grid}' if prop == 'grid-template' else 'body{color: inherit}'
        cases.append({'prop': prop, 'values': values, 'after': False, 'lookalike': True,
                      'var': base + f'.t{{{prop}: var(--v)}}' + ''.join(f'#{i}{{--v: {v}}}' for i, v in values.items()),
                      'literal': base + ''.join(f'#{i}{{{prop}: {v}}}' for i, v in values.items())})
    for _ in range(run.n(45, 700)):
        cases.append(shared_var_case(rng))
    for case in cases:
        if case is None:
            continue
        want, _ = render_fp(case['literal'], SHARED_BODY)
        got, exc = render_fp(case['var'], SHARED_BODY)
        sec.add(sx.line('echo', want), got, meta={'kind': 'var-shared', **case},
                tags=['var-shared', *(['var-shared:valid-after-invalid'] if case['after'] else []),
                      *(['var-shared:look-alike'] if case.get('lookalike') else [])])
    run.extra['known_crashes_skipped_in_documents'] = known


SHARED_BODY = '<div id=a class=t>aa</div><div id=b class=t>bb</div><div id=c class=t>cc</div><div id=d class=t>dd</div>'
SHARED_LONGHANDS = ['width', 'height', 'padding-left', 'margin-left', 'text-indent', 'color', 'letter-spacing',
                    'font-size', 'min-height', 'border-left-width', 'line-height', 'text-align', 'word-spacing',
                    'margin-top', 'max-width', 'font-weight']
SHARED_SHORTHANDS = {'margin': (['3px', '1px 2px', '4px 2px 1px'], ['7px red', 'red', '1px 2px 3px 4px 5px']),
                     'padding': (['3px', '1px 2px'], ['7px red', '-1px']),
                     'border-width': (['3px', 'thin thick'], ['3px red', 'solid']),
                     'border': (['2px dotted', 'thick double red'], ['2px 3px', 'red blue'])}


def shared_var_case(rng):
    if rng.random() < 0.3:
        prop = rng.choice(sorted(SHARED_SHORTHANDS))
        valids, invalids = SHARED_SHORTHANDS[prop]
    else:
        prop = rng.choice(SHARED_LONGHANDS)
        try:
            valid, invalid = pending_samples(prop)
        except Exception:  # noqa: BLE001
            return None
        if valid is None or invalid is None:
            return None
        valids = [valid] + [a for a in G.accepted_singles(prop)[:5] if '(' not in a and a not in ('inherit', 'initial')]
        invalids = [invalid]
    ids = ['a', 'b', 'c', 'd']
    values, seen_invalid, after = {}, False, False
    for i in ids:
        if rng.random() < 0.45:
            values[i] = (rng.choice(invalids), False)
            seen_invalid = True
        else:
            values[i] = (rng.choice(valids), True)
            after = after or seen_invalid
    pre = 'border-style:solid;' if prop.startswith('border') and prop != 'border' else ''
    base = f'body{{{prop if prop not in SHARED_SHORTHANDS else "color"}: inherit}}.t{{{pre}}}'
    var_css = base + f'.t{{{prop}: var(--v)}}' + ''.join(f'#{i}{{--v: {v}}}' for i, (v, _) in values.items())
    lit_css = base + ''.join(f'#{i}{{{prop}: {v}}}' for i, (v, _) in values.items())
    return {'prop': prop, 'values': {i: v for i, (v, _) in values.items()}, 'var': var_css, 'literal': lit_css,
            'after': after}


def _factor(unit):
    from weasyprint.css.utils import LENGTHS_TO_PIXELS
    return LENGTHS_TO_PIXELS[unit]


def shorthand_case(rng, key):
    """A shorthand value accepted by the real expander + the protocol line asking the model for its expansion."""
    from tinycss2.color4 import parse_color
    _, utils, _, expanders, properties = real.mods()
    intern = real.Interner()
    if key in ('margin', 'padding', 'border-width', 'border-style', 'border-color'):
        names = [n for n, _ in expanders.expand_four_sides(tuple(tokens_of('var(--v)')), key, BASE_URL)]
        singles = [s for s in G.accepted_singles(names[0]) if '(' not in s]
        atoms = [rng.choice(singles) for _ in range(rng.choice([1, 2, 3, 4]))]
        tokens = tokens_of(' '.join(atoms))
        line = sx.line('four', enc(key), False, [f't{i}' for i in range(len(tokens))], side_table(names, tokens, intern))
        pre = 'border-style:solid;' if key in ('border-width', 'border-color') else ''
    elif key in ('border-top', 'border-left', 'outline', 'border', 'column-rule'):
        atoms = rng.sample(['red', 'blue', '#0f0'], 1) * rng.choice([0, 1]) + \
            rng.sample(['thin', 'thick', '3px', '0'], 1) * rng.choice([0, 1]) + \
            rng.sample(['solid', 'dotted', 'double', 'none'], 1) * rng.choice([0, 1, 1])
        rng.shuffle(atoms)
        if not atoms:
            atoms = ['solid']
        tokens = tokens_of(' '.join(atoms))
        wire = [[parse_color(t) is not None, properties.border_width([t]) is not None,
                 properties.border_style([t]) is not None, f't{i}'] for i, t in enumerate(tokens)]
        if key == 'border':
            names = [f'border{s}{x}' for s in ('-top', '-right', '-bottom', '-left') for x in ('-width', '-color', '-style')]
        else:
            names = [f'{key}{x}' for x in ('-width', '-color', '-style')]
        line = sx.line('border' if key == 'border' else 'side', enc(key), 'plain', wire, side_table(names, tokens, intern))
        pre = 'columns:2;' if key == 'column-rule' else ''
    elif key == 'list-style':
        atoms = rng.sample(['none', 'inside', 'outside', 'square', 'decimal', 'none'], rng.choice([1, 2, 3]))
        tokens = tokens_of(' '.join(atoms))
        wire = [[utils.get_keyword(t) == 'none', properties.list_style_image([t], BASE_URL) is not None,
                 properties.list_style_position([t]) is not None, properties.list_style_type([t]) is not None, f't{i}']
                for i, t in enumerate(tokens)]
        names = ['list-style-type', 'list-style-position', 'list-style-image']
        line = sx.line('list-style', 'list-style', 'plain', wire, side_table(names, tokens, intern))
        pre = ''
    else:  # border-radius
        pool = ['1px', '4px', '10%', '0', '1em']
        atoms = [rng.choice(pool) for _ in range(rng.choice([1, 2, 3, 4]))]
        if rng.random() < 0.5:
            atoms += ['/'] + [rng.choice(pool) for _ in range(rng.choice([1, 2, 3, 4]))]
        tokens = tokens_of(' '.join(atoms))
        wire = ['slash' if (t.type == 'literal' and t.value == '/') else [f't{i}', f't{i}'] for i, t in enumerate(tokens)]
        line = sx.line('radius', 'border-radius', 'plain', wire)
        pre = 'border:2px solid;'
    return {'key': key, 'css': ' '.join(atoms), 'tokens': [real.tok_text(t) for t in tokens], 'line': line, 'pre': pre}


def model_longhands_css(case, out):
    """The model's expansion `ok (name value) …` as longhand declarations text (token ids mapped back to text)."""
    if not out.startswith('ok'):
        return None
    decls = []
    for item in sx.loads_line(out[2:]):
        name, value = item[0], item[1]
        if isinstance(value, list):       # (pair tA tB)
            text = ' '.join(case['tokens'][int(v[1:])] for v in value[1:])
        elif value.startswith('kw:'):
            text = value[3:]
        else:
            continue
        decls.append((name, text))
    if case['key'] in ('margin', 'padding', 'border-width', 'border-style', 'border-color', 'border-top',
                       'border-left', 'outline', 'border', 'column-rule', 'list-style'):
        # values are interned validation atoms: recover the token text through the table order
        return model_longhands_from_table(case, out)
    return '; '.join(f'{n}: {t}' for n, t in decls)


def model_longhands_from_table(case, out):
    line = sx.loads_line(case['line'])
    table = line[-1]
    back = {}
    for (name, tid), result in table:
        if isinstance(result, list):
            back.setdefault((name, result[1]), case['tokens'][int(tid[1:])])
    decls = []
    for item in sx.loads_line(out[2:]):
        name, value = item[0], item[1]
        if value.startswith('kw:'):
            decls.append(f'{name}: {value[3:]}')
        elif (name, value) in back:
            decls.append(f'{name}: {back[(name, value)]}')
        else:
            return None
    return '; '.join(decls)


def render_tokens(tree):
    """Model token trees (wire form) back to CSS text."""
    out = []
    for t in tree:
        if t == 'ws':
            out.append(' ')
        elif t == 'comma':
            out.append(',')
        elif t[0] in ('id', 'leaf'):
            out.append(dec(t[1]) + ' ')
        else:
            out.append(dec(t[1]) + '(' + render_tokens(t[3]) + ') ')
    return ''.join(out)


def dec(atom):
    import re
    if atom == '%;':
        return ''
    return re.sub(r'%([0-9a-fA-F]*);', lambda m: chr(int(m.group(1), 16)) if m.group(1) else '', atom)


def var_doc_case(rng):
    """A property whose value uses var() over an acyclic environment with comma-free fallbacks and no plain
    sibling function (the two known findings are replayed separately)."""
    prop, value_pool = rng.choice([
        ('width', ['10px', '50%', '5em']), ('margin-left', ['3px', '1em', '0']), ('color', ['red', 'blue']),
        ('padding', ['1px', '2px 4px', '1px 2px 3px']), ('border', ['1px solid', 'thick', '2px dotted red']),
        ('font-size', ['10px', '20px']), ('transform', ['translate(10px, 5px)', 'rotate(10deg)']),
        ('font-family', ['serif', 'Arial', 'monospace']), ('border-spacing', ['1px', '3px']),
        ('text-decoration-line', ['underline', 'overline'])])
    multi = {'font-family': ', ', 'border-spacing': ' ', 'text-decoration-line': ' ', 'padding': ' '}
    env = {}
    names = ['a', 'b-x', 'c']
    for i, name in enumerate(names):
        if rng.random() < 0.25:
            continue
        if rng.random() < 0.4 and i + 1 < len(names):
            env[name] = f'var(--{names[i + 1]}, {rng.choice(value_pool)})'
        else:
            env[name] = rng.choice(value_pool)
    r = rng.random()
    ref = rng.choice(names)
    if prop == 'transform' and r < 0.5:
        value = f'translate(var(--{ref}x, 7px), 2px)'
    elif r < 0.7:
        value = f'var(--{ref}, {rng.choice(value_pool)})'
    else:
        value = f'var(--{ref})'
    if prop in multi and rng.random() < 0.6:
        # var() after a plain first component of a multi-token value
        first = {'font-family': 'fantasy', 'border-spacing': '2px', 'text-decoration-line': 'line-through',
                 'padding': '5px'}[prop]
        if prop != 'padding' or all(' ' not in v for v in env.values()):
            value = f'{first}{multi[prop]}{value}'
    style, env_wire = real_style(env)
    tokens = tokens_of(value)
    return {'env': env, 'prop': prop, 'value': value, 'sel': rng.choice(['.p', '.a', 'li']),
            'line': sx.line('subst', FUEL, env_wire, [real.tk_wire(t) for t in tokens])}


# ------------------------------------------------------------------------------- findings (replays)

def _subprocess_render(css, limit=None):
    """Render in an isolated interpreter (a RecursionError must not disturb this process)."""
    code = (
        'import sys, logging\n'
        f'sys.path.insert(0, {str(REPO)!r})\n'
        f'sys.path.insert(0, {os.path.dirname(os.path.dirname(os.path.abspath(__file__)))!r})\n'
        + (f'sys.setrecursionlimit({limit})\n' if limit else '') +
        'logging.getLogger("weasyprint").setLevel(logging.CRITICAL)\n'
        'from harness import docs\n'
        'try:\n'
        f'    docs.render({css!r})\n'
        '    print("OK")\n'
        'except RecursionError:\n'
        '    print("EXC RecursionError")\n'
        'except BaseException as exc:\n'
        '    print("EXC", type(exc).__name__)\n')
    proc = subprocess.run([sys.executable, '-c', code], capture_output=True, text=True, timeout=300)
    lines = proc.stdout.strip().splitlines()
    return lines[-1] if lines else f'EXC exit{proc.returncode}'


def render_raises(css, cls):
    try:
        docs.render(f'<style>{css}</style><p>x</p>')
    except Exception as exc:  # noqa: BLE001
        return type(exc).__name__ == cls
    return False


def replay_var_self_cycle():
    out = _subprocess_render('<style>p{--a:var(--a);width:var(--a)}</style><p>x</p>', limit=600)
    return out == 'EXC RecursionError'


def replay_var_fallback_commas():
    from weasyprint.formatting_structure import boxes
    document = docs.render('<style>p{font-family:var(--f, Arial, sans-serif)}</style><p>x</p>')
    reference = docs.render('<style>p{font-family:Arial, sans-serif}</style><p>x</p>')

    def family(doc):
        for box in doc.pages[0]._page_box.descendants():
            if box.element_tag == 'p' and isinstance(box, boxes.BlockBox):
                return box.style['font_family']
    return family(document) != family(reference)


def render_raises(css, cls):
    try:
        docs.render(f'<style>{css}</style><p>x</p>')
    except Exception as exc:  # noqa: BLE001
        return type(exc).__name__ == cls
    return False


def replay_var_shorthand_partial():
    from weasyprint.formatting_structure import boxes

    def margins(css):
        document = docs.render(f'<style>body{{margin:0}}{css}</style><p>x</p>')
        for box in document.pages[0]._page_box.descendants():
            if box.element_tag == 'p' and isinstance(box, boxes.BlockBox):
                return (box.margin_top, box.margin_right, box.margin_bottom, box.margin_left)
    return margins('p{margin:0;--a:7px red;margin:var(--a)}') != margins('p{margin:0;margin:7px red}')


def replay_flex_float_zero():
    a, b = expansion_dict('flex', tokens_of('0.0')), expansion_dict('flex', tokens_of('0'))
    return isinstance(a, dict) and isinstance(b, dict) and a['flex-grow'] != b['flex-grow']


def replay_flex_negative_factor():
    """`flex-grow: 2; flex-grow: -1`: the second, invalid declaration wins (computed flex-grow -1)."""
    got = {name: value for name, value in real_funnel_pairs('flex-grow: 2; flex-grow: -1; flex-shrink: 1; flex-shrink: -0.5')}
    return got.get('flex_grow') == -1 or got.get('flex_shrink') == -0.5


def real_funnel_pairs(css):
    import tinycss2
    from weasyprint.css.validation import preprocess_declarations
    out = {}
    for name, value, _ in preprocess_declarations(BASE_URL, tinycss2.parse_blocks_contents(css)):
        out[name] = value       # the last declaration of a name wins in the cascade
    return list(out.items())


def replay_image_resolution_zero():
    import base64
    import io
    from PIL import Image
    buf = io.BytesIO()
    Image.new('RGB', (20, 10), 'red').save(buf, 'PNG')
    uri = 'data:image/png;base64,' + base64.b64encode(buf.getvalue()).decode()
    try:
        docs.render(f'<style>img{{image-resolution: 0dppx}}</style><img src="{uri}">')
    except ZeroDivisionError:
        return True
    return bool(real_funnel_pairs('image-resolution: 0dppx')) or bool(real_funnel_pairs('image-resolution: -1dppx'))


def replay_css_wide_as_ident():
    got = dict(real_funnel_pairs('grid-row-start: inherit 2; grid-area: inherit / a; font-family: inherit, serif'))
    return bool(got)


def replay_border_image_gradient_lengths():
    return render_raises('p{border:10px solid;border-image-source:linear-gradient(red 1in, blue 2in);'
                         'border-image-slice:1}', 'AssertionError') or \
        computed_of('border-image-source', 'linear-gradient(red 72pt, blue 96px)') != \
        computed_of('border-image-source', 'linear-gradient(red 96px, blue 96px)')


FINDING_REPLAYS = {
    'css-wide-keyword-as-ident': replay_css_wide_as_ident,
    'var-fallback-commas-dropped': replay_var_fallback_commas,
}


def replay_var_root_inherit():
    """html{--a:inherit;width:var(--a)} must render, and like html{width:inherit}."""
    a, exc = render_fp('html{--a:inherit;width:var(--a)}')
    b, _ = render_fp('html{width:inherit}')
    return exc is not None or a != b


def replay_var_cycle_in_process():
    """Cyclic custom properties of several shapes resolve (no exception) and leave the property as if absent."""
    for css in ('.p{--a:var(--a);width:var(--a)}', '.p{--a:var(--b);--b:var(--a);width:var(--a)}',
                '.p{--a:1px var(--a);margin-left:var(--b, var(--a))}'):
        old = sys.getrecursionlimit()
        sys.setrecursionlimit(max(old, 3000))
        try:
            _, exc = render_fp(css)
        finally:
            sys.setrecursionlimit(old)
        if exc is not None:
            return True
    a, _ = render_fp('.p{--a:var(--a);width:var(--a)}')
    b, _ = render_fp('.p{--a:var(--a)}')
    return a != b


# Repaired findings (`fixed:` lines of known_findings.txt): replayed first in every run; a defect that comes back
# is a disagreement of the `regressions` section, judged and reported as a VIOLATION (a fixed entry suppresses
# nothing).  id -> (replay: True when the defect is there, commit, what fails)
REGRESSIONS = {
    'border-image-gradient-lengths-not-computed': (lambda: replay_border_image_gradient_lengths(), 'e161f80',
                                                   'border-image-source: linear-gradient(red 1in, blue 2in) keeps its '
                                                   'units (AssertionError in layout.percent.percentage)'),
    'flex-negative-factor-accepted': (lambda: replay_flex_negative_factor(), 'c151619',
                                      'flex-grow: 2; flex-grow: -1 keeps the negative factor (also flex-shrink: -0.5)'),
    'image-resolution-zero-division': (lambda: replay_image_resolution_zero(), 'd011d54',
                                       'img{image-resolution: 0dppx} with a raster <img> raises ZeroDivisionError, or '
                                       'a non-positive resolution is kept'),
    'var-self-cycle-recursion': (replay_var_cycle_in_process, '2bffab3',
                                 'p{--a:var(--a);width:var(--a)} and longer cycles: RecursionError in resolve_var, or '
                                 'the cyclic declaration changes the rendering'),
    'var-inherit-on-root-typeerror': (replay_var_root_inherit, '582f36b',
                                      'html{--a:inherit;width:var(--a)} raises or does not render like '
                                      'html{width:inherit}'),
    'var-shorthand-partially-applied': (replay_var_shorthand_partial, 'f9155ce',
                                        'p{margin:0;--a:7px red;margin:var(--a)} applies margin-top only instead of '
                                        'dropping the declaration like margin:7px red'),
    'flex-float-zero-as-basis': (replay_flex_float_zero, '6a44d73', 'flex: 0.0 does not expand like flex: 0'),
    'font-face-src-format-indexerror': (lambda: render_raises(
        '@font-face { font-family: x; src: format("woff") }', 'IndexError'), 'be7a07b',
        '@font-face { src: format("woff") } raises IndexError in the src descriptor'),
    'counter-style-system-empty-indexerror': (lambda: render_raises('@counter-style a { system: ; }', 'IndexError'),
                                              'd71ddd0', '@counter-style a { system: ; } raises IndexError'),
    'var-sibling-function-typeerror': (lambda: render_raises(
        'p{--c:red;background-image:linear-gradient(var(--c), rgb(0,0,0))}', 'TypeError'), '187ca26',
        'linear-gradient(var(--c), rgb(0,0,0)) raises TypeError in resolve_var'),
    'font-shorthand-indexerror': (lambda: render_raises('p{font:normal}', 'IndexError'), 'daf964a',
                                  'font: normal raises IndexError in expand_font'),
    'font-shorthand-slash-indexerror': (lambda: render_raises('p{font:10px /}', 'IndexError'), '5e6ab3a',
                                        'font: 10px / raises IndexError in expand_font'),
    'grid-template-empty-tracks': (lambda: render_raises('p{grid-template:/ a}', 'IndexError') or
                                   render_raises('p{grid:a /}', 'IndexError'), 'd79bf98',
                                   'grid-template: / a raises IndexError in grid_template'),
    'attr-image-assert': (lambda: render_raises('p{background-image:attr(x url)}', 'AssertionError'), 'fd4c3d7',
                          'background-image: attr(x url) fails an assert in get_image'),
}


def sec_regressions(run):
    """Corpus first: the inputs of the repaired findings, on the real code."""
    sec = run.section('regressions', 'the committed input of every repaired finding of this property (fixed: lines of '
                      'known_findings.txt, corpus/C07) replayed on the real code: the defect must be gone (echo); '
                      'non-trivial = all')
    for fid, (fn, commit, what) in REGRESSIONS.items():
        try:
            back = bool(fn())
        except Exception:  # noqa: BLE001 - a replay that cannot run counts as the defect being back
            back = True
        sec.add(sx.line('echo', 'fixed'), 'regressed' if back else 'fixed',
                meta={'regression': fid, 'commit': commit, 'what': what}, tags=['fixed' if not back else 'regressed'])


def judge_regression(meta):
    fn, commit, what = REGRESSIONS[meta['regression']]
    try:
        back = bool(fn())
    except Exception as exc:  # noqa: BLE001
        return f'replay of the repaired finding {meta["regression"]} raised {type(exc).__name__}'
    if back:
        return f'the defect repaired by {commit} is back ({meta["regression"]}): {what}'
    return None


# ------------------------------------------------------------------------------------------ judging

def judge_funnel_text(css):
    """The clauses of C07 on the real funnel, stated directly: it returns, and its output is the concatenation
    of its outputs on the singletons."""
    import tinycss2
    intern = real.Interner()
    decls = tinycss2.parse_blocks_contents(css)
    out, exc = real.funnel_out(decls, intern)
    if exc is not None:
        if known_crash(exc):
            return None
        cls, fn = real.innermost(exc)
        return f'preprocess_declarations raised {cls} (in {fn}) on `{css}`: a malformed declaration aborts the stylesheet'
    singles = []
    for d in decls:
        one, exc1 = real.funnel_out([d], intern)
        if exc1 is not None:
            return f'preprocess_declarations raised {type(exc1).__name__} on one declaration of `{css}`'
        singles.append(one[3:] if one.startswith('ok ') else '')
    joined = ('ok ' + ' '.join(s for s in singles if s)).strip()
    if joined != out:
        return f'output for `{css}` is not the concatenation of the outputs for its declarations: {out} vs {joined}'
    return None


def judge_expander(key, css):
    """Clauses on a registered expander: only InvalidValues may be raised; the result names exactly the longhands
    of the shorthand, once each; side/corner mapping of the 1-to-4 value shorthands."""
    _, utils, _, expanders, properties = real.mods()
    tokens = tuple(tokens_of(css))
    if not tokens or key not in expanders.EXPANDERS:
        return None
    kind, result, exc = real.outcome_list(lambda: expanders.EXPANDERS[key](tokens, key, BASE_URL))
    if kind != 'ok':
        if result == 'invalid':
            return judge_permutations(key, tokens, css) or judge_reference(key, tokens, css)
        if known_crash(exc):
            return None
        return f'{key}: {css} raised {result} (only InvalidValues is funnelled)'
    names = [n for n, _ in result]
    if len(set(names)) != len(names):
        return f'{key}: {css} yields a longhand twice: {names}'
    unknown = [n for n in names if n not in properties.PROPERTIES]
    if unknown:
        return f'{key}: {css} yields names that are not longhand properties: {unknown}'
    if key == 'border':
        want = [f'border-{side}-{part}' for side in ('top', 'right', 'bottom', 'left')
                for part in ('width', 'color', 'style')]
        if sorted(names) != sorted(want):
            return f'border: {css} yields {names}: border stands for the width, colour and style of all four sides'
    declared, _ = real.closure_of(expanders.EXPANDERS[key])
    if declared is not None:
        want = [real.actual_name(key, n) for n in declared]
        if names != want:
            return f'{key}: {css} yields {names}, the shorthand stands for {want}'
    # "omitted parts reset to their initial value": a longhand for which no token of the value is a valid
    # component on its own was omitted (shorthands that synthesise tokens are excluded)
    if (declared is not None and key not in SYNTHESISING and not real.has_var(tokens)
            and utils.get_single_keyword(tokens) not in ('inherit', 'initial')):
        for long_name, value in result:
            given = False
            for t in tokens:
                try:
                    properties.validate_non_shorthand([t], long_name, BASE_URL, required=True)
                    given = True
                except Exception:  # noqa: BLE001
                    pass
            if not given and len(tokens) < 3 and value != 'initial':
                return (f'{key}: {css} gives {long_name} the value {real.canon(value)} although no component of '
                        f'the value is a {long_name}: omitted longhands must be reset to initial')
    what = judge_permutations(key, tokens, css) or judge_reference(key, tokens, css)
    if what:
        return what
    if key == 'border-radius' and real.head_of(tokens) == 'plain':
        what = judge_border_radius(tokens, result, css)
        if what:
            return what
    if key == 'list-style' and real.head_of(tokens) == 'plain':
        what = judge_list_style(tokens, result, css)
        if what:
            return what
    if expanders.EXPANDERS[key].__name__ == 'expand_four_sides' and not real.has_var(tokens):
        values = [real.canon(v) for _, v in result]
        singles = []
        for t in tokens:
            try:
                (_, v), = properties.validate_non_shorthand([t], names[0], BASE_URL, required=True)
            except Exception:  # noqa: BLE001
                return f'{key}: {css} accepted although `{real.tok_text(t)}` alone is not a valid component'
            singles.append(real.canon(v))
        k = len(singles)
        want = [singles[0], singles[1 % k] if k > 1 else singles[0],
                singles[2] if k > 2 else singles[0], singles[3] if k > 3 else (singles[1] if k > 1 else singles[0])]
        if k > 4 or values != want:
            return f'{key}: {css} maps to top/right/bottom/left = {values}, CSS says {want}'
    return None


# shorthands whose grammar is `a || b || c` on single tokens: the components may come in any order
ORDER_FREE = ('columns', 'flex-flow', 'border-top', 'border-right', 'border-bottom', 'border-left', 'border', 'outline',
              'column-rule', 'list-style', 'text-decoration')


def expansion_dict(key, tokens):
    """The registered expander as {longhand: canonical value}, 'invalid', or 'err:Class'."""
    _, _, _, expanders, _ = real.mods()
    kind, result, exc = real.outcome_list(lambda: expanders.EXPANDERS[key](tuple(tokens), key, BASE_URL))
    if kind != 'ok':
        return result
    return {name: real.canon(value) for name, value in result}


def judge_permutations(key, tokens, css):
    """`||` grammars: every order of the components of a value means the same set of longhands (css-values-3 §2.3);
    in particular if one order is accepted, all are."""
    import itertools
    if key not in ORDER_FREE or not 2 <= len(tokens) <= 4 or real.has_var(tokens):
        return None
    if any(t.type == 'literal' for t in tokens):
        return None
    outcomes = []
    for perm in itertools.permutations(range(len(tokens))):
        outcomes.append((perm, expansion_dict(key, [tokens[i] for i in perm])))
    accepted = [(perm, out) for perm, out in outcomes if isinstance(out, dict)]
    if not accepted:
        return None
    ref_perm, ref = accepted[0]
    for perm, out in outcomes:
        if out != ref:
            spell = lambda p: ' '.join(real.tok_text(tokens[i]) for i in p)     # noqa: E731
            return (f'`{key}: {spell(ref_perm)}` expands to {ref} but the same components in another order, '
                    f'`{key}: {spell(perm)}`, give {out}: shorthand components are order independent')
    return None


def judge_shorthand_longhands(key, css):
    """A shorthand renders like the longhand declarations obtained by giving each component to the longhand that
    accepts it (independent reference: assignment by the longhand validators alone, no expander involved)."""
    _, _, _, expanders, properties = real.mods()
    tokens = tokens_of(css)
    declared, _ = real.closure_of(expanders.EXPANDERS[key])
    if key not in ORDER_FREE or declared is None or not 1 <= len(tokens) <= 3 or real.has_var(tokens):
        return None
    names = [real.actual_name(key, n) for n in declared]
    accepts = []
    for t in tokens:
        ok = []
        for n in names:
            try:
                properties.validate_non_shorthand([t], n, BASE_URL, required=True)
                ok.append(n)
            except Exception:  # noqa: BLE001
                pass
        accepts.append(ok)
    # a perfect assignment token -> distinct longhand; ambiguous tokens (auto, none) take what is left
    import itertools
    assignments = [a for a in itertools.product(*accepts) if len(set(a)) == len(a)] if all(accepts) else []
    if not assignments:
        return None
    texts = {real.tok_text(t) for t in tokens}
    if len(assignments) > 1 and len(texts) == len(tokens):
        # several assignments of distinct tokens: only acceptable when they are all ambiguous in the same way
        if not all(set(a) == set(assignments[0]) for a in assignments):
            return None
    given = dict(zip(assignments[0], tokens))
    longhands = '; '.join(f'{n}: {real.tok_text(given[n]) if n in given else "initial"}' for n in names)
    sel = 'ul' if key == 'list-style' else '.a'
    pre = 'column-gap:0;' if key in ('columns', 'column-rule') else ''
    pre += 'columns:2;' if key == 'column-rule' else ''
    pre += 'display:flex;' if key == 'flex-flow' else ''
    a, exc = render_fp(f'{PARENTS_CSS}{sel}{{{pre}{key}: {css}}}')
    b, _ = render_fp(f'{PARENTS_CSS}{sel}{{{pre}{longhands}}}')
    if a != b and not known_crash(exc):
        return f'`{key}: {css}` does not render like its longhands `{longhands}` ({a} vs {b})'
    return None


def reference_flex(tokens):
    """css-flexbox-1 §7.1: none | [ <flex-grow> <flex-shrink>? || <flex-basis> ]; a unitless zero not preceded by two
    flex factors is a flex factor; omitted grow/shrink are 1, omitted basis is 0.  -> dict of canonical values | None"""
    _, utils, _, _, properties = real.mods()
    if utils.get_single_keyword(tokens) == 'none':
        return {'flex-grow': real.canon(0), 'flex-shrink': real.canon(0), 'flex-basis': real.canon('auto')}
    factors, basis = [], None
    for i, t in enumerate(tokens):
        is_number = t.type == 'number'
        if is_number and (len(factors) < 2):
            # (the engine also takes `1 10px 2`, with the basis between the factors: accepted with that meaning)
            if properties.flex_grow_shrink([t]) is None:
                return None
            factors.append((i, t))
        elif basis is None and properties.flex_basis([t]) is not None:
            basis = (i, t)
        else:
            return None
    grow = properties.flex_grow_shrink([factors[0][1]]) if factors else 1
    shrink = properties.flex_grow_shrink([factors[1][1]]) if len(factors) > 1 else 1
    from weasyprint.css.properties import Dimension
    return {'flex-grow': real.canon(grow), 'flex-shrink': real.canon(shrink),
            'flex-basis': real.canon(properties.flex_basis([basis[1]]) if basis else Dimension(0, 'px'))}


def reference_font(tokens):
    """css-fonts-3 §3.7: [ [ style || variant-caps || weight || stretch ]? size [ / line-height ]? family ];
    `normal` may stand for any of the four.  -> dict of canonical values ('kw:initial' for omitted) | None"""
    _, utils, _, _, properties = real.mods()
    optional = [('font-style', properties.font_style), ('font-variant-caps', properties.font_variant_caps),
                ('font-weight', properties.font_weight), ('font-stretch', properties.font_stretch)]
    out, i, used = {}, 0, 0
    while i < len(tokens) and used < 4:
        t = tokens[i]
        if utils.get_keyword(t) == 'normal':
            i += 1
            used += 1
            continue
        for name, fn in optional:
            value = fn([t])
            if value is not None:
                if name in out:
                    return None
                out[name] = real.canon(value)
                break
        else:
            break
        i += 1
        used += 1
    if i >= len(tokens) or properties.font_size([tokens[i]]) is None:
        return None
    out['font-size'] = real.canon(properties.font_size([tokens[i]]))
    i += 1
    if i < len(tokens) and tokens[i].type == 'literal' and tokens[i].value == '/':
        if i + 1 >= len(tokens) or properties.line_height([tokens[i + 1]]) is None:
            return None
        out['line-height'] = real.canon(properties.line_height([tokens[i + 1]]))
        i += 2
    family = properties.font_family(tokens[i:]) if i < len(tokens) else None
    if family is None:
        return None
    out['font-family'] = real.canon(family)
    for name in ('font-style', 'font-variant-caps', 'font-weight', 'font-stretch', 'line-height'):
        out.setdefault(name, 'kw:initial')
    return out


def reference_grid_lines(key, tokens):
    """css-grid-1 §8.4: omitted lines default to the line they pair with when that is a custom identifier, else
    auto.  -> dict | None"""
    _, _, _, _, properties = real.mods()
    parts = split_slash_ids(tokens)
    names = {'grid-row': ['grid-row-start', 'grid-row-end'], 'grid-column': ['grid-column-start', 'grid-column-end'],
             'grid-area': ['grid-row-start', 'grid-column-start', 'grid-row-end', 'grid-column-end']}[key]
    if not 1 <= len(parts) <= len(names):
        return None
    values = []
    for part in parts:
        v = properties.grid_line(part)
        if not v:
            return None
        values.append(v)

    def dflt(v):
        return v if (isinstance(v, tuple) and v[0] is None and v[1] is None) else 'auto'
    if key == 'grid-area':
        rs = values[0]
        cs = values[1] if len(values) > 1 else dflt(rs)
        re_ = values[2] if len(values) > 2 else dflt(rs)
        ce = values[3] if len(values) > 3 else dflt(cs)
        full = [rs, cs, re_, ce]
    else:
        full = [values[0], values[1] if len(values) > 1 else dflt(values[0])]
    return {n: real.canon(v) for n, v in zip(names, full)}


REFERENCES = {'flex': reference_flex, 'font': reference_font, 'grid-row': reference_grid_lines,
              'grid-column': reference_grid_lines, 'grid-area': reference_grid_lines}


def judge_reference(key, tokens, css):
    """The registered expander against an independent statement of the CSS grammar of the shorthand."""
    if key not in REFERENCES or real.head_of(tokens) != 'plain':
        return None
    if len(tokens) > 1 and any(t.type == 'ident' and t.lower_value in ('inherit', 'initial') for t in tokens):
        return None      # known finding css-wide-keyword-as-ident (`grid-area: inherit / a`)
    try:
        want = REFERENCES[key](tokens) if key in ('flex', 'font') else REFERENCES[key](key, tokens)
    except Exception:  # noqa: BLE001 - a helper validator crashed: not this oracle's business
        return None
    got = expansion_dict(key, tokens)
    if isinstance(got, str) and got.startswith('err'):
        return None
    if want is None and isinstance(got, dict):
        return f'`{key}: {css}` is accepted as {got} although it is not in the grammar of {key}'
    if want is not None and got != want:
        return f'`{key}: {css}` expands to {got}, the grammar of {key} gives {want}'
    return None



def fill4(values):
    """CSS 1-to-4 rule (top/right/bottom/left or top-left/top-right/bottom-right/bottom-left)."""
    k = len(values)
    return [values[0], values[1 % k] if k > 1 else values[0], values[2] if k > 2 else values[0],
            values[3] if k > 3 else (values[1] if k > 1 else values[0])]


def judge_border_radius(tokens, result, css):
    """css-backgrounds: horizontal radii before '/', vertical after (default: the same), each filled 1-to-4."""
    _, utils, _, _, _ = real.mods()
    slash = [i for i, t in enumerate(tokens) if t.type == 'literal' and t.value == '/']
    if len(slash) > 1:
        return f'border-radius: {css} accepted with two "/"'
    h = list(tokens[:slash[0]]) if slash else list(tokens)
    v = list(tokens[slash[0] + 1:]) if slash else list(h)
    if not 1 <= len(h) <= 4 or not 1 <= len(v) <= 4:
        return f'border-radius: {css} accepted with {len(h)} / {len(v)} radii'
    want = [(utils.get_length(a, negative=False, percentage=True), utils.get_length(b, negative=False, percentage=True))
            for a, b in zip(fill4(h), fill4(v))]
    got = [value for _, value in result]
    if [real.canon(w) for w in want] != [real.canon(g) for g in got]:
        return (f'border-radius: {css} gives corners (tl, tr, br, bl) = {[real.canon(g) for g in got]}, '
                f'CSS says {[real.canon(w) for w in want]}')
    return None


def judge_list_style(tokens, result, css):
    """CSS 2.1 12.5.1: a `none` sets whichever of type / image is not otherwise specified."""
    _, utils, _, _, properties = real.mods()
    nones = [t for t in tokens if utils.get_keyword(t) == 'none']
    types = [t for t in tokens if utils.get_keyword(t) != 'none' and properties.list_style_image([t], BASE_URL) is None
             and properties.list_style_position([t]) is None and properties.list_style_type([t]) is not None]
    images = [t for t in tokens if utils.get_keyword(t) != 'none'
              and properties.list_style_image([t], BASE_URL) is not None]
    room = (0 if types else 1) + (0 if images else 1)
    if len(nones) > room:
        return f'list-style: {css} accepted with {len(nones)} none for {room} free longhand(s)'
    got = dict(result)
    want_type = real.canon(properties.list_style_type([types[0]])) if types else (
        real.canon(nones[-1].value) if nones else 'kw:initial')      # the ident as written (`NONE` stays `NONE`)
    want_image = real.canon(properties.list_style_image([images[0]], BASE_URL)) if images else (
        real.canon(('none', None)) if len(nones) >= (2 if not types else 1) else 'kw:initial')
    if real.canon(got.get('list-style-type')) != want_type or real.canon(got.get('list-style-image')) != want_image:
        return (f'list-style: {css} gives type={real.canon(got.get("list-style-type"))} image='
                f'{real.canon(got.get("list-style-image"))}, CSS says type={want_type} image={want_image}')
    return None


SYNTHESISING = {'flex', 'columns', 'text-align', 'line-clamp', 'grid', 'grid-template', 'grid-area', 'grid-row',
                'grid-column', 'page-break-before', 'page-break-after', 'font', 'font-variant', 'border-radius',
                'border-image', 'mask-border', 'gap', 'grid-gap', 'background'}


def judge_css_wide(name):
    """`inherit` and `initial` are valid values of every supported property and shorthand."""
    import tinycss2
    _, _, validation, _, _ = real.mods()
    for keyword, written in (('inherit', name), ('initial', name), ('inherit', name.upper())):
        decls = tinycss2.parse_blocks_contents(f'{written}: {keyword}')
        try:
            out = list(validation.preprocess_declarations(BASE_URL, decls))
        except Exception as exc:  # noqa: BLE001
            return f'`{written}: {keyword}` raised {type(exc).__name__}'
        if not out or any(value != keyword and not real.canon(value) == f'kw:{keyword}' for _, value, _ in out):
            return f'`{written}: {keyword}` is not accepted as the CSS-wide keyword (funnel output {out!r:.200})'
    return None


def judge_units():
    from weasyprint.css.utils import LENGTHS_TO_PIXELS as table
    want = {'px': 1, 'in': 96, 'pt': 96 / 72, 'pc': 16, 'cm': 96 / 2.54, 'mm': 96 / 25.4, 'q': 96 / 101.6}
    for unit, value in want.items():
        if unit not in table or not math.isclose(table[unit], value, rel_tol=1e-12):
            return f'1{unit} is {table.get(unit)} px, CSS says {value} px (1in = 96px = 72pt = 6pc = 2.54cm = 25.4mm = 101.6q)'
    return None


WELL_FORMED_VAR = r'var\(\s*--([A-Za-z0-9_-]+)\s*(?:,([^()]*))?\)'


def flat_text(tokens):
    """Serialisation of a token list with every whitespace / comment dropped, at all depths."""
    out = []
    for t in tokens:
        if t.type in ('whitespace', 'comment'):
            continue
        if t.type == 'function':
            out.append(f'{t.lower_name}({flat_text(t.arguments)})')
        elif t.type in ('() block', '[] block', '{} block'):
            out.append(t.type[0] + flat_text(t.content) + t.type[1])
        else:
            out.append(real.tok_text(t) + ' ')
    return ''.join(out)


def judge_var(env_texts, token_text):
    """resolve_var never raises (cyclic custom properties included); and against an independent textual
    substitution (string level, then re-tokenised): only tokens whose var() are all well formed, with comma-free
    fallbacks (known finding), over acyclic properties, are compared."""
    import re
    from weasyprint.css import resolve_var
    style, _ = real_style(env_texts)
    out = []
    for tok in tokens_of(token_text):
        try:
            resolved = resolve_var(style, tok, None)
        except Exception as exc:  # noqa: BLE001 - RecursionError included: cycles are guarded since 2bffab3
            return (f'resolve_var raised {type(exc).__name__} on `{token_text}` with custom properties {env_texts}: '
                    f'a stylesheet aborts rendering')
        out.extend([tok] if resolved is None else resolved)
    texts = [token_text] + [v for v in env_texts.values()]
    for text in texts:
        if re.search(r',\s*\)|,\s*,|\(\s*,|^\s*,|,\s*$', text):
            return None      # empty arguments: parse_function gives up on the enclosing function (documented)
        stripped = re.sub(WELL_FORMED_VAR, '', text, flags=re.I)
        while re.search(WELL_FORMED_VAR, stripped, flags=re.I):
            stripped = re.sub(WELL_FORMED_VAR, '', stripped, flags=re.I)
        if 'var' in stripped.lower():
            return None      # a malformed var(): no reference semantics
        for m in re.finditer(WELL_FORMED_VAR, text, flags=re.I):
            if m.group(2) and ',' in m.group(2):
                return None  # known finding var-fallback-commas-dropped
    env_tokens = {k: tokens_of(v) for k, v in env_texts.items()}
    want = reference_substitution(tokens_of(token_text), env_tokens, 0)
    if want is None:
        return None          # cyclic custom properties: textual substitution has no meaning
    if flat_text(out) != want:
        return (f'`{token_text}` with {env_texts} resolves to `{flat_text(out)}`, textual substitution gives '
                f'`{want}`')
    return None


def reference_substitution(tokens, env, depth):
    """Independent reference on the token tree: var(--x[, fallback]) -> value of --x, else the fallback; flat text.
    None when the input is outside the reference's domain (malformed var(), var() inside a block, depth)."""
    if depth > 40:
        return None
    out = []
    for t in tokens:
        if t.type in ('whitespace', 'comment'):
            continue
        if t.type == 'function' and t.lower_name == 'var':
            args = [a for a in t.arguments if a.type not in ('whitespace', 'comment')]
            if not args or args[0].type != 'ident' or not args[0].value.startswith('--'):
                return None
            if len(args) > 1 and not (args[1].type == 'literal' and args[1].value == ','):
                return None
            if any(a.type == 'literal' and a.value == ',' for a in args[2:]):
                return None      # known finding var-fallback-commas-dropped
            value = env.get(args[0].value[2:]) or args[2:]
            sub = reference_substitution(value, env, depth + 1)
            if sub is None:
                return None
            out.append(sub)
        elif t.type == 'function':
            sub = reference_substitution(t.arguments, env, depth + 1)
            if sub is None:
                return None
            out.append(f'{t.lower_name}({sub})')
        elif t.type in ('() block', '[] block', '{} block'):
            if 'var(' in real.tok_text(t).lower():
                return None
            out.append(t.type[0] + flat_text(t.content) + t.type[1])
        else:
            out.append(real.tok_text(t) + ' ')
    return ''.join(out)


class C07(PropCheck):
    id = 'C07'
    extractors = (c07_tables.generate, c07_numeric.generate)
    modules = ('WpModel.Props.C07', 'WpModel.Props.C07Tracks', 'WpModel.Props.C07Gradient',
               'WpModel.Props.C07GridLine', 'WpModel.Props.C07FontFamily', 'WpModel.Props.C07Expanders', 'WpModel.Props.C07Var', 'WpModel.Props.C07Sheet',
               'WpModel.Props.C07Keywords', 'WpModel.Props.C07Descriptors', 'WpModel.Props.C07Numeric',
               'WpModel.Witness.C07')
    trusted_base = (
        'modelled, not verified: preprocess_declarations (loop skeleton), preprocess_descriptors, generic_expander, '
        'expand_four_sides, border_radius, expand_border(_side), expand_list_style and the generators of all other '
        'registered expanders, validate_non_shorthand (skeleton), PendingExpander.validate, Pending.solve (state '
        'machine), the value selection of ComputedStyle.__missing__, parse_function / check_var_function / resolve_var '
        '(with its seen tuple), computed_values.length, get_length, get_resolution, the numeric single-token validators '
        '(clause tables regenerated by AST)',
        'the other per-property validators (~1900 lines) are NOT modelled: the model takes their answers per token '
        'from the real functions; that they return or raise InvalidValues is checked at run time only (funnel section)',
        'tinycss2 (tokeniser, color4.parse_color, serialisation) is assumed',
        'py/extract/c07_numeric.py (AST subset of the numeric validators; a function outside the subset is listed as not '
        'mirrored, never guessed)',
    )
    assumptions = (
        'a validator either returns or raises InvalidValues (violated by the listed known findings)',
        'Python recursion depth is modelled by fuel: the model answers RecursionError exactly when its fuel runs out '
        '(never on the generated inputs since the cycle guard of 2bffab3)',
        'an element has finitely many custom properties (hypothesis of resolve_var_terminates)',
    )

    EXPECTED_TAGS = {
        'regressions': ['fixed'],
        'registry': ['skip', 'kept', 'rewritten'],
        'funnel': ['all-dropped', 'some-kept'],
        'funnel-neighbours': ['singletons', 'prelude'],
        'generic-expander': ['head:plain', 'head:var', 'head:initial', 'head:inherit', 'ok', 'invalid'],
        'four-sides': ['n0', 'n1', 'n2', 'n3', 'n4', 'n5', 'n6', 'names', 'ok', 'invalid'],
        'border-radius': ['slash', 'no-slash', 'ok', 'invalid'],
        'border-side': ['n1', 'n2', 'n3', 'n4', 'ok', 'invalid'],
        'list-style': ['none0', 'none1', 'none2', 'none3', 'ok', 'invalid'],
        'small-expanders': [f'{k}:{o}' for k in ('text-decoration', 'columns', 'flex-flow', 'gap', 'grid-gap', 'word-wrap',
                                                 'grid-column-gap', 'grid-row-gap', 'page-break-inside',
                                                 'page-break-before', 'page-break-after', 'text-align')
                            for o in ('ok', 'invalid')],
        'more-expanders': [f'{k}:{o}' for k in ('line-clamp', 'flex', 'font', 'grid-row', 'grid-column', 'grid-area',
                                                'grid-template', 'grid') for o in ('ok', 'invalid')] +
                          ['place-content:invalid', 'place-items:invalid', 'place-self:invalid'],
        'border-image': ['border-image:ok', 'border-image:invalid', 'mask-border:ok', 'mask-border:invalid'],
        'background': ['ok', 'invalid', 'layers1', 'layers2', 'layers3'],
        'pending-expander': ['ok', 'invalid', 'all-refused'],
        'validate-non-shorthand': ['ok', 'invalid', 'err:KeyError'],
        'get-length': ['number', 'dimension', 'percentage', 'accepted', 'rejected'],
        'length-pipeline': ['rejected', 'dim'],
        'computed-pending': list(PENDING_CASES) + ['inherited', 'not-inherited', 'specified', 'parent', 'initial'],
        'length-flags': ['neg:True', 'neg:False', 'pct:True', 'pct:False', 'list:ok', 'list:invalid', 'list-n0', 'list-n1',
                         'list-n2', 'list-n3'],
        'track-size': ['auto', 'template', 'repeat-non-px'],
        'font-family': ['ok', 'invalid', 'parts1', 'parts2', 'parts3', 'parts4'],
        'grid-line': ['auto', 'line', 'invalid', 'span', 'n0', 'n1', 'n2', 'n3', 'n4'],
        'image-computer': ['linear', 'radial', 'other', 'background-image', 'border-image-source', 'mask-border-source'],
        'computed-units': ['nested', 'flat'] + [f'unit:{u}' for u, _ in UNIT_SPELLINGS_EXACT],
        'pending-solve': ['valid-after-invalid', 'shorthand', 'longhand', 'warned', 'look-alike'],
        'sheet-funnel': ['probe-imported', 'probe-ignored', 'rule:no-content', 'rule:font-face', 'rule:other-at',
                         'rule:counter-style-ok', 'rule:counter-style-bad-name', 'rule:style-bad-selector',
                         'rule:style-no-declaration', 'rule:style-unknown-pseudo', 'rule:style-ok',
                         'rule:import-unusable', 'rule:import-fetch-failed', 'rule:import-ok', 'rule:media-invalid',
                         'rule:media-match', 'rule:media-no-match', 'rule:page-bad-selector', 'rule:page-ok',
                         'rule:page-margin-rule'],
        'keyword-validators': ['single', 'comma-list', 'ok', 'invalid'],
        'numeric-validators': ['int', 'kw', 'num', 'dim', 'invalid', 'tokens1', 'tokens2', 'resolution', 'opacity',
                               'image-resolution:ok', 'image-resolution:invalid'],
        'descriptor-funnel': ['font-face', 'counter-style', 'kept', 'all-dropped', 'font-variant:ok',
                              'font-variant:invalid'],
        'var': ['acyclic-env', 'cyclic-env', 'check-var', 'parse-function', 'none', 'ok', 'cyclic-resolved'],
        'documents': ['invalid-vanish', 'units', 'var', 'var-invalid', 'unit-spelling:kept', 'unit-spelling:dropped',
                      'var-shared', 'var-shared:valid-after-invalid', 'var-shared:look-alike'],
    }

    def correspondence(self, run):
        docs.quiet()
        sec_regressions(run)
        sec_units(run)
        sec_registry(run)
        sec_funnel(run)
        sec_generic(run)
        sec_four_sides(run)
        sec_border_radius(run)
        sec_border_side(run)
        sec_list_style(run)
        sec_small_expanders(run)
        sec_more_expanders(run)
        sec_border_image(run)
        sec_background(run)
        sec_pending_expander(run)
        sec_vns(run)
        sec_lengths(run)
        sec_pending(run)
        sec_computed_units(run)
        sec_tracks(run)
        sec_gradients(run)
        sec_grid_line(run)
        sec_font_family(run)
        sec_pending_solve(run)
        sec_sheet(run)
        sec_keywords(run)
        sec_numeric(run)
        sec_length_flags(run)
        sec_descriptors(run)
        sec_var(run)
        sec_docs(run)
        never = {}
        for sec in run.sections:
            missing = [t for t in self.EXPECTED_TAGS.get(sec.name, []) if not sec.tags.get(t)]
            if missing:
                never[sec.name] = missing
        run.extra['branches_never_hit'] = never
        run.extra['branch_tags_expected'] = sum(len(v) for v in self.EXPECTED_TAGS.values())
        _, _, _, expanders, _ = real.mods()
        run.extra['expander_coverage'] = {
            'registered_keys': len(expanders.EXPANDERS),
            'functions': sorted({f.__name__ for f in expanders.EXPANDERS.values()}),
            'generator_modelled': 'all (Props/C07Expanders.lean all_expanders_modelled, decided on the generated registry)',
        }

    def judge(self, d):
        section, meta = d['section'], d.get('meta') or {}
        if section == 'regressions':
            return judge_regression(meta)
        if section in ('funnel', 'funnel-neighbours'):
            return judge_funnel_text(meta['css'])
        if section in ('generic-expander', 'four-sides', 'border-side', 'small-expanders'):
            return judge_expander(meta['key'], meta['css']) if 'key' in meta else None
        if section == 'border-radius':
            return judge_expander('border-radius', meta['css'])
        if section == 'list-style':
            return judge_expander('list-style', meta['css'])
        if section == 'units':
            return judge_units()
        if section == 'numeric-validators':
            return judge_numeric(meta['name'], meta['css'])
        if section == 'length-flags':
            return judge_length_flags(meta)
        if section == 'descriptor-funnel' and 'rule' in meta:
            return judge_descriptors(meta)
        if section == 'sheet-funnel':
            return judge_sheet(meta)
        if section == 'length-pipeline':
            return judge_length_declaration(meta['name'], meta['css'])
        if section == 'get-length':
            return judge_length_declaration('width', meta['token'])
        if section == 'computed-pending':
            return judge_pending(meta)
        if section == 'pending-solve':
            return judge_pending_solve(meta)
        if section == 'computed-units':
            return judge_computed_units(meta)
        if section == 'grid-line':
            return judge_grid_line(meta)
        if section == 'font-family':
            return judge_font_family(meta)
        if section in ('track-size', 'image-computer'):
            return judge_tracks(meta)
        if section == 'validate-non-shorthand':
            _, _, _, expanders, properties = real.mods()
            name = meta.get('name')
            if name in properties.PROPERTIES or name in expanders.EXPANDERS:
                return judge_css_wide(name)
            return None
        if section == 'var':
            return judge_var(meta['env'], meta['token']) if 'env' in meta else None
        if section == 'documents':
            return judge_document(meta)
        return None

    def search(self, run, failures):
        return search(run, failures)

    def finding_replays(self):
        return FINDING_REPLAYS

    def replay(self, data):
        inp = data.get('input', {})
        meta = inp.get('meta') if isinstance(inp.get('meta'), dict) else inp
        if 'section' in inp:
            return self.judge(inp)
        if 'kind' in meta:
            return judge_document(meta)
        if 'css' in meta and 'key' in meta:
            return judge_expander(meta['key'], meta['css']) or judge_shorthand_longhands(meta['key'], meta['css'])
        if 'css' in meta:
            return judge_funnel_text(meta['css'])
        return None


def judge_document(meta):
    kind = meta.get('kind')
    if kind == 'invalid-vanish':
        a, exc_a = render_fp(meta['clean'])
        b, exc_b = render_fp(meta['dirty'])
        if known_crash(exc_a) or known_crash(exc_b):
            return None
        if a != b:
            return (f'a stylesheet with dropped declarations renders differently: `{meta["dirty"]}` vs `{meta["clean"]}` '
                    f'({b} vs {a})')
    elif kind == 'units':
        css = lambda v: f'.p{{border-left-style:solid;{meta["prop"]}:{v}}}'   # noqa: E731
        a, _ = render_fp(css(meta['a']))
        b, _ = render_fp(css(meta['b']))
        if a != b:
            return f'{meta["prop"]}: {meta["a"]} and {meta["b"]} are the same length but render differently'
    elif kind == 'unit-spelling':
        return judge_length_declaration(meta['prop'], meta['value']) or judge_unit_spelling(meta)
    elif kind == 'var-invalid':
        parent = f'.a, ul, section{{{meta["prop"]}: {meta["valid"]}}}'
        a, _ = render_fp(f'{parent}{meta["sel"]}{{{meta["prop"]}: {meta["invalid"]}}}')
        b, exc = render_fp(f'{parent}body{{--v: {meta["invalid"]}}}{meta["sel"]}{{{meta["prop"]}: var(--v)}}')
        if a != b and not known_crash(exc):
            return (f'`{meta["sel"]}{{{meta["prop"]}: var(--v)}}` with `--v: {meta["invalid"]}` (parents have '
                    f'{meta["prop"]}: {meta["valid"]}) renders differently from the textual substitution '
                    f'`{meta["prop"]}: {meta["invalid"]}`, which is dropped')
    elif kind == 'var-shared':
        a, _ = render_fp(meta['literal'], SHARED_BODY)
        b, exc = render_fp(meta['var'], SHARED_BODY)
        if a != b and not known_crash(exc):
            return (f'`.t{{{meta["prop"]}: var(--v)}}` over four elements with --v = {meta["values"]} renders differently '
                    f'from the literal declarations `#id{{{meta["prop"]}: <its own value>}}` ({b} vs {a}): var() is not '
                    f'the textual substitution of each element\'s own value')
    elif kind == 'shorthand':
        sel, pre = meta.get('sel', '.p'), meta.get('pre', '')
        a, _ = render_fp(f'{PARENTS_CSS}{sel}{{{pre}{meta["key"]}: {meta["css"]}}}')
        b, _ = render_fp(f'{PARENTS_CSS}{sel}{{{pre}{meta["longhands"]}}}')
        if a != b and independent_longhands_differ(meta):
            return f'{meta["key"]}: {meta["css"]} renders differently from its longhands {meta["longhands"]}'
    elif kind == 'var':
        env_css = ''.join(f'--{k}: {v};' for k, v in meta['env'].items())
        a, exc = render_fp(f'{meta["sel"]}{{{env_css}{meta["prop"]}: {meta["value"]}}}')
        if known_crash(exc):
            return None
        text = textual_substitution(meta['env'], meta['value'])
        if text is None:
            return None
        b, _ = render_fp(f'{meta["sel"]}{{{env_css}{meta["prop"]}: {text}}}')
        if a != b:
            return (f'{meta["prop"]}: {meta["value"]} with {meta["env"]} renders differently from its textual '
                    f'substitution `{text}`')
    return None


def judge_unit_spelling(meta):
    import re
    m = re.match(r'([-0-9.e+]+)([A-Za-z]+)$', meta['value'])
    if not m:
        return None
    from weasyprint.css.utils import LENGTHS_TO_PIXELS
    unit = m.group(2).lower()
    if unit not in LENGTHS_TO_PIXELS:
        return None
    px = float(m.group(1)) * LENGTHS_TO_PIXELS[unit]
    sel, pre, prop = meta.get('sel', '.p'), meta.get('pre', ''), meta['prop']
    a, _ = render_fp(f'{sel}{{{pre}{prop}:{meta["value"]}}}')
    dropped, _ = render_fp(f'{sel}{{{pre}}}')
    same, _ = render_fp(f'{sel}{{{pre}{prop}:{px:.10g}px}}')
    if a not in (dropped, same):
        return (f'`{prop}: {meta["value"]}` renders neither as if absent nor like `{prop}: {px:.10g}px` '
                f'({a} vs {dropped} / {same})')
    return None


def independent_longhands_differ(meta):
    """The CSS 1-to-4 mapping computed here (not by the model) also disagrees with the rendering."""
    key, parts = meta['key'], meta['css'].split()
    if key in ('margin', 'padding', 'border-width', 'border-style', 'border-color') and 1 <= len(parts) <= 4:
        k = len(parts)
        sides = [parts[0], parts[1 % k] if k > 1 else parts[0], parts[2] if k > 2 else parts[0],
                 parts[3] if k > 3 else (parts[1] if k > 1 else parts[0])]
        base, _, tail = key.partition('-')
        names = [f'{base}-{s}{"-" + tail if tail else ""}' for s in ('top', 'right', 'bottom', 'left')]
        longhands = '; '.join(f'{n}: {v}' for n, v in zip(names, sides))
        a, _ = render_fp(f'.p{{border-style:solid;{key}: {meta["css"]}}}')
        b, _ = render_fp(f'.p{{border-style:solid;{longhands}}}')
        return a != b
    return True


def textual_substitution(env, value, depth=0):
    """var(--x[, fallback]) replaced at string level (regex on the innermost var() first)."""
    import re
    if depth > 20:
        return None
    pattern = re.compile(WELL_FORMED_VAR, flags=re.I)
    m = pattern.search(value)
    if not m:
        return value
    name, fallback = m.group(1), m.group(2)
    replacement = env.get(name)
    if replacement is None:
        replacement = (fallback or '').strip()
    return textual_substitution(env, value[:m.start()] + replacement + value[m.end():], depth + 1)


def search(run, failures):
    """Wider search on the real implementation: crashes of the funnel on every registered name, neighbour
    dependence, expander clauses, then rendered metamorphic pairs."""
    docs.quiet()
    found = []
    rng = run.rng
    props, shorthands = G.all_names()

    def add(what, inp, sig):
        if what and all(f['signature'] != sig for f in found):
            found.append({'what': what, 'input': inp, 'signature': sig})
        return len(found) >= 3
    # inputs of the failures first
    for f in failures:
        meta = f['detail'].get('meta') if isinstance(f.get('detail'), dict) else None
        if isinstance(meta, dict) and 'css' in meta:
            run.search_stats['evaluations'] += 1
            what = judge_expander(meta['key'], meta['css']) if 'key' in meta else judge_funnel_text(meta['css'])
            if add(what, meta, meta['css']):
                return found
    what = judge_units()
    if add(what, {'units': True}, 'units'):
        return found
    # numeric ranges against the CSS grammar (a broken range theorem of Props/C07Numeric has its input here)
    for name in sorted(CSS_LENGTH_SPEC):
        run.search_stats['evaluations'] += 1
        extra = ['2px 50%', '10% 2px', '0% 0'] if name == 'border-spacing' else []
        if add(judge_length_flags({'name': name, 'texts': LENGTH_PROBES + extra}),
               {'section': 'length-flags', 'meta': {'name': name, 'texts': LENGTH_PROBES + extra}}, f'length:{name}'):
            return found
    for text in ['0dppx', '-1dppx', '0dpi', '-96dpi', '1dppx', '96dpi', '118dpcm', '2dppx']:
        run.search_stats['evaluations'] += 1
        if add(judge_image_resolution(text), {'section': 'numeric-validators',
                                              'meta': {'name': 'image-resolution', 'css': text}}, 'image-resolution'):
            return found
    for name in CSS_NUMERIC_SPEC:
        for text in NUMERIC_TEXTS:
            run.search_stats['evaluations'] += 1
            if add(judge_numeric(name, text), {'section': 'numeric-validators', 'meta': {'name': name, 'css': text}},
                   f'numeric:{name}'):
                return found
    for key in ORDER_FREE:
        longhand_names = [n for n, _ in real.outcome_list(
            lambda: real.mods()[3].EXPANDERS[key](tuple(tokens_of('inherit')), key, BASE_URL))[1]]
        pool = sorted({a for n in longhand_names for a in G.accepted_singles(n)
                       if '(' not in a and a not in ('inherit', 'initial')})
        if not pool:
            continue
        for _ in range(run.n(60, 400)):
            atoms = [rng.choice(pool) for _ in range(rng.choice([2, 2, 3]))]
            css = ' '.join(atoms)
            run.search_stats['evaluations'] += 1
            if add(judge_permutations(key, tokens_of(css), css), {'key': key, 'css': css}, f'perm:{key}'):
                return found
        for _ in range(run.n(4, 30)):
            atoms = [rng.choice(pool) for _ in range(rng.choice([1, 2]))]
            css = ' '.join(atoms)
            if not isinstance(expansion_dict(key, tokens_of(css)), dict):
                continue
            run.search_stats['evaluations'] += 1
            if add(judge_shorthand_longhands(key, css), {'key': key, 'css': css, 'doc': True}, f'longhands:{key}'):
                return found
    for name in props + shorthands:
        run.search_stats['evaluations'] += 1
        if add(judge_css_wide(name), {'section': 'validate-non-shorthand', 'meta': {'name': name}}, 'css-wide'):
            return found
    for name in props + shorthands:
        for _ in range(run.n(40, 400)):
            text = G.value_text(rng, name, rng.choice(['own', 'own', 'other', 'soup', 'adversarial']))
            css = f'{name}: {text}'
            run.search_stats['evaluations'] += 1
            what = judge_funnel_text(css) or (judge_expander(name, text) if name in shorthands else None)
            if what:
                exc_sig = what.split(' on `')[0]
                if add(what, {'css': css, **({'key': name, 'css': text} if 'yields' in what or 'maps' in what else {})},
                       exc_sig):
                    return found
    for _ in range(run.n(150, 1500)):
        env_texts = build_env(rng, False)
        text = var_value_text(rng, 2, VAR_NAMES + ['undefined'], True)
        run.search_stats['evaluations'] += 1
        if add(judge_var(env_texts, text), {'section': 'var', 'meta': {'env': env_texts, 'token': text}}, 'var'):
            return found
    for _ in range(run.n(40, 400)):
        case = var_doc_case(rng)
        meta = {'kind': 'var', **{k: case[k] for k in ('env', 'prop', 'value', 'sel')}}
        run.search_stats['evaluations'] += 1
        if add(judge_document(meta), meta, 'var-doc'):
            return found
    for _ in range(run.n(60, 600)):
        rules = ['%s{%s: %s; %s}' % (rng.choice(SELECTORS), *valid_declaration(rng), invalid_declaration(rng))
                 for _ in range(2)]
        clean = ''.join(r.rsplit(';', 1)[0] + '}' for r in rules)
        meta = {'kind': 'invalid-vanish', 'clean': clean, 'dirty': ''.join(rules)}
        run.search_stats['evaluations'] += 1
        if add(judge_document(meta), meta, meta['dirty']):
            return found
    return found


PROP = C07()

MANIFEST = {
    'design_ref': 'DESIGN.md §4 C07',
    'technique': 'Lean 4 theorems over hand-written models of the declaration funnel, the descriptor funnel, the '
                 'rule-level funnel of preprocess_stylesheet, generic_expander and the generator of every one of the 42 '
                 'registered shorthand expanders, validate_non_shorthand, PendingExpander.validate, the Pending.solve '
                 'state machine, the value selection of ComputedStyle.__missing__, get_length / length with the unit '
                 'table (exact rationals regenerated from css/utils.py), get_resolution, the keyword-only validators '
                 '(table regenerated by AST), the numeric single-token validators (clause tables with every bound '
                 'regenerated by AST), the one-or-two-lengths validators, the grid track-list computers with their '
                 'recursion into repeat(), and var() resolution with its cycle guard; registries (EXPANDERS, generic_expander '
                 'names, PROPERTIES, DESCRIPTORS, INHERITED, NOT_PRINT_MEDIA, prefixes) regenerated from the source and '
                 'the runtime each run; executable correspondence with the real functions on every registered property, '
                 'shorthand and descriptor, on real Pending objects solved repeatedly, plus rendered metamorphic '
                 'document pairs (an invalid declaration of every registered name injected; one var() rule shared by '
                 'several elements); the inputs of all repaired findings replayed first',
    'text': 'Proved for all inputs on the models: dropped declarations / descriptors / rules do not change the output '
            'of their funnel, outputs concatenate (neighbour independence), the funnels only propagate '
            'non-InvalidValues exceptions of validators, a descriptor without value never reaches its validator; the '
            '1/2/3/4-value side and corner mappings; a generic shorthand yields exactly its declared longhands once each '
            'in order, omitted ones reset to initial, a duplicate is invalid, inherit/initial/var() fan out; every '
            'registered expander is modelled and every longhand it can name is registered (decide on generated tables); '
            'order independence of border-side components, of the two columns / flex-flow components, of the optional '
            'font prefix, of the flex basis; border = four border-sides; list-style none disambiguation; flex (any '
            'spelling of the unitless zero is a factor), line-clamp, grid-row/column/area, grid-template '
            'characterisations; the keywords expanders synthesise are valid for their target longhand; the integers '
            'accepted by orphans, widows, column-count, max-lines, bookmark-level are exactly those >= 1 (the hypothesis '
            'of the pagination theorems), tab-size >= 0, z-index / order any, font-weight the nine hundreds, and an '
            'accepted number or keyword is the one written; 1in = 96px = 72pt = 6pc = 2.54cm = 25.4mm = 101.6q for '
            'every rational length, equal absolute lengths compute equal, an accepted length always computes to px; a '
            'var() value invalid after substitution behaves as an absent declaration, a valid / initial / inherit one as '
            'the literal declaration on every element, the root included; what one element gets out of a shared Pending '
            'object is independent of the other elements (solve_seq_independent), one warning per declaration; '
            'resolve_var terminates on every finite set of custom properties, cyclic or not (cycle guard), a property '
            'met again yields its fallback; on acyclic properties it returns the textual substitution for well-formed '
            'var() with comma-free fallbacks (var_subst_total); a shorthand with var() gives each longhand exactly what '
            'the expansion of the substituted shorthand, consumed as a whole, gives it (all or nothing); border-spacing '
            'takes one or two non-negative lengths and no percentage, the corner radii take percentages (flags '
            'regenerated by AST); flex-grow / flex-shrink >= 0; a kept image-resolution is positive, so the intrinsic '
            'size of a raster image is always defined; a computed grid track list holds px, %, fr only, at any depth of '
            'minmax() / fit-content() / repeat() (track_size_all_px), equal absolute lengths are the same breadth; every '
            'property whose validator takes a gradient has a gradient computer (decided on the runtime registries) and '
            'its stops, radial centre and explicit size come out in px (gradient_property_all_px); the components of a '
            'grid line may come in any order (grid_line_perm) and an accepted line has the shape of the <grid-line> '
            'grammar (grid_line_sound_partial: CSS-wide keywords excepted, witnessed).',
    'note': 'Trusted: Lean kernel, py/extract/c07_tables.py and c07_numeric.py, the harness abstraction of tokens to '
            'the answers of the real single-token / slice validators. Partial: of the 133 validator functions only the 50 '
            'keyword-only properties, the 12 numeric single-token properties, get_length, get_resolution and '
            'border_corner_radius are mirrored, the others are tied by the run-time funnel checks; var() inside ( ) [ ] '
            'blocks and inside functions with empty arguments is invisible to the code and the model alike; on cyclic '
            'custom properties the code substitutes up to the repeated property (CSS makes the whole cycle invalid at '
            'computed-value time) — the model mirrors the code; CSS nesting (style rules inside style rules) is outside '
            'the rule-level model. Known findings: commas dropped from var() fallbacks, a CSS-wide keyword read as a '
            'custom ident inside a multi-token value, gradient lengths of border-image-source / mask-border-source not '
            'computed (AssertionError in layout). Repaired since round 2 (replayed as regressions): negative '
            'flex-grow / flex-shrink, image-resolution <= 0, var() self-cycle, inherit out of a var() on the root, a shorthand invalid '
            'after substitution applied in part, flex: 0.0 read as a basis, @font-face src: format() and '
            '@counter-style system: (empty) IndexError.',
}
