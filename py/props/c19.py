"""C19 — rendering is a pure function of its inputs: deterministic and isolated.

Correspondence sections (implementation vs the Lean models, exact):
  pdf-zoom-docs        write_pdf(zoom=z) of rendered documents: numbers parsed from the uncompressed PDF (text) and the
                       exact floats of the pydyf objects seen by a finisher, vs Model/PdfZoom (+ copy, pdf/ua-1)
  pdf-zoom-synthetic   the real generate_pdf on real Page objects with hand-set (also adversarial) attributes
  copy-subsets         Document.copy(pages) for every subset (and some permutations / repetitions) of <= 6 pages
  resolve-links        real resolve_links on synthetic pages
  bookmark-tree        real Document.make_bookmark_tree(scale, transform_pages=True)
  matrix / pdf-number  Matrix.transform_point with Fractions; pydyf number formatting
  image-cache          real get_image_from_uri with a recording memory fetcher over random call histories
  write-sinks          real Document.write_pdf with recording pydyf.PDF.write / open, three target kinds
  render-state         real HTML.render with recording constructors over histories of renders
Validation sections (same input under different histories; the driver only echoes the reference):
  history              2..6 renders sharing / not sharing CSS objects, font configurations, caches; repeated renders of
                       one HTML object; layout fingerprint and PDF bytes; fresh subprocess with another PYTHONHASHSEED;
                       deep snapshots of caller-owned objects
  three-sinks-bytes    bytes returned = written to a file object = written to a path
"""
import hashlib
import io
import itertools
import json
import os
import subprocess
import sys
import tempfile
import types
from fractions import Fraction
from pathlib import Path

from extract import image_key as image_key_table
from extract import module_state, pdf_variants, purity_inventory
from harness import c19_gen, c19_pdf, docs
from vlib import sx
from vlib.framework import PropCheck

HERE = Path(__file__).resolve().parent


# ---------------------------------------------------------------------------------------------- pages

def _write_captured(document, zoom, **options):
    captured = {}

    def finisher(doc, pdf):
        captured['pdf'] = pdf
    data = document.write_pdf(zoom=zoom, uncompressed_pdf=True, finisher=finisher, **options)
    return data, captured['pdf']


def impl_pdfdoc(document, zoom, variant=None):
    """(text form, exact form) of what the implementation wrote, or the exception class for both."""
    try:
        data, pdf = _write_captured(document, float(zoom), pdf_variant=variant)
    except Exception as exc:  # noqa: BLE001 - an outcome kind
        out = f'err:{type(exc).__name__}'
        return out, out
    try:
        text = c19_pdf.dumps(c19_pdf.parse_pdf(data))
    except Exception as exc:  # noqa: BLE001 - a PDF this reader does not understand is a disagreement, not a crash
        text = f'unreadable-pdf:{type(exc).__name__}'
    try:
        exact = c19_pdf.dumps(c19_pdf.exact_from_pdf(pdf, document, float(zoom) * 0.75))
    except Exception as exc:  # noqa: BLE001
        exact = f'unreadable-pdf-objects:{type(exc).__name__}'
    return text, exact


def add_pdfdoc(sec, document, wire, zoom, variant, has_html, sel, meta, tags=()):
    """Queue both forms of one write_pdf.  `sel`: None (the document itself), 'all' or a list of page indices."""
    try:
        if sel is None:
            target = document
        elif sel == 'all':
            target = document.copy()
        else:
            target = document.copy([document.pages[i] for i in sel])
    except Exception as exc:  # noqa: BLE001 - an outcome kind
        text = exact = f'err:{type(exc).__name__}'
    else:
        text, exact = impl_pdfdoc(target, zoom, variant)
    sel_wire = 'none' if sel is None else sel
    args = (zoom, variant == 'pdf/ua-1', has_html, sel_wire, wire)
    n_pages = len(wire) if sel in (None, 'all') else len(sel)
    nontrivial = n_pages > 0 and zoom != 1
    if text.startswith('err:'):
        tags = list(tags) + ['error-' + text[4:]]
    sec.add(sx.line('pdfdoc', *args), text, meta=dict(meta, mode='text'), nontrivial=nontrivial, tags=tags)
    sec.add(sx.line('pdfdocx', *args), exact, meta=dict(meta, mode='exact'), nontrivial=nontrivial, tags=tags)


def doc_tags(wire, zoom, variant, sel):
    scale = zoom * Fraction(3, 4)
    tags = [f'pages{min(len(wire), 6)}', 'ua' if variant else 'plain',
            'copy' if sel is not None else 'whole']
    if any(b * scale > 10 for page in wire for b in page[2]):
        tags.append('bleed-capped')
    if any(b > 0 for page in wire for b in page[2]):
        tags.append('bleed')
    if any(link[0] == 'internal' for page in wire for link in page[3]):
        tags.append('internal-links')
    if any(page[5] for page in wire):
        tags.append('bookmarks')
    if len({(page[0], page[1]) for page in wire}) > 1:
        tags.append('mixed-sizes')
    names = {anchor[0] for page in wire for anchor in page[4]}
    if any(not name.isascii() for name in names):
        tags.append('unicode-names')

    def written(name):
        return name.encode('ascii') if name.isascii() else b'\xfe\xff' + name.encode('utf-16-be')
    if sorted(names) != sorted(names, key=written):
        tags.append('byte-order-differs')       # code-point order and the order of the written keys part
    return tags


def section_docs(run):
    sec = run.section(
        'pdf-zoom-docs',
        'rendered documents (1..6 pages; bleed, links, anchors, bookmarks, transforms, named pages) written at dyadic '
        'zooms, whole / copy(all) / copy(subset), plain / pdf/ua-1; MediaBox TrimBox BleedBox cm Rect Dests Outlines '
        'as text of the uncompressed PDF and as exact floats; non-trivial = at least one page and zoom != 1')
    rendered = []
    for _ in range(run.n(24, 220)):
        html, info = c19_gen.gen_doc(run.rng)
        try:
            document = docs.render(html)
        except Exception as exc:  # noqa: BLE001 - rendering itself fails: a disagreement with any model
            sec.add(sx.line('echo', 'renders', len(rendered)), f'err:{type(exc).__name__}',
                    meta={'html': html, 'zoom': '1', 'variant': None, 'sel': None}, tags=['render-failed'])
            continue
        if not c19_pdf.wire_ok(document.pages):
            continue
        wire = [c19_pdf.wire_page(page) for page in document.pages]
        rendered.append((html, document, wire))
        for zoom in [Fraction(1)] + run.rng.sample(c19_gen.ZOOMS, run.n(2, 4)):
            for variant in (None, 'pdf/ua-1') if run.rng.random() < 0.3 else (None,):
                add_pdfdoc(sec, document, wire, zoom, variant, True, None,
                           {'html': html, 'zoom': str(zoom), 'variant': variant, 'sel': None},
                           doc_tags(wire, zoom, variant, None))
        # copy: a random subset (order kept), 'all', with and without pdf/ua-1
        n = len(wire)
        sel = sorted(run.rng.sample(range(n), run.rng.randrange(0, n + 1)))
        zoom = run.rng.choice(c19_gen.ZOOMS)
        for choice, variant in ((sel, None), ('all', None), (sel, 'pdf/ua-1')):
            add_pdfdoc(sec, document, wire, zoom, variant, True, choice,
                       {'html': html, 'zoom': str(zoom), 'variant': variant, 'sel': choice},
                       doc_tags(wire, zoom, variant, choice))
    return rendered


def make_pages(factory, abstract):
    return [factory.make(*page) for page in abstract]


def section_synthetic(run, factory):
    sec = run.section(
        'pdf-zoom-synthetic',
        'the real generate_pdf / add_links / make_bookmark_tree on real Page objects with hand-set attributes: random '
        'and adversarial (0, negative, 2^20, 1/64) sizes, bleeds, rectangles, bookmark levels (also level 0), zoom '
        '(also 0 and negative), no pages; non-trivial = at least one page')
    zooms = c19_gen.ZOOMS + [Fraction(0), Fraction(-1), Fraction(-3, 2), Fraction(64), Fraction(1, 64)]
    for index in range(run.n(500, 6000)):
        adversarial = index % 2 == 1
        abstract = c19_gen.gen_synthetic_pages(run.rng, adversarial, levels_ok=not adversarial)
        wire = c19_gen.wire_abstract(abstract)
        zoom = run.rng.choice(zooms if adversarial else c19_gen.ZOOMS)
        variant = 'pdf/ua-1' if run.rng.random() < 0.1 else None
        document = factory.document(make_pages(factory, abstract))
        sel = None
        if run.rng.random() < 0.3 and abstract:
            sel = [run.rng.randrange(len(abstract)) for _ in range(run.rng.randrange(0, 5))]
        tags = doc_tags(wire, zoom, variant, sel) + (['adversarial'] if adversarial else [])
        add_pdfdoc(sec, document, wire, zoom, variant, False, sel,
                   {'abstract': json_abstract(abstract), 'zoom': str(zoom), 'variant': variant, 'sel': sel}, tags)


def json_abstract(abstract):
    def conv(value):
        if isinstance(value, Fraction):
            return str(value)
        if isinstance(value, (list, tuple)):
            return [conv(v) for v in value]
        return value
    return conv(abstract)


def unjson_abstract(data):
    pages = []
    for w, h, bleed, links, anchors, bookmarks in data:
        pages.append((Fraction(w), Fraction(h), [Fraction(b) for b in bleed],
                      [(k, t, [Fraction(v) for v in rect]) for k, t, rect in links],
                      [(name, [Fraction(v) for v in point]) for name, point in anchors],
                      [(level, label, Fraction(x), Fraction(y), state) for level, label, x, y, state in bookmarks]))
    return pages


def section_copy(run, factory, rendered):
    sec = run.section(
        'copy-subsets',
        'Document.copy(pages).write_pdf for EVERY subset of the pages of documents with <= 6 pages, plus permutations '
        'and repetitions; and what copy() passes on (pages, metadata, url_fetcher, font_config, _html); '
        'non-trivial = a proper non-empty selection')
    candidates = [item for item in rendered if 2 <= len(item[2]) <= 6]
    candidates.sort(key=lambda item: -len(item[2]))
    for html, document, wire in candidates[:run.n(2, 8)]:
        n = len(wire)
        zoom = run.rng.choice(c19_gen.ZOOMS)
        for size in range(n + 1):
            for sel in itertools.combinations(range(n), size):
                add_pdfdoc(sec, document, wire, zoom, None, True, list(sel),
                           {'html': html, 'zoom': str(zoom), 'variant': None, 'sel': list(sel)},
                           [f'subset{size}of{n}'])
        for _ in range(run.n(6, 40)):
            sel = [run.rng.randrange(n) for _ in range(run.rng.randrange(1, 7))]
            add_pdfdoc(sec, document, wire, zoom, None, True, sel,
                       {'html': html, 'zoom': str(zoom), 'variant': None, 'sel': sel}, ['permutation'])
    # the copy itself
    for _ in range(run.n(60, 1500)):
        n = run.rng.randrange(0, 7)
        abstract = c19_gen.gen_synthetic_pages(run.rng, False, n_pages=n)
        pages = make_pages(factory, abstract)
        document = factory.document(pages)
        has_html = run.rng.random() < 0.5
        if has_html:
            document._html = object()
        if run.rng.random() < 0.2:
            sel = 'all'
        else:
            sel = [run.rng.randrange(n) for _ in range(run.rng.randrange(0, 6))] if n else []
        # list, tuple and generator arguments take different branches of copy()
        wrap = run.rng.choice([lambda c: c, tuple, iter])
        try:
            copied = document.copy() if sel == 'all' else document.copy(wrap([pages[i] for i in sel]))
        except Exception as exc:  # noqa: BLE001
            sec.add(sx.line('copy', sel, has_html, n), f'err:{type(exc).__name__}',
                    meta={'copy': True, 'sel': sel, 'n': n}, tags=['copy-object'])
            continue
        index = {id(page): i for i, page in enumerate(pages)}
        out = sx.dumps([
            ['pages', *[index[id(page)] for page in copied.pages]],
            ['metadata', 1 if copied.metadata is document.metadata else 0],
            ['fetcher', 2 if copied.url_fetcher is document.url_fetcher else 0],
            ['font', 3 if copied.font_config is document.font_config else 0],
            ['html', getattr(copied, '_html', None) is not None]])
        if copied.fonts != {} or copied is document or (sel != 'all' and copied.pages is document.pages):
            out = 'copy-shares-state'
        sec.add(sx.line('copy', sel, has_html, n), out, meta={'copy': True, 'sel': sel, 'n': n},
                nontrivial=sel != 'all' and 0 < len(sel), tags=['copy-object'])


def flatten_tree(tree, depth=1, out=None):
    out = [] if out is None else out
    for label, (page, x, y), children, state in tree:
        out.append([depth, label, page, c19_pdf.frac(x), c19_pdf.frac(y), 'closed' if state == 'closed' else 'open'])
        flatten_tree(children, depth + 1, out)
    return out


def section_functions(run, factory):
    from weasyprint.matrix import Matrix
    from weasyprint.pdf.anchors import resolve_links
    import pydyf

    sec = run.section('resolve-links', 'real resolve_links on synthetic pages (duplicate names across pages, missing '
                      'targets, three link kinds); non-trivial = an internal link exists')
    for index in range(run.n(1500, 40000)):
        abstract = c19_gen.gen_synthetic_pages(run.rng, index % 3 == 0)
        pages = make_pages(factory, abstract)
        out = docs.outcome(lambda: sx.dumps([
            [[[kind, target, *map(c19_pdf.frac, rect)] for kind, target, rect, _ in links],
             [[name, c19_pdf.frac(x), c19_pdf.frac(y)] for name, x, y in anchors]]
            for links, anchors in resolve_links(pages)]))
        wire = c19_gen.wire_abstract(abstract)
        sec.add(sx.line('resolve', wire), out, meta={'abstract': json_abstract(abstract)},
                nontrivial=any(link[0] == 'internal' for page in wire for link in page[3]),
                tags=[f'pages{len(wire)}'])

    sec = run.section('bookmark-tree', 'real Document.make_bookmark_tree(scale, transform_pages=True) on synthetic '
                      'pages, flattened in document order with depths; levels 0..6 (0 trips the assertion); '
                      'non-trivial = at least two bookmarks')
    for index in range(run.n(1500, 40000)):
        abstract = c19_gen.gen_synthetic_pages(run.rng, index % 3 == 0, levels_ok=index % 4 != 0)
        document = factory.document(make_pages(factory, abstract))
        scale = run.rng.choice(c19_gen.ZOOMS) * Fraction(3, 4)
        out = docs.outcome(lambda: sx.dumps(flatten_tree(document.make_bookmark_tree(float(scale), True))))
        wire = c19_gen.wire_abstract(abstract)
        sec.add(sx.line('outline', scale, wire), out, meta={'abstract': json_abstract(abstract), 'scale': str(scale)},
                nontrivial=sum(len(page[5]) for page in wire) >= 2,
                tags=['assert' if out.startswith('err') else 'ok'])

    sec = run.section('matrix', 'Matrix.transform_point with fractions.Fraction entries')
    for _ in range(run.n(2000, 50000)):
        values = [Fraction(run.rng.randrange(-4000, 4000), run.rng.choice([1, 2, 3, 4, 7, 8])) for _ in range(8)]
        x, y = Matrix(*values[:6]).transform_point(values[6], values[7])
        sec.add(sx.line('tp', *values), f'{sx.atom(x)} {sx.atom(y)}', meta={'values': [str(v) for v in values]})

    sec = run.section('pdf-number', 'pydyf float formatting (integers, 6 decimals half-even, stripped zeros) on '
                      'dyadic rationals with up to 12 fractional bits; non-trivial = more than 6 decimals')
    for _ in range(run.n(4000, 100000)):
        bits = run.rng.randrange(0, 13)
        value = Fraction(run.rng.randrange(-2 ** 22, 2 ** 22), 2 ** bits)
        if run.rng.random() < 0.1:
            value = Fraction(run.rng.randrange(-40, 40), 2 ** run.rng.randrange(20, 30))
        out = pydyf._to_bytes(float(value)).decode()
        sec.add(sx.line('pdfnum', value), out, meta={'value': str(value)}, nontrivial=value.denominator > 64,
                tags=[f'bits{min(value.denominator.bit_length() - 1, 13)}'])


# ---------------------------------------------------------------------------------------------- image cache

ORIENTATIONS = ['from-image', 'none', (0, False), (0, True), (90, False), (90, True), (180, False), (180, True),
                (270, False), (270, True)]
FORCED = ['', '', 'image/svg+xml', 'image/png']


class ImageWorld:
    """Resources served from memory by a recording fetcher, and the canonical printing of what the real
    get_image_from_uri returns / stores."""

    def __init__(self):
        self.blobs = c19_gen.make_blobs()
        self.names = list(self.blobs)
        self.blob_id = {name: i + 1 for i, name in enumerate(self.names)}
        from PIL import Image
        self.signature = {}
        for name, (data, fmt, _, _) in self.blobs.items():
            if fmt is not None:
                self.signature[name] = c19_gen.quadrant_signature(Image.open(io.BytesIO(data)))

    def gen_resources(self, rng):
        """[(url, descriptor)] with descriptor = ('raises',) | ('malformed',) | ('ok', mime, file, blob name, how)"""
        resources = []
        for i in range(rng.randrange(1, 7)):
            url = f'http://t/r{i}'
            roll = rng.random()
            if roll < 0.1:
                resources.append((url, ('raises',)))
            elif roll < 0.15:
                resources.append((url, ('malformed',)))
            else:
                blob = rng.choice(self.names)
                data, fmt, _, svg_ok = self.blobs[blob]
                natural = {'PNG': 'image/png', 'JPEG': 'image/jpeg', 'MPO': 'image/jpeg',
                           'OTHER': 'image/tiff' if blob == 'tiff_f' else 'image/gif'}.get(
                    fmt, 'image/svg+xml' if blob in ('svg', 'badsvg') else 'application/octet-stream')
                mime = rng.choice([natural, natural, natural, None, 'image/svg+xml', 'text/plain'])
                file = rng.choice([None, None, None, f'/nonexistent/dir/f{i}.bin'])
                how = rng.choice(['string', 'file_obj'])
                resources.append((url, ('ok', mime, file, blob, how)))
        return resources

    def fetcher(self, resources, log):
        table = dict(resources)

        def fetch(url):
            log.append(url)
            descriptor = table[url]          # KeyError for unknown URLs: the fetcher raises
            if descriptor[0] == 'raises':
                raise OSError('unreachable')
            if descriptor[0] == 'malformed':
                return {'mime_type': 'image/png'}
            _, mime, file, blob, how = descriptor
            data = self.blobs[blob][0]
            result = {'mime_type': mime}
            if how == 'string':
                result['string'] = data
            else:
                result['file_obj'] = io.BytesIO(data)
            if file is not None:
                result['redirected_url'] = 'file://' + file
            return result
        return fetch

    def wire_resources(self, resources):
        out = []
        for url, descriptor in resources:
            if descriptor[0] != 'ok':
                out.append([url, descriptor[0]])
                continue
            _, mime, file, blob, _ = descriptor
            _, fmt, exif, svg_ok = self.blobs[blob]
            out.append([url, 'ok', mime or 'none', file or 'none', self.blob_id[blob], svg_ok, fmt or 'none', exif,
                        blob not in c19_gen.UNENCODABLE])
        return out

    # canonical printing ---------------------------------------------------------------------------------------
    def key_table(self, calls):
        """md5 digest -> the symbolic `md5(<key>)` the model prints, for the image key of every request of a history
        (the key format is the model's: an implementation that keys differently prints raw digests and disagrees)."""
        table = {}
        for call in calls:
            key = image_key(call)
            table[hashlib.md5(key.encode()).hexdigest()] = f'md5({key})'
        return table

    def canon_key(self, key, table):
        head = key.split('-', 1)[0]
        return table[head] + key[len(head):] if head in table else key

    def show_image(self, image, table, resources):
        from weasyprint.images import LazyImage, LazyLocalImage, RasterImage, SVGImage
        if image is None:
            return 'none'
        if isinstance(image, SVGImage):
            descriptor = dict(resources).get(image._base_url)
            blob = descriptor[3] if descriptor is not None and descriptor[0] == 'ok' else None
            return f'svg:{image._base_url}:{self.blob_id.get(blob, "?")}'
        if isinstance(image, RasterImage):
            data = image.image_data
            if isinstance(data, LazyLocalImage):
                source = f'file={data._filename}'
            elif isinstance(data, LazyImage):
                source = f'cached={self.canon_key(data._key, table)}'
            else:
                source = f'?{type(data).__name__}'
            dpi = 'none' if image._dpi is None else image._dpi
            return f'raster:{table.get(image.id, image.id)}:{image.format}:{dpi}:{source}'
        return f'?{type(image).__name__}'

    def show_entry(self, key, value, table, resources, owner):
        """`owner` = (url, orientation) of the image key a bytes entry belongs to."""
        if not isinstance(value, bytes):
            return self.show_image(value, table, resources)
        from PIL import Image
        if owner is None:
            return f'bytes=unowned:{len(value)}'
        url, orientation = owner
        descriptor = dict(resources).get(url)
        if descriptor is None or descriptor[0] != 'ok':
            return f'bytes=unowned:{len(value)}'
        blob = descriptor[3]
        if value == self.blobs[blob][0]:
            return f'bytes=orig:{self.blob_id[blob]}'
        image = Image.open(io.BytesIO(value))
        # every raster blob shows the same picture: the signature tells whether it was transposed
        how = 'same' if c19_gen.quadrant_signature(image) == self.signature['png'] else 'rot'
        if orientation == 'from-image' and self.blobs[blob][2]:
            how = 'exif'     # what exif_transpose does to the pixels depends on the tag value: not compared
        return f'bytes=reenc:{self.blob_id[blob]}:{how}:{image.format}'


def image_key(call):
    """The cache key of `Model/ImageCache.keyStr` for a request (url, forced, orientation, options)."""
    url, _, orientation, options = call
    return f'{url} {orientation} {options["optimize_images"]} {options["jpeg_quality"]} {options["dpi"]}'


def wire_image_options(options):
    return [options['optimize_images'], 'none' if options['jpeg_quality'] is None else options['jpeg_quality'],
            'none' if options['dpi'] is None else options['dpi']]


def gen_image_options(rng):
    return {'optimize_images': rng.random() < 0.3, 'jpeg_quality': rng.choice([None, None, 30, 0]),
            'dpi': rng.choice([None, None, 96, 0])}


def tuple_calls(calls):
    """Calls as they come back from JSON (replay files): orientation tuples again."""
    return [(u, f, tuple(o) if isinstance(o, list) else o, dict(opts)) for u, f, o, opts in calls]


def run_image_history(world, resources, calls, cache):
    """The real get_image_from_uri over a call history (every call with the image options of the render that makes
    it) -> the line `imgcache` prints."""
    from weasyprint import DEFAULT_OPTIONS
    from weasyprint.images import get_image_from_uri
    log = []
    fetcher = world.fetcher(resources, log)
    table = world.key_table(calls)
    values = []
    for url, forced, orientation, options in calls:
        opts = dict(DEFAULT_OPTIONS)
        opts.update(options)
        try:
            image = get_image_from_uri(
                cache, fetcher, opts, url, forced_mime_type=forced or None, orientation=orientation)
            values.append(world.show_image(image, table, resources))
        except Exception as exc:  # noqa: BLE001
            values.append(f'err:{type(exc).__name__}')
    return values, log, table


def cache_items(cache, candidates):
    """(key, value) pairs of a dict (insertion order) or of a DiskCache (candidate keys, sorted)."""
    if isinstance(cache, dict):
        return list(cache.items())
    return [(key, cache[key]) for key in sorted(candidates) if key in cache]


def image_branch_tags(world, resources, calls, values, entries):
    """Which branches of the model (`getImage` / `decode` / `makeRaster`) a history went through, read off the
    implementation's answers and the inputs."""
    tags = set()
    table = dict(resources)
    seen = set()
    if len({json.dumps(call[3], sort_keys=True) for call in calls}) > 1:
        tags.add('mixed-options')
    for (url, forced, orientation, options), value in zip(calls, values):
        key = image_key((url, forced, orientation, options))
        if key not in seen and any(other.startswith(f'{url} {orientation} ') for other in seen):
            tags.add('same-request-other-options')
        descriptor = table.get(url, ('raises',))
        if key in seen and not value.startswith('err'):
            tags.add('hit')
        else:
            tags.add({'raises': 'miss-fetcher-raises', 'malformed': 'miss-keyerror', 'ok': 'miss-decoded'}[descriptor[0]])
        if not value.startswith('err'):
            seen.add(key)
        if descriptor[0] == 'ok':
            mime = forced or descriptor[1]
            blob = world.blobs[descriptor[3]]
            if value.startswith('svg'):
                tags.add('svg-by-mime' if mime == 'image/svg+xml' else 'svg-last-chance')
            elif value.startswith('raster'):
                tags.add('raster-after-failed-svg' if mime == 'image/svg+xml' else 'raster')
                tags.add('source-file' if ':file=' in value else 'source-cached')
                tags.add('format-' + value.split(':')[-3])
            elif value == 'none' and descriptor[3] in c19_gen.UNENCODABLE:
                tags.add('unencodable')
            elif value == 'none':
                tags.add('undecodable-svg-mime' if mime == 'image/svg+xml' else 'undecodable')
            if blob[2] and orientation == 'from-image':
                tags.add('exif-transposed')
    for entry in entries:
        if '=bytes=orig' in entry:
            tags.add('bytes-original')
        elif '=bytes=reenc' in entry:
            tags.add('bytes-reencoded-' + entry.split(':')[-2])
    return sorted(tags)


EXPECTED_TAGS = {
    'image-cache': ['hit', 'miss-fetcher-raises', 'miss-keyerror', 'miss-decoded', 'svg-by-mime', 'svg-last-chance',
                    'raster', 'raster-after-failed-svg', 'source-file', 'source-cached', 'format-JPEG', 'format-PNG',
                    'undecodable', 'undecodable-svg-mime', 'unencodable', 'exif-transposed', 'bytes-original', 'bytes-reencoded-same',
                    'bytes-reencoded-rot', 'bytes-reencoded-exif', 'disk', 'dict', 'mixed-options',
                    'same-request-other-options'],
    'pdf-zoom-docs': ['bleed', 'bleed-capped', 'internal-links', 'bookmarks', 'mixed-sizes', 'ua', 'plain', 'copy',
                      'whole', 'unicode-names', 'byte-order-differs'],
    'pdf-zoom-synthetic': ['adversarial', 'bleed-capped', 'copy', 'ua', 'error-ZeroDivisionError',
                           'error-AssertionError', 'error-AttributeError', 'unicode-names', 'byte-order-differs'],
    'write-sinks': ['none', 'fileobj', 'path', 'variant', 'no-variant', 'real-generate', 'error-KeyError'],
    'disk-cache': ['disciplined', 'mixed-kinds'],
    'write-state': ['dropped-after-annotated', 'all-current', 'xobject', 'PNG', 'JPEG'],
    'bookmark-tree': ['ok', 'assert'],
    'text-decoration': ['union', 'pass-through', 'text_decoration_line', 'text_decoration_color'],
    'attachment-dates': ['from-clock', 'reproducible', 'file', 'url'],
    'svg-draw': ['cycle', 'acyclic', 'fails', 'no-failure'],
    'image-docs': ['shared-url', 'disjoint', 'mixed-options', 'same-options'],
    'counter-dict': ['persisting', 'fresh'],
    'render-state': ['renders1', 'renders2', 'renders3', 'renders4', 'font-faces', 'caller-cache', 'folder-cache',
                     'raw-sheet'],
    'history (validation)': ['process-vs-process', 'same-html-object', 'write-twice', 'snapshot', 'cache-dict',
                             'cache-disk', 'cache-none', 'shared-font-config', 'fresh-font-config', 'repeat-job',
                             'permutation', 'sequence', 'real-ua', 'font-binding', 'shared-counter-style'],
}


def section_images(run, world):
    from weasyprint.document import DiskCache
    sec = run.section(
        'image-cache',
        'real get_image_from_uri over histories of 1..14 calls sharing a dict or a DiskCache, recording memory fetcher '
        '(PNG, JPEG, JPEG+EXIF, GIF, MPO, a float TIFF that Pillow opens but cannot write as PNG, SVG, broken SVG, '
        'garbage, empty, fetcher raising, dict without data, file: '
        'redirections), 8 orientations, forced MIME types, optimize / jpeg_quality / dpi fixed for the history or '
        'changing from call to call (a cache shared by renders with different image options); compared: every returned '
        'value, every cache entry in order, every fetch; non-trivial = some key is requested twice')
    for index in range(run.n(700, 9000)):
        resources = world.gen_resources(run.rng)
        urls = [url for url, _ in resources] + ['http://t/unknown']
        option_pool = [gen_image_options(run.rng) for _ in range(1 if index % 3 else run.rng.randrange(2, 4))]
        calls = []
        for _ in range(run.rng.randrange(1, 15)):
            if calls and run.rng.random() < 0.35:
                url, _, orientation, _ = run.rng.choice(calls)
                if run.rng.random() < 0.3:
                    orientation = run.rng.choice(ORIENTATIONS)
            else:
                url, orientation = run.rng.choice(urls), run.rng.choice(ORIENTATIONS)
            calls.append((url, run.rng.choice(FORCED), orientation, run.rng.choice(option_pool)))
        use_disk = index % 5 == 4
        folder = tempfile.mkdtemp(prefix='c19cache') if use_disk else None
        cache = DiskCache(folder) if use_disk else {}
        values, log, table = run_image_history(world, resources, calls, cache)
        candidates = set()
        url_of = {}
        for call in calls:
            url, _, orientation, _ = call
            key = image_key(call)
            candidates.add(url)
            candidates.add(f'{url} {orientation}')
            candidates.add(key)
            url_of[key] = (url, orientation)
            for dpi in ('', '96'):
                data_key = f'{hashlib.md5(key.encode()).hexdigest()}-source-{dpi}'
                candidates.add(data_key)
                url_of[data_key] = (url, orientation)
        entries = []
        for key, value in cache_items(cache, candidates):
            try:
                shown = world.show_entry(key, value, table, resources, url_of.get(key))
            except Exception as exc:  # noqa: BLE001 - an entry the canonical printing does not know
                shown = f'unprintable:{type(exc).__name__}'
            entries.append(f'{world.canon_key(key, table)}={shown}')
        if use_disk:
            entries.sort()
            del cache
        out = ';'.join(values) + ' | keys ' + ';'.join(entries) + ' | fetched ' + ';'.join(log)
        wire_calls = [[url, forced or '-', list(o) if isinstance(o, tuple) else o, wire_image_options(options)]
                      for url, forced, o, options in calls]
        line = sx.line('imgcache', world.wire_resources(resources), wire_calls, 'sorted' if use_disk else 'insertion')
        keys = [image_key(call) for call in calls]
        sec.add(line, out, meta={'resources': resources, 'calls': calls, 'disk': use_disk},
                nontrivial=len(set(keys)) < len(keys),
                tags=['disk' if use_disk else 'dict'] + image_branch_tags(world, resources, calls, values, entries))


def css_orientation(orientation):
    if isinstance(orientation, str):
        return orientation
    angle, flip = orientation
    return 'flip' if (angle, flip) == (0, True) else f'{angle}deg' + (' flip' if flip else '')


def run_image_docs(world, resources, documents):
    """Real HTML.render of a sequence of documents sharing one image cache, with a recording fetcher -> per document
    the image URLs fetched during its render and what each of its requests got (read from the cache afterwards)."""
    from weasyprint import DEFAULT_OPTIONS, HTML
    from weasyprint.images import RasterImage, SVGImage
    log = []
    fetcher = world.fetcher(resources, log)
    cache = {}
    out = []
    for options, elements in documents:
        parts = []
        for tag, url, forced, orientation in elements:
            style = f'image-orientation:{css_orientation(orientation)}'
            if tag == 'img':
                parts.append(f'<img src="{url}" alt="a" style="{style}">')
            elif tag == 'embed':
                parts.append(f'<embed src="{url}" type="{forced}" style="{style}">')
            else:
                parts.append(f'<object data="{url}" type="{forced}" style="{style}">f</object>')
        source = '<style>@page{size:300px}</style><p>' + ' '.join(parts) + '</p>'
        start = len(log)
        try:
            HTML(string=source, url_fetcher=fetcher, base_url='http://t/').render(cache=cache, **options)
        except Exception as exc:  # noqa: BLE001
            out.append(f'err:{type(exc).__name__}')
            continue
        kinds = []
        full = dict(DEFAULT_OPTIONS)
        full.update(options)
        for tag, url, forced, orientation in elements:
            key = image_key((url, forced, orientation, full))
            if key not in cache:
                kinds.append('missing')
                continue
            image = cache[key]
            kinds.append('none' if image is None else 'svg' if isinstance(image, SVGImage) else
                         image.format if isinstance(image, RasterImage) else f'?{type(image).__name__}')
        out.append(';'.join(url for url in log[start:] if url.startswith('http://t/')) + ' => ' + ';'.join(kinds))
    return ' | '.join(out)


def section_image_docs(run, world):
    sec = run.section(
        'image-docs',
        'real HTML.render of sequences of 1..4 documents (1..4 <img> / <embed type> / <object type> each, random '
        'image-orientation) sharing one cache dict, with image options that differ from render to render and a '
        'recording memory fetcher, vs Model/ImageCache.runDocs; compared per document: the URLs fetched during its '
        'render, and what each element got; non-trivial = a later document asks for a URL an earlier one asked for')
    for _ in range(run.n(40, 500)):
        resources = [(url, ('raises',) if descriptor[0] == 'malformed' else descriptor)
                     for url, descriptor in world.gen_resources(run.rng)]
        urls = [url for url, _ in resources] + ['http://t/unknown']
        pool = [gen_image_options(run.rng) for _ in range(run.rng.randrange(1, 3))]
        documents = []
        for _ in range(run.rng.randrange(1, 5)):
            elements = []
            for _ in range(run.rng.randrange(1, 5)):
                tag = run.rng.choice(['img', 'img', 'embed', 'object'])
                forced = '' if tag == 'img' else run.rng.choice(FORCED)
                elements.append((tag, run.rng.choice(urls), forced, run.rng.choice(ORIENTATIONS)))
            documents.append((run.rng.choice(pool), elements))
        out = docs.outcome(lambda: run_image_docs(world, resources, documents))
        wire = [[[url, forced or '-', list(o) if isinstance(o, tuple) else o, wire_image_options(options)]
                 for _, url, forced, o in elements] for options, elements in documents]
        seen, repeated = set(), False
        for _, elements in documents:
            here = {url for _, url, _, _ in elements}
            repeated = repeated or bool(here & seen)
            seen |= here
        sec.add(sx.line('imgdocs', world.wire_resources(resources), wire), out,
                meta={'resources': resources, 'documents': documents}, nontrivial=repeated,
                tags=[f'documents{len(documents)}', 'shared-url' if repeated else 'disjoint',
                      'mixed-options' if len(pool) > 1 else 'same-options'])


class _Obj:
    """A non-bytes cache value."""

    def __init__(self, number):
        self.number = number


def run_disk_ops(ops):
    """Operations on a real DiskCache -> what `diskops` prints."""
    from weasyprint.document import DiskCache
    folder = tempfile.mkdtemp(prefix='c19disk')
    cache = DiskCache(folder)
    out = []
    try:
        for op in ops:
            if op[0] == 'set':
                if op[2] == 'b':
                    cache[op[1]] = b'payload-%d' % op[3]
                elif op[2] == 'o':
                    cache[op[1]] = _Obj(op[3])
                else:
                    cache[op[1]] = None
            elif op[0] == 'get':
                try:
                    value = cache[op[1]]
                except Exception as exc:  # noqa: BLE001
                    out.append(f'err:{type(exc).__name__}')
                    continue
                if value is None:
                    out.append('none')
                elif isinstance(value, bytes):
                    out.append('bytes:' + value.decode().split('-')[1])
                else:
                    out.append(f'object:{value.number}')
            else:
                out.append(str(op[1] in cache).lower())
    finally:
        del cache
        for child in Path(folder).glob('*'):
            child.unlink()
        if Path(folder).exists():
            Path(folder).rmdir()
    return ' '.join(out)


def section_disk_cache(run):
    sec = run.section(
        'disk-cache',
        'random sequences of 1..14 operations (store bytes / an object / None, read, membership) on a real DiskCache, '
        'disciplined (a key only ever holds one kind of value) or not; non-trivial = some key is stored twice')
    for index in range(run.n(300, 6000)):
        keys = [f'k{i}' for i in range(run.rng.randrange(1, 5))]
        disciplined = index % 2 == 0
        kind_of = {key: run.rng.choice(['b', 'o']) for key in keys}
        ops, stored = [], []
        for _ in range(run.rng.randrange(1, 15)):
            key = run.rng.choice(keys)
            roll = run.rng.random()
            if roll < 0.45:
                kind = kind_of[key] if disciplined else run.rng.choice(['b', 'o', 'none'])
                if kind == 'none' or (kind == 'o' and run.rng.random() < 0.15):
                    ops.append(['set', key, 'none'])
                else:
                    ops.append(['set', key, kind, run.rng.randrange(1, 99)])
                stored.append(key)
            elif roll < 0.8:
                ops.append(['get', run.rng.choice(keys + ['absent'])])
            else:
                ops.append(['has', run.rng.choice(keys + ['absent'])])
        sec.add(sx.line('diskops', *ops), run_disk_ops(ops), meta={'ops': ops},
                nontrivial=len(set(stored)) < len(stored), tags=['disciplined' if disciplined else 'mixed-kinds'])


# ---------------------------------------------------------------------------------------------- write state

def run_link_writes(factory, abstract, selections):
    """Successive real write_pdf calls of selections of ONE set of synthetic pages (the link boxes persist) -> per
    write, which link boxes of the written pages hold an annotation, and of which write (`box:write`)."""
    pages = make_pages(factory, abstract)
    box_number = {}
    for page in pages:
        for _, _, _, box in page.links:
            box_number[id(box)] = len(box_number) + 1
    owner = {}          # id(annotation object) -> number of the write that created it
    keep = []
    out, wire = [], []
    for number, selection in enumerate(selections, start=1):
        chosen = [pages[i] for i in selection]
        document = factory.document(chosen)
        captured = {}

        def finisher(doc, pdf):
            captured['pdf'] = pdf
        try:
            document.write_pdf(finisher=finisher)
        except Exception as exc:  # noqa: BLE001
            out.append(f'err:{type(exc).__name__}')
            wire.append([[], []])
            continue
        for obj in captured['pdf'].objects:
            if isinstance(obj, dict) and obj.get('Subtype') == '/Link' and id(obj) not in owner:
                owner[id(obj)] = number
                keep.append(obj)
        tags = []
        links = []
        for page in chosen:
            for kind, target, _, box in page.links:
                links.append([box_number[id(box)], kind, target])
                annotation = getattr(box, 'link_annotation', None)
                if annotation:
                    tags.append(f'{box_number[id(box)]}:{owner.get(id(annotation), "?")}')
        names = []
        for page in chosen:
            for name in page.anchors:
                if name not in names:
                    names.append(name)
        out.append(','.join(tags))
        wire.append([names, links])
    return ' | '.join(out), wire


def run_xobjects(world, fmt, targets):
    """Successive real get_x_object calls on one RasterImage (64 x 32) -> `W,H,generation,dataW,dataH` per call."""
    from PIL import Image
    from weasyprint import DEFAULT_OPTIONS
    from weasyprint.images import get_image_from_uri
    data = world.blobs['png' if fmt == 'PNG' else 'jpg'][0]
    options = dict(DEFAULT_OPTIONS, dpi=96)
    image = get_image_from_uri({}, lambda url: {'string': data, 'mime_type': 'image/png'}, options, 'http://t/x',
                               orientation='none')
    generation, seen = 0, image.image_data
    out = []
    for target in targets:
        ratio = 1 if target is None else target[0] / image.width
        stream = image.get_x_object(True, ratio)
        if image.image_data is not seen:
            generation, seen = generation + 1, image.image_data
        stored = Image.open(io.BytesIO(image.image_data.data))
        out.append(f'{stream.extra["Width"]},{stream.extra["Height"]},{generation},{stored.width},{stored.height}')
    return ' '.join(out)


def section_write_state(run, factory, world):
    sec = run.section(
        'write-state',
        'what a write leaves behind: (a) sequences of 2..5 real write_pdf calls over selections of one set of '
        'synthetic pages: which link boxes hold an annotation afterwards and of which write; (b) sequences of real '
        'RasterImage.get_x_object calls (ratio 1 and thumbnails) on one image: declared size, stored data size, how '
        'often image_data was replaced; non-trivial = a later write contains a box that an earlier write annotated '
        'and that it does not annotate itself (its link is dropped), or two thumbnail calls')
    for _ in range(run.n(60, 1500)):
        abstract = c19_gen.gen_synthetic_pages(run.rng, False, n_pages=run.rng.randrange(1, 5))
        n = len(abstract)
        selections = [sorted(run.rng.sample(range(n), run.rng.randrange(0, n + 1)))
                      for _ in range(run.rng.randrange(2, 6))]
        if run.rng.random() < 0.6:
            selections[0] = list(range(n))      # the whole document first: later subsets see its annotations
        out, wire = run_link_writes(factory, abstract, selections)
        stale = any(tag.split(':')[1] != str(i + 1) for i, part in enumerate(out.split(' | '))
                    for tag in part.split(',') if ':' in tag)
        # the situation the reset at the head of generate_pdf is for: a box annotated by an earlier write is part of a
        # later write that does not annotate it (its link is dropped by resolve_links)
        annotated, reset_needed = set(), False
        for part, (_, links) in zip(out.split(' | '), wire):
            tagged = {tag.split(':')[0] for tag in part.split(',') if ':' in tag}
            if any(str(link[0]) in annotated and str(link[0]) not in tagged for link in links):
                reset_needed = True
            annotated |= tagged
        sec.add(sx.line('writes', *wire), out, meta={'abstract': json_abstract(abstract), 'selections': selections},
                nontrivial=reset_needed,
                tags=['links', 'stale-annotation' if stale else 'all-current'] +
                (['dropped-after-annotated'] if reset_needed else []))
    sizes = [None, None, (32, 16), (16, 8), (8, 4), (128, 64)]     # (64, 32) would be ratio 1, i.e. None
    for _ in range(run.n(40, 600)):
        fmt = run.rng.choice(['PNG', 'JPEG'])
        targets = [run.rng.choice(sizes) for _ in range(run.rng.randrange(1, 6))]
        out = docs.outcome(lambda: run_xobjects(world, fmt, targets))
        sec.add(sx.line('xobjects', 64, 32, *['none' if t is None else list(t) for t in targets]), out,
                meta={'format': fmt, 'targets': targets}, nontrivial=sum(t is not None for t in targets) >= 2,
                tags=['xobject', fmt])


# ---------------------------------------------------------------------------------------------- text-decoration

DECO_LINES = ['underline', 'overline', 'line-through', 'blink']
DECO_KEYS = ['text_decoration_line', 'text_decoration_line', 'text_decoration_line', 'text_decoration_color',
             'text_decoration_style', 'text_decoration_thickness', 'color']


def run_text_decoration(key, value, parent, cascaded):
    """The real css.text_decoration on fresh objects -> canonical printing of the result, or which argument it
    modified (the set of a cascaded value belongs to the declaration of a style-sheet rule)."""
    import copy
    from weasyprint.css import text_decoration

    def build(wire):
        if wire == 'none':
            return 'none'
        if isinstance(wire, list):
            return set(wire)
        return ('opaque', wire)          # any other computed value: compared by identity of its tag

    def show(result):
        if isinstance(result, str) and result == 'none':
            return 'none'
        if isinstance(result, (set, frozenset)):
            return '{' + '+'.join(line for line in DECO_LINES if line in result) + '}'
        if isinstance(result, tuple) and result[0] == 'opaque':
            return result[1]
        return f'?{result!r}'
    value_obj, parent_obj = build(value), build(parent)
    before = copy.deepcopy((value_obj, parent_obj))
    result = text_decoration(key, value_obj, parent_obj, cascaded)
    shown = show(result)
    if value_obj != before[0]:
        return f'mutated-argument:value:{show(before[0])}->{show(value_obj)}'
    if parent_obj != before[1]:
        return f'mutated-argument:parent_value:{show(before[1])}->{show(parent_obj)}'
    return shown


def section_text_decoration(run):
    sec = run.section(
        'text-decoration',
        'real css.text_decoration(key, value, parent_value, cascaded) on fresh objects: the four text-decoration '
        'properties and an unrelated one, values none / every kind of set of lines / other values; compared: the '
        'result, and that neither argument was modified (a cascaded set is the object stored in the style sheet); '
        'non-trivial = text-decoration-line with two sets')
    for _ in range(run.n(600, 6000)):
        key = run.rng.choice(DECO_KEYS)

        def pick(number):
            if key == 'text_decoration_line':
                if run.rng.random() < 0.3:
                    return 'none'
                return run.rng.sample(DECO_LINES, run.rng.randrange(1, 4))
            return run.rng.choice(['none', f'v{number}', f'v{number + 2}'])
        value, parent, cascaded = pick(1), pick(2), run.rng.random() < 0.5
        out = docs.outcome(lambda: run_text_decoration(key, value, parent, cascaded))
        both = isinstance(value, list) and isinstance(parent, list)
        sec.add(sx.line('textdeco', key, value, parent, cascaded), out,
                meta={'key': key, 'value': value, 'parent': parent, 'cascaded': cascaded}, nontrivial=both,
                tags=[key, 'union' if both else 'pass-through'])


# ---------------------------------------------------------------------------------------------- attachment dates

def run_attachment_dates(created, modified, use_file, now):
    """The real Attachment.__init__ with `datetime.now()` (as weasyprint/__init__.py reads it) returning `now` ->
    the dates as write_pdf_attachment formats them, and the file times the constructor could read."""
    import datetime as datetime_module
    import weasyprint
    fmt = 'D:%Y%m%d%H%M%SZ'

    def moment(text):
        return None if text is None else datetime_module.datetime.strptime(text, fmt)
    fixed = moment(now)

    class Clock(datetime_module.datetime):
        @classmethod
        def now(cls, tz=None):
            return fixed
    saved = weasyprint.datetime
    weasyprint.datetime = Clock
    path = None
    try:
        if use_file:
            handle, path = tempfile.mkstemp(prefix='c19att')
            os.close(handle)
            os.utime(path, (86400 * 400 + 7, 86400 * 500 + 11))
            stat = os.stat(path)
            file_times = [datetime_module.datetime.fromtimestamp(stat.st_ctime).strftime(fmt),
                          datetime_module.datetime.fromtimestamp(stat.st_mtime).strftime(fmt)]
            attachment = weasyprint.Attachment(filename=path, created=moment(created), modified=moment(modified))
        else:
            file_times = None
            attachment = weasyprint.Attachment(string=b'x', created=moment(created), modified=moment(modified))
        return f'{attachment.created.strftime(fmt)} {attachment.modified.strftime(fmt)}', file_times
    finally:
        weasyprint.datetime = saved
        if path is not None:
            os.unlink(path)


def section_attachment_dates(run):
    sec = run.section(
        'attachment-dates',
        'real Attachment.__init__ under a fake clock: created / modified given or not, a file name (times read from '
        'the file system) or not, SOURCE_DATE_EPOCH set or not; compared: the /CreationDate and /ModDate that '
        'write_pdf_attachment writes; non-trivial = a date comes from the clock')
    stamps = ['D:20200102030405Z', 'D:19991231235959Z', 'D:20260930173740Z', 'D:20260930173741Z']
    saved_epoch = os.environ.get('SOURCE_DATE_EPOCH')
    try:
        for _ in range(run.n(60, 600)):
            created, modified = run.rng.choice([None, None, stamps[0]]), run.rng.choice([None, None, stamps[1]])
            use_file, now = run.rng.random() < 0.4, run.rng.choice(stamps[2:])
            epoch = run.rng.choice([None, '1600000000', '0'])
            if epoch is None:
                os.environ.pop('SOURCE_DATE_EPOCH', None)
            else:
                os.environ['SOURCE_DATE_EPOCH'] = epoch
            try:
                out, file_times = run_attachment_dates(created, modified, use_file, now)
            except Exception as exc:  # noqa: BLE001
                out, file_times = f'err:{type(exc).__name__}', None
            clock = not use_file and (created is None or modified is None)
            sec.add(sx.line('attachdates', created, modified, file_times, now, epoch), out,
                    meta={'created': created, 'modified': modified, 'file': use_file, 'now': now, 'epoch': epoch},
                    nontrivial=clock, tags=['from-clock' if clock else 'reproducible', 'file' if use_file else 'url'])
    finally:
        if saved_epoch is None:
            os.environ.pop('SOURCE_DATE_EPOCH', None)
        else:
            os.environ['SOURCE_DATE_EPOCH'] = saved_epoch


# ---------------------------------------------------------------------------------------------- counter dictionary

COUNTER_NAMES = ['lower-alpha', 'decimal', 'disc', 'stars', 'own', 'm-dash']     # three UA styles, three author names


def run_counter_dict(documents, probes):
    """Real HTML.render(counter_style=cs) over a sequence of documents sharing ONE CounterStyle -> after every render,
    what the real dictionary binds each probe name to: `ua` (the UA definition), the marker of the rule that defined
    it, `-` (absent)."""
    from weasyprint.css.counters import CounterStyle
    from weasyprint.html import HTML5_UA_COUNTER_STYLE
    ua = HTML5_UA_COUNTER_STYLE
    shared = CounterStyle()
    out = []
    for rules in documents:
        css = ''.join(f'@counter-style {name}{{system:cyclic;symbols:"{tag}"}}' for name, tag in rules)
        source = (f'<style>@page{{size:100px}}{css}</style><ol style="list-style-type:lower-latin"><li>a</li></ol>')
        docs.html(source).render(None, shared)
        shown = []
        for name in probes:
            if name not in shared:
                shown.append(f'{name}=-')
            elif name in ua and shared[name] == ua[name]:
                shown.append(f'{name}=ua')
            else:
                text = repr(shared[name])
                tags = [tag for _, tag in sum(documents, []) if f"'{tag}'" in text]
                shown.append(f'{name}=' + (tags[0] if len(set(tags)) == 1 else f'?{sorted(set(tags))}'))
        out.append(';'.join(shown))
    return ' | '.join(out)


def section_counter_dict(run):
    from weasyprint.html import HTML5_UA_COUNTER_STYLE
    ua_names = [name for name in HTML5_UA_COUNTER_STYLE if sx_atom_ok(name)]
    sec = run.section(
        'counter-dict',
        'real HTML.render(counter_style=cs) over sequences of 1..4 documents sharing one CounterStyle, each defining 0..3 '
        '@counter-style rules (UA names redefined, author names, the same name twice); compared: what the real '
        'dictionary binds every probe name to after every render; non-trivial = a later document leaves a name '
        'alone that an earlier one defined')
    marker = [0]
    for _ in range(run.n(30, 300)):
        documents = []
        for _ in range(run.rng.randrange(1, 5)):
            rules = []
            for _ in range(run.rng.randrange(0, 4)):
                marker[0] += 1
                rules.append([run.rng.choice(COUNTER_NAMES), f'm{marker[0]}'])
            documents.append(rules)
        out = docs.outcome(lambda: run_counter_dict(documents, COUNTER_NAMES))
        defined, later_alone = set(), False
        for rules in documents:
            names = {name for name, _ in rules}
            later_alone = later_alone or bool(defined - names)
            defined |= names
        # the model's input is the rules whose name parse_counter_style_name accepts: `decimal` and `disc` only while
        # the dictionary does not hold them (never, once the UA styles are in), never `none` (name validation: C15)
        accepted = [[rule for rule in rules if rule[0] not in ('decimal', 'disc', 'none')] for rules in documents]
        sec.add(sx.line('counterdict', ua_names, accepted, COUNTER_NAMES), out, meta={'documents': documents},
                nontrivial=later_alone, tags=[f'documents{len(documents)}', 'persisting' if later_alone else 'fresh'])


def sx_atom_ok(text):
    return bool(text) and not any(c in text for c in ' ()\n\t\r')


# ---------------------------------------------------------------------------------------------- SVG re-entrancy

def run_svg_draw(root, refs, fails, depth_out=None):
    """Real SVGImage objects whose `_svg.draw` draws other SVGImage objects (as <image href> does) and may raise ->
    the images whose drawing was entered, in order, and the images whose `_drawing` flag is still up afterwards."""
    from weasyprint.images import SVGImage
    entered = []
    images = []
    nesting = [0, 0]          # current, maximal number of drawings inside one another

    class Drawing:
        def __init__(self, number):
            self.number = number

        def draw(self, *args, **kwargs):
            entered.append(str(self.number))
            nesting[0] += 1
            nesting[1] = max(nesting)
            try:
                if len(entered) > 500:
                    raise RecursionError('unbounded nesting')
                for other in refs[self.number]:
                    images[other].draw(None, 1, 1, 'auto')
                if fails[self.number]:
                    raise ValueError('drawing failed')
            finally:
                nesting[0] -= 1
    for number in range(len(refs)):
        image = SVGImage.__new__(SVGImage)
        image.__dict__.update(_svg=Drawing(number), _base_url=f'img{number}', _url_fetcher=None, _context=None,
                              _drawing=False)
        images.append(image)
    images[root].draw(None, 1, 1, 'auto')
    flagged = [str(n) for n, image in enumerate(images) if image._drawing]
    if depth_out is not None:
        depth_out.append(nesting[1])
    return ' '.join(entered) + ' | ' + ' '.join(flagged)


def section_svg_draw(run):
    sec = run.section(
        'svg-draw',
        'real SVGImage.draw on 1..5 image objects whose drawings draw each other (cycles, self-inclusion, repeated '
        'references) and fail or not; compared: which drawings are entered, in order, and that no image is left with '
        'its `_drawing` flag up; non-trivial = the reference graph has a cycle through the root')
    logger = __import__('logging').getLogger('weasyprint')
    level = logger.level
    logger.setLevel(100)
    try:
        for _ in range(run.n(300, 3000)):
            n = run.rng.randrange(1, 6)
            refs = [[run.rng.randrange(n) for _ in range(run.rng.choice([0, 1, 1, 2, 3]))] for _ in range(n)]
            fails = [run.rng.random() < 0.25 for _ in range(n)]
            root = run.rng.randrange(n)
            out = docs.outcome(lambda: run_svg_draw(root, refs, fails))
            seen, todo = set(), list(refs[root])
            while todo:
                node = todo.pop()
                if node not in seen:
                    seen.add(node)
                    todo.extend(refs[node])
            sec.add(sx.line('svgdraw', root, refs, fails), out, meta={'root': root, 'refs': refs, 'fails': fails},
                    nontrivial=root in seen, tags=['cycle' if root in seen else 'acyclic',
                                                   'fails' if any(fails) else 'no-failure'])
    finally:
        logger.setLevel(level)


# ---------------------------------------------------------------------------------------------- write_pdf sinks

SINK_HTML = ('<style>@page{size:40px;margin:0}body{font-family:weasyprint;font-size:10px;margin:0}</style>'
             '<title>t</title><p>ab</p>')


class SinkRecorder:
    """Records what Document.write_pdf does around `pdf.write`: the real method runs with `pydyf.PDF.write`,
    `document.open` and (optionally) `document.generate_pdf` wrapped."""

    def __init__(self, stub_generate):
        self.stub_generate = stub_generate

    def run(self, document, options, finisher, target_kind):
        import pydyf
        from weasyprint import document as document_module
        events = []
        original_write = pydyf.PDF.write
        original_generate = document_module.generate_pdf
        state = {'target': None, 'opened': None}

        def show(value):
            if value is None:
                return 'none'
            if value is True or value is False:
                return str(value).lower()
            if isinstance(value, bytes):
                return 'b:' + value.decode() if value else 'empty'
            return value if value != '' else 'empty'

        def write(pdf, output, version=b'1.7', identifier=False, compress=False):
            if output is state['target']:
                sink = 'target'
            elif state['opened'] is not None and output is state['opened']:
                sink = 'file'
            elif isinstance(output, io.BytesIO):
                sink = 'bytesio'
            else:
                sink = '?'
            events.append(f'write({sink},{show(version)},{show(identifier)},{str(bool(compress)).lower()})')
            if compress is not True and compress is not False:
                events.append('compress-not-bool')
            return original_write(pdf, output, version, identifier, compress)

        def generate(doc, target, zoom, **opts):
            events.append(f'generate({show(opts["pdf_variant"])})')
            if self.stub_generate:
                pdf = pydyf.PDF()
                pdf.add_page(pydyf.Dictionary({'Type': '/Page', 'Parent': pdf.pages.reference,
                                               'MediaBox': pydyf.Array([0, 0, 1, 1])}))
                return pdf
            return original_generate(doc, target, zoom, **opts)

        class Opened:
            def __init__(self, handle):
                self.handle = handle

            def __enter__(self):
                state['opened'] = self.handle.__enter__()
                return state['opened']

            def __exit__(self, *args):
                events.append('close')
                return self.handle.__exit__(*args)

        def recording_open(path, mode='r', *args, **kwargs):
            events.append('open' if mode == 'wb' else f'open-{mode}')
            return Opened(open(path, mode, *args, **kwargs))

        def fin(doc, pdf):
            events.append('finisher')

        folder = None
        if target_kind == 'none':
            target = None
        elif target_kind == 'fileobj':
            target = state['target'] = io.BytesIO()
        else:
            folder = tempfile.mkdtemp(prefix='c19sink')
            target = os.path.join(folder, 'out.pdf')
        pydyf.PDF.write = write
        document_module.generate_pdf = generate
        document_module.open = recording_open
        data = None
        try:
            result = document.write_pdf(target, 1, fin if finisher else None, **options)
            events.append('return-bytes' if isinstance(result, bytes) else
                          'return-none' if result is None else f'return-{type(result).__name__}')
            if target_kind == 'none':
                data = result
            elif target_kind == 'fileobj':
                data = target.getvalue()
            else:
                data = Path(target).read_bytes()
        except Exception as exc:  # noqa: BLE001
            return f'err:{type(exc).__name__}', None
        finally:
            pydyf.PDF.write = original_write
            document_module.generate_pdf = original_generate
            del document_module.open
            if folder is not None:
                for child in Path(folder).iterdir():
                    child.unlink()
                Path(folder).rmdir()
        return ' '.join(events), data


def wire_sink_options(options):
    def text(value):
        return 'none' if value is None else ('empty' if value == '' else value)
    identifier = options['pdf_identifier']
    if identifier is None:
        ident = 'none'
    elif identifier is True or identifier is False:
        ident = identifier
    elif identifier == b'':
        ident = 'empty'
    else:
        ident = ['b', identifier.decode()]
    return [text(options['pdf_variant']), text(options['pdf_version']), ident, options['uncompressed_pdf']]


def section_sinks(run):
    from weasyprint.pdf import VARIANTS
    document = docs.render(SINK_HTML)
    sec = run.section(
        'write-sinks',
        'real Document.write_pdf with recording pydyf.PDF.write / open / finisher: every combination of pdf_variant '
        '(None, "", the 9 variants, an unknown one) x pdf_version x pdf_identifier x uncompressed_pdf x finisher x the '
        'three target kinds (generate_pdf stubbed), and a sample with the real generate_pdf; non-trivial = a variant '
        'that supplies a default is used')
    variants = [None, ''] + list(VARIANTS) + ['pdf/x-bogus']
    versions = [None, '', '1.4', '2.0']
    identifiers = [None, False, True, b'', b'abc']
    combos = list(itertools.product(variants, versions, identifiers, (False, True), (False, True),
                                    ('none', 'fileobj', 'path')))
    stub = SinkRecorder(True)
    for variant, version, identifier, uncompressed, finisher, target in combos:
        options = {'pdf_variant': variant, 'pdf_version': version, 'pdf_identifier': identifier,
                   'uncompressed_pdf': uncompressed}
        out, _ = stub.run(document, options, finisher, target)
        sec.add(sx.line('sinks', wire_sink_options(options), finisher, target), out,
                meta={'options': repr(options), 'finisher': finisher, 'target': target, 'stub': True},
                nontrivial=bool(variant) and variant in VARIANTS and bool(VARIANTS[variant][1]),
                tags=[target, 'variant' if variant else 'no-variant'] + (['error-' + out[4:]] if out.startswith('err:') else []))
    real = SinkRecorder(False)
    sec2 = run.section(
        'three-sinks-bytes (validation)',
        'the bytes returned, written to a file object and written to a path by the unstubbed write_pdf are identical '
        '(the driver echoes the digest of the returned bytes)')
    for variant, version, identifier, uncompressed, finisher, _ in run.rng.sample(combos, run.n(40, 400)):
        if variant == 'pdf/x-bogus':
            continue
        options = {'pdf_variant': variant, 'pdf_version': version, 'pdf_identifier': identifier,
                   'uncompressed_pdf': uncompressed}
        digests = {}
        for target in ('none', 'fileobj', 'path'):
            out, data = real.run(document, options, finisher, target)
            sec.add(sx.line('sinks', wire_sink_options(options), finisher, target), out,
                    meta={'options': repr(options), 'finisher': finisher, 'target': target, 'stub': False},
                    nontrivial=bool(variant), tags=[target, 'real-generate'])
            digests[target] = hashlib.md5(data).hexdigest() if data is not None else out
        for target in ('fileobj', 'path'):
            sec2.add(sx.line('echo', digests['none']), digests[target],
                     meta={'options': repr(options), 'finisher': finisher, 'target': target, 'validation': 'three-sinks'},
                     tags=[target])


# ---------------------------------------------------------------------------------------------- render state

RENDER_HTML = ('<style>@page{size:60px 40px;margin:0}body{font-family:weasyprint;font-size:10px;margin:0}'
               '@counter-style cs{system:cyclic;symbols:x}</style><ol><li>a</li></ol>')


_RECORDING_COUNTER = []


def recording_counter_style():
    """A subclass of the real CounterStyle that reports the first `counter_style[key] = value` made while
    get_all_computed_styles runs (also on objects handed in by the caller)."""
    if not _RECORDING_COUNTER:
        from weasyprint.css.counters import CounterStyle

        class RecordingCounterStyle(CounterStyle):
            sink = None          # the event list of the render in progress, while inside get_all_computed_styles
            reported = None      # ids already reported for this render

            def __setitem__(self, key, value):
                cls = RecordingCounterStyle
                if cls.sink is not None and id(self) not in cls.reported:
                    cls.reported.add(id(self))
                    cls.sink.append('write:counter_style')
                super().__setitem__(key, value)
        _RECORDING_COUNTER.append(RecordingCounterStyle)
    return _RECORDING_COUNTER[0]


RENDER_HTML_FONT = RENDER_HTML.replace('<style>', '<style>@font-face{font-family:fx;src:url(weasyprint.otf)}')


class RenderRecorder:
    """HTML.render with the constructors used by Document._render / _build_layout_context / get_all_computed_styles
    wrapped; objects are labelled c<k> (handed in by the caller), n<j> (created by render number j), ? (anything
    else: state that leaked in from somewhere)."""

    def __init__(self):
        self.created = []      # per render: list of objects
        self.callers = {}      # id -> label

    def caller(self, obj, number):
        self.callers[id(obj)] = f'c{number}'
        self._keep = getattr(self, '_keep', []) + [obj]
        return obj

    def label(self, obj):
        if id(obj) in self.callers:
            return self.callers[id(obj)]
        for j, objects in enumerate(self.created):
            if any(obj is o for o in objects):
                return f'n{j}'
        return '?'

    def render(self, html, font_config, counter_style, options):
        import weasyprint
        from weasyprint import css as css_module
        from weasyprint import document as document_module
        events = []
        mine = []
        self.created.append(mine)
        seen = {}
        saved = {}

        def patch(module, name, replacement):
            saved[(module, name)] = getattr(module, name)
            setattr(module, name, replacement)

        def constructor(module, name, tag):
            original = getattr(module, name)

            def build(*args, **kwargs):
                obj = original(*args, **kwargs)
                events.append(f'new:{tag}')
                mine.append(obj)
                return obj
            patch(module, name, build)
            return original

        constructor(document_module, 'FontConfiguration', 'FontConfiguration')
        counter_class = recording_counter_style()

        def new_counter(*args, **kwargs):
            obj = counter_class(*args, **kwargs)
            events.append('new:CounterStyle')
            mine.append(obj)
            return obj
        patch(document_module, 'CounterStyle', new_counter)
        constructor(document_module, 'TargetCollector', 'TargetCollector')
        # DiskCache is also used in an isinstance test: keep the class, wrap its __init__
        original_disk = document_module.DiskCache
        original_disk_init = original_disk.__init__

        def disk_init(inner, *args, **kwargs):
            original_disk_init(inner, *args, **kwargs)
            events.append('new:DiskCache')
            mine.append(inner)
        patch(original_disk, '__init__', disk_init)
        constructor(document_module, 'CSS', 'CSS')
        constructor(document_module, 'DocumentMetadata', 'DocumentMetadata')
        original_context = document_module.LayoutContext
        original_styles = document_module.get_all_computed_styles
        original_style_for = css_module.StyleFor
        original_partial = document_module.functools.partial

        def style_for(*args, **kwargs):
            obj = original_style_for(*args, **kwargs)
            events.append('new:StyleFor')
            mine.append(obj)
            return obj
        patch(css_module, 'StyleFor', style_for)

        def styles(html_, user_stylesheets, hints, font_config_, counter_style_, page_rules, collector, forms):
            # objects made by plain literals show up here for the first time
            cache = seen.get('cache')
            if page_rules == [] and self.label(page_rules) == '?':
                mine.append(page_rules)
                position = events.index('new:TargetCollector') + 1 if 'new:TargetCollector' in events else len(events)
                events.insert(position, 'new:page_rules')
            seen['sheets'] = list(user_stylesheets)
            counter_class.sink, counter_class.reported = events, set()
            font_class = type(font_config_)
            original_add = font_class.add_font_face
            written = []

            def add_font_face(inner, *args, **kwargs):
                if not written:
                    written.append(inner)
                    events.append('write:font_config' if inner is font_config_ else 'write:other-font_config')
                return original_add(inner, *args, **kwargs)
            font_class.add_font_face = add_font_face
            try:
                return original_styles(html_, user_stylesheets, hints, font_config_, counter_style_, page_rules,
                                       collector, forms)
            finally:
                counter_class.sink = None
                font_class.add_font_face = original_add
        patch(document_module, 'get_all_computed_styles', styles)

        class Functools:
            @staticmethod
            def partial(function, *args, **kwargs):
                cache = kwargs.get('cache')
                if isinstance(cache, dict) and not isinstance(cache, original_disk) and self.label(cache) == '?':
                    # `cache = {}`: a literal, first seen here; it precedes the user stylesheets
                    mine.append(cache)
                    anchors_ = [i for i, e in enumerate(events) if e in ('new:TargetCollector', 'new:page_rules')]
                    events.insert(max(anchors_) + 1 if anchors_ else len(events), 'new:dict')
                obj = original_partial(function, *args, **kwargs)
                events.append('new:partial')
                mine.append(obj)
                seen['partial'] = obj
                return obj
        patch(document_module, 'functools', Functools)

        def context(*args, **kwargs):
            obj = original_context(*args, **kwargs)
            events.append('new:LayoutContext')
            mine.append(obj)
            seen['context'] = obj
            return obj
        patch(document_module, 'LayoutContext', context)

        ua_counter = weasyprint.HTML._ua_counter_style
        ua_sheets = weasyprint.HTML._ua_stylesheets

        def ua_counter_style(html_):
            events.append('read:HTML5_UA_COUNTER_STYLE')
            result = ua_counter(html_)
            from weasyprint.html import HTML5_UA_COUNTER_STYLE
            if len(result) == 1 and result[0] is not HTML5_UA_COUNTER_STYLE and result[0] == HTML5_UA_COUNTER_STYLE:
                events.append('new:ua_counter_style_copy')
                mine.extend(result)
            else:
                events.append('ua-counter-style-shared')
            return result

        def ua_stylesheets(html_, forms=False):
            events.append('read:HTML5_UA_STYLESHEET')
            return ua_sheets(html_, forms)
        patch(weasyprint.HTML, '_ua_counter_style', ua_counter_style)
        patch(weasyprint.HTML, '_ua_stylesheets', ua_stylesheets)

        class Defaults(dict):
            def copy(inner):
                events.append('read:DEFAULT_OPTIONS')
                result = dict(inner)
                events.append('new:options')
                mine.append(result)
                return result
        patch(weasyprint, 'DEFAULT_OPTIONS', Defaults(weasyprint.DEFAULT_OPTIONS))
        try:
            document = html.render(font_config, counter_style, **options)
        finally:
            for (module, name), value in saved.items():
                setattr(module, name, value)
        events.append('new:Document')
        mine.append(document)
        context_obj = seen['context']
        cache = seen['partial'].keywords['cache']
        fields = {
            'font': context_obj.font_config, 'counter': context_obj.counter_style, 'cache': cache,
            'collector': context_obj.target_collector, 'stylefor': context_obj.style_for, 'context': context_obj}
        tail = ' '.join(f'{name}={self.label(obj)}' for name, obj in fields.items())
        tail += ' sheets=' + ','.join(self.label(sheet) for sheet in seen['sheets'])
        tail += f' document={self.label(document)}'
        if document.font_config is not context_obj.font_config:
            tail += ' document-font-differs'
        # every container the LayoutContext holds (instance or class attribute: caches, lists of pending boxes, …)
        # must be this render's own: the very object held by the context of an earlier render is shared state
        index = len(self.created) - 1
        held = getattr(self, '_containers', {})
        shared = []
        for name in dir(context_obj):
            if name.startswith('__'):
                continue
            try:
                value = getattr(context_obj, name)
            except Exception:  # noqa: BLE001
                continue
            if not isinstance(value, (dict, list, set)) or self.label(value).startswith('c'):
                continue
            owner = held.get(id(value))
            if owner is not None and owner[0] != index and owner[1] is value:
                shared.append(name)
            held.setdefault(id(value), (index, value))
        self._containers = held
        tail += ' shared=' + ','.join(sorted(shared))
        return ' '.join(events) + ' => ' + tail


def gen_render_history(rng):
    """A history of 1..4 renders as wire data: [font, counter, cache, sheets] per render; objects handed in by the
    caller are numbered (the same number = the same object, shared between renders)."""
    number = [0]
    shared = {}

    def pick(kind):
        roll = rng.random()
        if roll < 0.35:
            return 'none'
        if roll < 0.6 and kind in shared:
            return shared[kind]
        number[0] += 1
        shared[kind] = number[0]
        return number[0]
    wire = []
    for _ in range(rng.randrange(1, 5)):
        font, counter = pick('font'), pick('counter')
        roll = rng.random()
        if roll < 0.3:
            cache = 'none'
        elif roll < 0.6:
            k = pick('dict')
            cache = 'none' if k == 'none' else ['dict', k]
        elif roll < 0.8:
            k = pick('disk')
            cache = 'none' if k == 'none' else ['disk', k]
        else:
            cache = 'folder'
        if rng.random() < 0.4:
            sheets = 'none'
        else:
            sheets = []
            for _ in range(rng.randrange(0, 4)):
                if rng.random() < 0.5:
                    sheets.append('raw')
                else:
                    k = pick('css')
                    if k != 'none':
                        sheets.append(['css', k])
        wire.append([font, counter, cache, sheets, rng.random() < 0.3])
    return wire


def run_render_history(wire):
    """Execute a wire history on the real HTML.render with recording constructors -> the line `renders` prints."""
    from weasyprint import CSS, HTML
    from weasyprint.document import DiskCache
    from weasyprint.text.fonts import FontConfiguration
    VHTML, base_url, _ = docs._env()
    recorder = RenderRecorder()
    folders = []
    raw_folder = tempfile.mkdtemp(prefix='c19css')
    raw_sheet = os.path.join(raw_folder, 'user.css')
    Path(raw_sheet).write_text('p{color:red}')
    objects = {}

    def obj(number, make):
        if number not in objects:
            objects[number] = recorder.caller(make(), number)
        return objects[number]

    def folder():
        folders.append(tempfile.mkdtemp(prefix='c19rs'))
        return folders[-1]
    html_objects = {False: VHTML(string=RENDER_HTML, base_url=base_url),
                    True: VHTML(string=RENDER_HTML_FONT, base_url=base_url)}
    outs = []
    try:
        for font_wire, counter_wire, cache_wire, sheets_wire, font_faces in wire:
            html_object = html_objects[font_faces]
            font = None if font_wire == 'none' else obj(font_wire, FontConfiguration)
            counter = None if counter_wire == 'none' else obj(counter_wire, recording_counter_style())
            if cache_wire == 'none':
                cache = None
            elif cache_wire == 'folder':
                cache = folder()
            elif cache_wire[0] == 'dict':
                cache = obj(cache_wire[1], dict)
            else:
                cache = obj(cache_wire[1], lambda: DiskCache(folder()))
            if sheets_wire == 'none':
                sheets = None
            else:
                # a raw entry is not a CSS object: `CSS(guess=…)`
                sheets = [raw_sheet if sheet == 'raw' else obj(sheet[1], lambda: CSS(string='p{margin:0}'))
                          for sheet in sheets_wire]
            # docs' HTML subclass pins its own font configuration: call the real method of HTML
            original_render = VHTML.render
            VHTML.render = HTML.render
            try:
                outs.append(recorder.render(html_object, font, counter, {'cache': cache, 'stylesheets': sheets}))
            except Exception as exc:  # noqa: BLE001
                outs.append(f'err:{type(exc).__name__}')
            finally:
                VHTML.render = original_render
    finally:
        recorder.created.clear()
        objects.clear()
        del recorder
        for name in folders + [raw_folder]:
            for child in Path(name).glob('*'):
                child.unlink()
            if Path(name).exists():
                Path(name).rmdir()
    return ' || '.join(outs)


def section_render_state(run):
    sec = run.section(
        'render-state',
        'histories of 1..4 real HTML.render calls with recording constructors: font_config / counter_style / cache '
        '(None, dict, DiskCache, folder) / stylesheets (CSS objects, raw files) given or not, shared or fresh; '
        'compared: the creation / read / write events of every render, the owner (caller, this render, an earlier '
        'render) of everything its LayoutContext holds, and the container attributes (instance or class level) of the '
        'context that are the very objects of an earlier render\'s context; non-trivial = at least two renders')
    for _ in range(run.n(40, 400)):
        wire = gen_render_history(run.rng)
        tags = [f'renders{len(wire)}']
        tags += ['font-faces'] if any(w[4] for w in wire) else []
        tags += ['caller-cache'] if any(isinstance(w[2], list) for w in wire) else []
        tags += ['folder-cache'] if any(w[2] == 'folder' for w in wire) else []
        tags += ['raw-sheet'] if any(isinstance(w[3], list) and 'raw' in w[3] for w in wire) else []
        sec.add(sx.line('renders', *wire), run_render_history(wire), meta={'history': wire},
                nontrivial=len(wire) >= 2, tags=tags)


# ---------------------------------------------------------------------------------------------- history (validation)

IMAGE_OPTION_SETS = [{}, {}, {'jpeg_quality': 40, 'optimize_images': True}, {'dpi': 60}, {'jpeg_quality': 5}]
BASE_OPTION_SETS = [{}, {}, {'presentational_hints': True}, {'pdf_variant': 'pdf/a-3b'}, {'pdf_variant': 'pdf/ua-1'},
                    {'uncompressed_pdf': True}, {'full_fonts': True}, {'srgb': True, 'custom_metadata': True}]


def run_child(jobs, hashseed, order):
    """Render `jobs` (in the given order) in a fresh interpreter with another hash seed -> results by job index."""
    from harness import c19_history
    with tempfile.NamedTemporaryFile('w', suffix='.json', delete=False) as handle:
        json.dump([jobs[i] for i in order], handle)
        path = handle.name
    env = dict(os.environ, PYTHONHASHSEED=str(hashseed), SOURCE_DATE_EPOCH=c19_history.EPOCH)
    try:
        proc = subprocess.run([sys.executable, str(HERE.parent / 'harness' / 'c19_history.py'), path],
                              capture_output=True, text=True, env=env, timeout=900)
    finally:
        os.unlink(path)
    if proc.returncode != 0:
        raise RuntimeError('history child failed: ' + proc.stderr[-800:])
    results = json.loads(proc.stdout)['results']
    return {index: result for index, result in zip(order, results)}


def run_children(jobs, hashseeds, rng=None):
    """The same jobs in several fresh interpreters at once, one per hash seed (each in its own job order when `rng`
    is given) -> [(hashseed, results by job index)]."""
    from harness import c19_history
    hashseeds = list(hashseeds)
    if len(hashseeds) > 4:      # at most four interpreters at a time
        return run_children(jobs, hashseeds[:4], rng) + run_children(jobs, hashseeds[4:], rng)
    started = []
    for hashseed in hashseeds:
        order = list(range(len(jobs)))
        if rng is not None:
            rng.shuffle(order)
        with tempfile.NamedTemporaryFile('w', suffix='.json', delete=False) as handle:
            json.dump([jobs[i] for i in order], handle)
        env = dict(os.environ, PYTHONHASHSEED=str(hashseed), SOURCE_DATE_EPOCH=c19_history.EPOCH)
        proc = subprocess.Popen([sys.executable, str(HERE.parent / 'harness' / 'c19_history.py'), handle.name],
                                stdout=subprocess.PIPE, stderr=subprocess.PIPE, text=True, env=env)
        started.append((hashseed, order, handle.name, proc))
    out = []
    failure = None
    for hashseed, order, path, proc in started:
        try:
            stdout, stderr = proc.communicate(timeout=900)
        finally:
            os.unlink(path)
        if proc.returncode != 0:
            failure = failure or ('history child failed: ' + stderr[-800:])
            continue
        results = json.loads(stdout)['results']
        out.append((hashseed, {index: result for index, result in zip(order, results)}))
    if failure:
        raise RuntimeError(failure)
    return out


def hashseed_clause(job, hashseeds=(0, 1, 2, 3, 5, 8, 13, 4242)):
    """C19 'in a fresh process with a different hash seed … the same layout and a byte-identical PDF', stated on the
    implementation for one job: several fresh interpreters, one per PYTHONHASHSEED, must agree."""
    results = run_children([job], hashseeds)
    signatures = {hashseed: history_signature(result[0]) for hashseed, result in results}
    if len(set(signatures.values())) > 1:
        return f'fresh processes disagree on the same input, by PYTHONHASHSEED: {signatures}'
    return None


def make_history_jobs(rng, count):
    from harness import c19_history
    jobs = []
    for number in range(count):
        stateful = c19_history.STATEFUL_FEATURES
        html, features = c19_history.gen_rich_doc(rng, force=[stateful[number]] if number < len(stateful) else ())
        options = dict(rng.choice(BASE_OPTION_SETS))
        image_set = rng.randrange(len(IMAGE_OPTION_SETS))
        options.update(IMAGE_OPTION_SETS[image_set])
        css = rng.choice(c19_history.USER_SHEETS)
        if 'decorations' in features:
            # the rules the nested decorations of the document come from: a CSS object shared between renders
            css = c19_history.DECORATION_SHEET + (css or '')
        jobs.append({'html': html, 'css': css, 'options': options,
                     'zoom': rng.choice([1, 1, 0.5, 2, 1.25, 0.1, 10, 3.3]), 'features': features,
                     'raw_css': rng.random() < 0.3,
                     'image_set': image_set})
    return jobs + make_special_jobs(rng, count)


def make_special_jobs(rng, count):
    """Jobs outside the test environment's fixed fonts / UA sheet:
    * `real_ua`: the plain weasyprint.HTML, i.e. the module-level UA style sheets every render of the process shares;
    * `fresh_env_only` pairs: the same font style, the family bound by @font-face in one document only - only ever
      rendered with a font configuration of their own (with a shared one the second differs by the known finding
      font-config-accumulates-font-faces)."""
    from harness import c19_history
    jobs = []
    for number in range(2 if count <= 10 else 6):
        jobs.append({'html': c19_history.gen_ua_doc(rng, flip=number % 2 == 1), 'css': rng.choice([None, c19_history.DECORATION_SHEET]),
                     'options': {}, 'zoom': 1, 'features': ['real-ua'], 'raw_css': False, 'image_set': 0,
                     'real_ua': True})
    for number in range(1 if count <= 10 else 3):
        for html in c19_history.gen_binding_pair(rng, number):
            jobs.append({'html': html, 'css': None, 'options': {}, 'zoom': 1, 'features': ['font-binding'],
                         'raw_css': False, 'image_set': 0, 'fresh_env_only': True, 'pair': number})
    # one family: rendered in sequences that share ONE CounterStyle object and one image cache (section_sequences)
    for number in range(1 if count <= 10 else 2):
        documents = c19_history.gen_counter_family(rng, number)
        for html in (documents[:2] if count <= 10 else documents):
            jobs.append({'html': html, 'css': None, 'options': {}, 'zoom': 1, 'features': ['counter-extends'],
                         'raw_css': False, 'image_set': 0, 'shared_objects': number})
    return jobs


def history_signature(result):
    if 'error' in result:
        return 'error:' + result['error'].split(':')[0]
    return f'{result["pages"]}p:{result["layout"]}:{result["pdf"]}:{result["pdf_copy"]}'


def section_history(run):
    from harness import c19_history
    from weasyprint.css.counters import CounterStyle
    from weasyprint.document import DiskCache
    sec = run.section(
        'history (validation)',
        'SEARCH/VALIDATION, not a model correspondence: random documents (lists, tables, flex, grid, floats, images, '
        'target-counter, running strings, footnotes, columns, quotes, counter styles, inline <svg> and SVG images with '
        '<use x y> / inherited presentation attributes / gradients / clip paths / markers, text with two or three '
        'decoration lines, …; every job pool holds each of the state-carrying features) rendered (a) in 6 / 15 fresh '
        'processes at once, each under its own PYTHONHASHSEED and job order, (b) twice from one HTML object, each '
        'Document written twice, (c) in histories of 2..6 '
        'renders that share or do not share the HTML object, CSS objects, the font configuration, the image cache '
        '(dict / DiskCache), the counter style; each render is compared (page count, layout fingerprint, PDF bytes with '
        'fixed identifier and SOURCE_DATE_EPOCH) with the same job rendered alone-in-order in a FRESH PROCESS under '
        'another PYTHONHASHSEED; caller-owned objects are deep-snapshotted before / after; the driver only echoes the '
        'reference; non-trivial = the render is not the first of its history')
    jobs = make_history_jobs(run.rng, run.n(8, 50))
    # set / dict iteration order differs between hash seeds with probability ~1/2 per pair: 6 (15) fresh processes,
    # four at a time, each with its own seed and its own job order (the static side of the same question is
    # Gen.Purity.orderSites; `search` asks 8 more seeds)
    seeds = [run.rng.randrange(1, 2 ** 31) for _ in range(run.n(3, 12))] + [0, 1, 4242]
    references = run_children(jobs, seeds, run.rng)
    reference = references[0][1]
    nonce = [0]
    # fixed sequences of the jobs that use process-wide objects, against each job ALONE in a process (first: their
    # disagreements name the history that makes a render differ)
    section_sequences(run, sec, jobs, nonce)
    # no write that follows another write of the same Document (the copy after the document) raises
    for index, job in enumerate(jobs):
        for field in ('pdf', 'pdf_copy'):
            value = str(reference[index].get(field, ''))
            nonce[0] += 1
            sec.add(sx.line('echo', 'written', nonce[0]), value if value.startswith('error-after') else 'written',
                    meta={'validation': 'later-write', 'job': job, 'how': {'field': field, 'fresh_process': True}},
                    nontrivial=True, tags=['later-write'])
    # the fresh processes agree with each other
    for hashseed, other in references[1:]:
        for index in range(len(jobs)):
            nonce[0] += 1
            sec.add(sx.line('echo', history_signature(reference[index]), nonce[0]), history_signature(other[index]),
                    meta={'validation': 'process', 'job': jobs[index], 'hashseed': hashseed,
                          'reference_hashseed': references[0][0]}, nontrivial=True, tags=['process-vs-process'])
    # every job twice from ONE HTML object (and each Document written twice), in an environment of its own
    stateful = len(c19_history.STATEFUL_FEATURES)
    for index, job in enumerate(jobs):
        if not run.thorough and index > stateful:      # quick: the jobs with state-carrying features and one more
            break
        env = c19_history.fresh_env()
        html = c19_history.make_html(env, job['html'], job.get('real_ua', False))
        sheets = c19_history.make_sheets(env, job)
        for attempt in range(2):
            write_twice = 'dpi' not in job['options']
            try:
                result = c19_history.run_job(job, env=env, html=html, sheets=sheets, write_twice=write_twice)
            except Exception as exc:  # noqa: BLE001
                result = {'error': f'{type(exc).__name__}: {exc}'}
            how = {'same_html_object': True, 'attempt': attempt, 'write_twice': write_twice}
            nonce[0] += 1
            sec.add(sx.line('echo', history_signature(reference[index]), nonce[0]), history_signature(result),
                    meta={'validation': 'history', 'job': job, 'how': how}, nontrivial=attempt > 0,
                    tags=['same-html-object', f'attempt{attempt}'])
            if 'error' not in result:
                sec.add(sx.line('echo', 'unchanged', nonce[0]),
                        'mutated:' + ','.join(result['mutated']) if result['mutated'] else 'unchanged',
                        meta={'validation': 'mutation', 'job': job, 'how': how}, nontrivial=True, tags=['snapshot'])
                if write_twice:
                    sec.add(sx.line('echo', result['pdf'], nonce[0]), result['pdf_again'],
                            meta={'validation': 'write-twice', 'job': job, 'how': how}, nontrivial=True,
                            tags=['write-twice'])
    for _ in range(run.n(6, 80)):
        length = run.rng.randrange(2, run.n(6, 7))
        share_env = run.rng.random() < 0.6
        env = c19_history.fresh_env() if share_env else None
        cache_kind = run.rng.choice(['none', 'dict', 'dict', 'disk'])
        folder = tempfile.mkdtemp(prefix='c19hist') if cache_kind == 'disk' else None
        cache = {} if cache_kind == 'dict' else DiskCache(folder) if cache_kind == 'disk' else None
        counter_style = CounterStyle() if run.rng.random() < 0.3 else None
        html_objects, sheet_objects = {}, {}
        steps = []
        for step in range(length):
            if steps and run.rng.random() < 0.4:
                index = run.rng.choice(steps)
            else:
                index = run.rng.randrange(len(jobs))
            job = jobs[index]
            step_cache = cache
            if cache is not None and 'dpi' in job['options']:
                # the cache is shared by renders with different image options (the key holds them since bca20a5),
                # but never by renders with `dpi` (known finding dpi-thumbnail-replaces-source)
                step_cache = None
            own_env = env is None or job.get('fresh_env_only', False)
            step_env = c19_history.fresh_env() if own_env else env
            key = (index, id(step_env))
            reuse_html = run.rng.random() < 0.6 and not job.get('fresh_env_only', False)
            html = html_objects.get(key) if reuse_html else None
            if html is None:
                html = c19_history.make_html(step_env, job['html'], job.get('real_ua', False))
                html_objects[key] = html
            sheets = sheet_objects.get(key) if run.rng.random() < 0.6 and not job.get('fresh_env_only') else None
            if sheets is None:
                sheets = c19_history.make_sheets(step_env, job)
                sheet_objects[key] = sheets
            write_twice = run.rng.random() < 0.3 and 'dpi' not in job['options']
            # with `dpi` the first write changes the images of the document (known finding): keep the child's order
            copy_first = run.rng.random() < 0.5 and 'dpi' not in job['options']
            try:
                result = c19_history.run_job(job, env=step_env, html=html, sheets=sheets, cache=step_cache,
                                             counter_style=counter_style, write_twice=write_twice,
                                             copy_first=copy_first)
            except Exception as exc:  # noqa: BLE001
                result = {'error': f'{type(exc).__name__}: {exc}'}
            how = {'step': step, 'share_env': share_env and not own_env, 'copy_first': copy_first, 'write_twice': write_twice, 'cache': cache_kind if step_cache is not None else 'none',
                   'counter_style': counter_style is not None, 'repeat': index in steps,
                   'reuse_html': reuse_html and key in html_objects}
            tags = [f'step{step}', 'shared-font-config' if share_env else 'fresh-font-config',
                    f'cache-{how["cache"]}'] + (['repeat-job'] if index in steps else [])
            nonce[0] += 1
            sec.add(sx.line('echo', history_signature(reference[index]), nonce[0]), history_signature(result),
                    meta={'validation': 'history', 'job': job, 'how': how, 'history': list(steps) + [index]},
                    nontrivial=step > 0, tags=tags)
            if 'error' not in result:
                sec.add(sx.line('echo', 'unchanged', nonce[0]), 'mutated:' + ','.join(result['mutated']) if result['mutated']
                        else 'unchanged', meta={'validation': 'mutation', 'job': job, 'how': how}, nontrivial=step > 0,
                        tags=['snapshot'])
                if write_twice:
                    sec.add(sx.line('echo', result['pdf'], nonce[0]), result['pdf_again'],
                            meta={'validation': 'write-twice', 'job': job, 'how': how}, nontrivial=True,
                            tags=['write-twice'])
            steps.append(index)
        del cache
        if folder is not None:
            for child in Path(folder).glob('*'):
                child.unlink()
            if Path(folder).exists():
                Path(folder).rmdir()
    # every order of three jobs in one shared environment (font configuration, image cache): the result of a job must
    # not depend on which jobs ran before it
    plain = [i for i, job in enumerate(jobs) if 'dpi' not in job['options'] and not job.get('fresh_env_only')]
    for _ in range(run.n(1, 8)):
        if len(plain) < 3:
            break
        triple = run.rng.sample(plain, 3)
        orders = list(itertools.permutations(triple)) if run.thorough else [tuple(triple), tuple(reversed(triple))]
        for order in orders:
            env, cache = c19_history.fresh_env(), {}
            for position, index in enumerate(order):
                job = jobs[index]
                try:
                    result = c19_history.run_job(job, env=env, cache=cache)
                except Exception as exc:  # noqa: BLE001
                    result = {'error': f'{type(exc).__name__}: {exc}'}
                nonce[0] += 1
                mixed = len({jobs[i]['image_set'] for i in order}) > 1
                sec.add(sx.line('echo', history_signature(reference[index]), nonce[0]), history_signature(result),
                        meta={'validation': 'history', 'job': job,
                              'how': {'order': list(order), 'position': position, 'mixed_image_options': mixed}},
                        nontrivial=position > 0, tags=['permutation'])


def run_alone(jobs, hashseed=7):
    """Every job ALONE in a fresh interpreter of its own (at most four at a time) -> results in job order."""
    out = []
    for start in range(0, len(jobs), 4):
        chunk = jobs[start:start + 4]
        started = []
        for job in chunk:
            with tempfile.NamedTemporaryFile('w', suffix='.json', delete=False) as handle:
                json.dump([job], handle)
            from harness import c19_history
            env = dict(os.environ, PYTHONHASHSEED=str(hashseed), SOURCE_DATE_EPOCH=c19_history.EPOCH)
            proc = subprocess.Popen([sys.executable, str(HERE.parent / 'harness' / 'c19_history.py'), handle.name],
                                    stdout=subprocess.PIPE, stderr=subprocess.PIPE, text=True, env=env)
            started.append((handle.name, proc))
        for path, proc in started:
            try:
                stdout, stderr = proc.communicate(timeout=900)
            finally:
                os.unlink(path)
            if proc.returncode != 0:
                raise RuntimeError('history child failed: ' + stderr[-800:])
            out.append(json.loads(stdout)['results'][0])
    return out


def sequence_clause(jobs, order, alone=None, share=False):
    """C19 'in the same process after any other renders': the jobs rendered one after the other in this process, each
    with an HTML object, CSS objects, font configuration and caches of its own, must each give what the job gives
    alone in a fresh process.  -> (text or None, [(position, job index, signature, reference signature)])"""
    from harness import c19_history
    alone = alone if alone is not None else run_alone(jobs)
    rows = []
    what = None
    shared = {}
    if share:
        # objects the API lets a caller hand to several renders: one CounterStyle, one image cache
        from weasyprint.css.counters import CounterStyle
        shared = {'counter_style': CounterStyle(), 'cache': {}}
    for position, index in enumerate(order):
        try:
            result = c19_history.run_job(jobs[index], env=c19_history.fresh_env(), **shared)
        except Exception as exc:  # noqa: BLE001
            result = {'error': f'{type(exc).__name__}: {exc}'}
        got, want = history_signature(result), history_signature(alone[index])
        rows.append((position, index, got, want, result.get('mutated') or []))
        if what is None and got != want:
            objects = ('one CounterStyle object and one image cache shared by the renders of the sequence'
                       if share else 'new font configuration, new caches')
            what = (f'render {position} of the sequence {list(order)} (job {index}: new HTML object, {objects}) '
                    f'gives {got}, the same job alone in a fresh process {want}: the '
                    'result depends on the renders made before it in the process')
        elif what is None and result.get('mutated'):
            what = f'render {position} of the sequence {list(order)} modified the caller\'s {result["mutated"]}'
    return what, rows


def section_sequences(run, sec, jobs, nonce):
    """The special jobs (real UA sheet, font-binding pairs) in fixed sequences: forwards, backwards, repeated."""
    special = [job for job in jobs if job.get('real_ua') or job.get('fresh_env_only')]
    if not special:
        return
    alone = run_alone(special)
    n = len(special)
    orders = [list(range(n)), list(reversed(range(n)))]
    if run.thorough:
        orders.append([run.rng.randrange(n) for _ in range(2 * n)])
    for order in orders:
        _, rows = sequence_clause(special, order, alone)
        for position, index, got, want, mutated in rows:
            nonce[0] += 1
            meta = {'validation': 'sequence', 'jobs': special, 'order': order, 'position': position}
            sec.add(sx.line('echo', want, nonce[0]), got, meta=meta, nontrivial=position > 0,
                    tags=['sequence', 'real-ua' if special[index].get('real_ua') else 'font-binding'])
            sec.add(sx.line('echo', 'unchanged', nonce[0]), 'mutated:' + ','.join(mutated) if mutated else 'unchanged',
                    meta=dict(meta, validation='sequence-mutation'), nontrivial=True, tags=['snapshot'])
    # families rendered with caller-shared objects (one CounterStyle, one image cache for the whole sequence)
    for group in sorted({job['shared_objects'] for job in jobs if 'shared_objects' in job}):
        family = [job for job in jobs if job.get('shared_objects') == group]
        alone = run_alone(family)
        n = len(family)
        orders = [list(range(n)) + list(range(n)), list(reversed(range(n))) + [0]]
        for order in orders:
            _, rows = sequence_clause(family, order, alone, share=True)
            for position, index, got, want, mutated in rows:
                nonce[0] += 1
                meta = {'validation': 'sequence', 'jobs': family, 'order': order, 'position': position, 'share': True}
                sec.add(sx.line('echo', want, nonce[0]), got, meta=meta, nontrivial=position > 0,
                        tags=['sequence', 'shared-counter-style'])


# ---------------------------------------------------------------------------------------------- module state

def module_state_snapshot():
    """{(file, name): digest} of every process-lifetime object of the generated inventory (Gen.Purity.moduleObjects),
    C-library handles and the command line module excepted."""
    import importlib
    from harness import c19_history
    module_objects = purity_inventory.scan()[0]
    out = {}
    for rel, name, kind in module_objects:
        if rel in ('text/ffi.py', '__main__.py'):
            continue
        module_name = 'weasyprint.' + rel[:-3].replace('/', '.')
        if module_name.endswith('.__init__'):
            module_name = module_name[:-len('.__init__')]
        try:
            value = getattr(importlib.import_module(module_name), name)
        except Exception as exc:  # noqa: BLE001
            out[(rel, name)] = f'unreadable:{type(exc).__name__}'
            continue
        # depth 14 reaches the declaration values inside the matchers of the parsed UA style sheets
        out[(rel, name)] = hashlib.md5(c19_history.deep_fingerprint(value, depth=14).encode()).hexdigest()
    return out


def section_module_state(run, before):
    sec = run.section(
        'module-state (validation)',
        'SEARCH/VALIDATION: deep snapshot of every process-lifetime object of the generated inventory '
        '(Gen.Purity.moduleObjects: constant tables, import-time registries, UA style sheets and counter styles) taken '
        'before the first and after the last render of this run (thousands of renders, writes, copies, cache '
        'histories): nothing may have changed; the driver echoes `unchanged`')
    after = module_state_snapshot()
    for number, key in enumerate(sorted(set(before) | set(after))):
        same = before.get(key) == after.get(key)
        sec.add(sx.line('echo', 'unchanged', number), 'unchanged' if same else f'mutated:{key[0]}:{key[1]}',
                meta={'validation': 'module-state', 'object': list(key)}, nontrivial=True,
                tags=[key[0].split('/')[0]])


# ---------------------------------------------------------------------------------------------- property oracles

class ReaderError(Exception):
    """This harness cannot read back what was written (not an exception of the implementation)."""


def exact_tree(document, zoom, variant=None):
    data, pdf = _write_captured(document, float(zoom), pdf_variant=variant)     # implementation exceptions propagate
    try:
        return c19_pdf.exact_from_pdf(pdf, document, float(zoom) * 0.75), c19_pdf.parse_pdf(data)
    except Exception as exc:  # noqa: BLE001
        raise ReaderError(f'{type(exc).__name__}: {exc}')


def _close(a, b, exact):
    if exact:
        return a == b
    return abs(a - b) <= 1e-9 * max(1, abs(a), abs(b))


def zoom_clause(document, zoom, exact=True):
    """C19 'zoom scales every PDF coordinate uniformly', stated on the implementation: every layout-derived number of
    the PDF written at `zoom` is zoom x the number written at zoom 1 (BleedBox: while the 10pt cap is not reached,
    known finding bleedbox-cap-not-zoomed; beyond it TrimBox ⊆ BleedBox ⊆ MediaBox is required)."""
    zoom = Fraction(zoom)
    try:
        (pages1, names1, outlines1), text1 = exact_tree(document, 1)
        (pagesz, namesz, outlinesz), textz = exact_tree(document, zoom)
    except ReaderError:
        return None      # e.g. the PDF is not written uncompressed any more: no statement about coordinates possible
    except Exception as exc:  # noqa: BLE001
        return f'write_pdf raised {type(exc).__name__}: {exc}'
    # the two `cm` operators at the head of every page stream (written with 6 decimals)
    for number, (page1, pagez) in enumerate(zip(text1[0][1:], textz[0][1:])):
        for a, b in zip(page1[3][1:], pagez[3][1:]):
            try:
                a, b = Fraction(a), Fraction(b)
            except ValueError:
                return f'page {number}: unexpected page stream head {pagez[3]}'
            if abs(zoom * a - b) > Fraction(1, 10 ** 5) * max(1, abs(b), abs(zoom)):
                return f'page {number}: stream transform {pagez[3]} at zoom {zoom} is not zoom x {page1[3]}'
    if len(pages1) != len(pagesz) or len(names1) != len(namesz) or len(outlines1) != len(outlinesz):
        return 'zoom changed the number of pages / destinations / outline items'
    for number, (page1, pagez) in enumerate(zip(pages1[1:], pagesz[1:])):
        for item1, itemz in zip(page1, pagez):
            tag = item1[0]
            if tag == 'rect':
                if not all(_close(a, b, exact) for a, b in zip(item1[1:], itemz[1:])):
                    return f'page {number}: page_rectangle depends on zoom: {item1} vs {itemz}'
            elif tag == 'bleed':
                media1, trim1 = page1[0][1:], page1[1][1:]
                if zoom > 0 and not all(_close(zoom * a, b, exact) for a, b in zip(item1[1:], itemz[1:])):
                    return f'page {number}: BleedBox {itemz[1:]} at zoom {zoom} is not zoom x {item1[1:]}'
                mediaz, trimz = pagez[0][1:], pagez[1][1:]
                slack = 0 if exact else Fraction(1, 10 ** 6)
                inside = (mediaz[0] - slack <= itemz[1] <= trimz[0] + slack and
                          mediaz[1] - slack <= itemz[2] <= trimz[1] + slack and
                          trimz[2] - slack <= itemz[3] <= mediaz[2] + slack and
                          trimz[3] - slack <= itemz[4] <= mediaz[3] + slack)
                nonneg = (trim1[0] >= media1[0] and trim1[1] >= media1[1] and trim1[2] <= media1[2] and
                          trim1[3] <= media1[3])
                if zoom > 0 and nonneg and not inside:
                    return f'page {number}: BleedBox {itemz[1:]} not between TrimBox {trimz} and MediaBox {mediaz}'
            elif tag in ('media', 'trim'):
                if not all(_close(zoom * a, b, exact) for a, b in zip(item1[1:], itemz[1:])):
                    return f'page {number}: {tag} box {itemz[1:]} at zoom {zoom} is not zoom x {item1[1:]}'
            elif tag == 'annots':
                if len(item1) != len(itemz):
                    return f'page {number}: zoom changed the number of link annotations'
                for a1, az in zip(item1[1:], itemz[1:]):
                    if a1[:2] != az[:2] or not all(_close(zoom * a, b, exact) for a, b in zip(a1[2:], az[2:])):
                        return f'page {number}: link {az} at zoom {zoom} is not zoom x {a1}'
    for d1, dz in zip(names1[1:], namesz[1:]):
        if d1[:2] != dz[:2] or not all(_close(zoom * a, b, exact) for a, b in zip(d1[2:], dz[2:])):
            return f'destination {dz} at zoom {zoom} is not zoom x {d1}'
    for o1, oz in zip(outlines1[1:], outlinesz[1:]):
        if o1[:3] != oz[:3] or o1[5] != oz[5] or not all(_close(zoom * a, b, exact) for a, b in zip(o1[3:5], oz[3:5])):
            return f'outline item {oz} at zoom {zoom} is not zoom x {o1}'
    return None


def copy_clause(document, sel, zoom=1):
    """C19 'Document.copy(pages) outputs exactly the selected pages', stated on the implementation: the PDF of the
    copy has one page per selected page, in order, with the geometry and link rectangles that page has in the PDF of
    the whole document; internal links are kept iff their target is anchored on a selected page (never dangling);
    the named destinations are the first occurrences of the anchors of the selected pages."""
    try:
        (pages_all, _, _), _ = exact_tree(document, zoom)
        subset = document.copy('all' if sel == 'all' else [document.pages[i] for i in sel])
        (pages, names, _), _ = exact_tree(subset, zoom)
    except ReaderError:
        return None
    except Exception as exc:  # noqa: BLE001
        return f'copy / write_pdf raised {type(exc).__name__}: {exc}'
    chosen = list(range(len(document.pages))) if sel == 'all' else list(sel)
    if len(pages) - 1 != len(chosen):
        return f'{len(pages) - 1} pages written for a selection of {len(chosen)}'
    expected_names = {}
    for position, index in enumerate(chosen):
        for name in document.pages[index].anchors:
            expected_names.setdefault(name, position)
    written_names = {d[0]: d[1] for d in names[1:]}
    if written_names != expected_names:
        return f'destinations {written_names} but the selected pages anchor {expected_names}'
    for position, index in enumerate(chosen):
        got, want = pages[1 + position], pages_all[1 + index]
        if got[:4] != want[:4]:
            return f'page {position} of the copy has boxes {got[:4]}, page {index} of the document {want[:4]}'
        want_annots = [a for a in want[4][1:] if a[0] != 'internal' or a[1] in expected_names]
        # links to anchors that exist in the document but not in the selection were kept in `want`
        if got[4][1:] != want_annots:
            return f'page {position} of the copy has annotations {got[4][1:]}, expected {want_annots}'
        for annot in got[4][1:]:
            if annot[0] == 'internal' and annot[1] not in written_names:
                return f'dangling internal link to {annot[1]!r} on page {position} of the copy'
    return None


def names_clause(document, zoom=1):
    """The `/Dests` name tree a reader resolves internal links with: its keys, as written, must be strictly increasing
    in byte order (ISO 32000-1 7.9.6) - otherwise the binary search of a reader misses destinations and the internal
    links that `copy_clause` requires to be 'never dangling' do not resolve (also C16)."""
    try:
        _, text = exact_tree(document, zoom)
    except ReaderError:
        return None
    except Exception as exc:  # noqa: BLE001
        return f'write_pdf raised {type(exc).__name__}: {exc}'
    names = [entry[0] for entry in text[1][1:]]
    keys = [name.encode('ascii') if name.isascii() else b'\xfe\xff' + name.encode('utf-16-be') for name in names]
    for first, second, a, b in zip(keys, keys[1:], names, names[1:]):
        if not first < second:
            return (f'/Dests name tree not sorted by the bytes of its keys: {a!r} ({first.hex()}) is written before '
                    f'{b!r} ({second.hex()}); written order {names}')
    return None


def _stored_bytes(world, resources, calls, cache, value):
    """Canonical description of the bytes behind the `cached=<data key>` source of a returned raster image."""
    if ':cached=' not in value:
        return None
    shown = value.split(':cached=', 1)[1]
    table = world.key_table(calls)
    for key, entry in cache.items():
        if isinstance(entry, bytes) and world.canon_key(key, table) == shown:
            url, _, orientation, _ = calls[-1]
            # Pillow encodes deterministically: the same source and parameters give the same bytes
            return (world.show_entry(key, entry, table, resources, (url, orientation)) + '#' +
                    hashlib.md5(entry).hexdigest()[:12])
    return 'missing'


def cache_clause(world, resources, calls):
    """C19 'warm or cold image cache': every value returned in the history equals the value a cold call returns, and
    the bytes the cache holds for it are the bytes a cold call stores (a cache shared by renders with different
    image options must not serve one render the image data of another)."""
    cache = {}
    for i, call in enumerate(calls):
        warm, _, _ = run_image_history(world, resources, [call], cache)
        cold_cache = {}
        cold, _, _ = run_image_history(world, resources, [call], cold_cache)
        if cold[0] != warm[0]:
            return (f'call {i} {call} returns {warm[0]} after the history {calls[:i]} but {cold[0]} on a cold cache')
        warm_bytes = _stored_bytes(world, resources, [call], cache, warm[0])
        cold_bytes = _stored_bytes(world, resources, [call], cold_cache, cold[0])
        if warm_bytes != cold_bytes:
            return (f'call {i} {call} embeds {warm_bytes} after the history {calls[:i]} but {cold_bytes} on a cold '
                    'cache')
    return None


# ---------------------------------------------------------------------------------------------- findings

def finding_stale_link_annotation():
    """(repaired, 974ea74: regression case)  pdf/ua-1 of a copy whose page links to an anchor on an unselected page
    depended on whether the whole document was written before: add_links left the box's `link_annotation` of the
    earlier PDF in place for the dropped link, and draw / pdfua tagged it (a reference into another PDF)."""
    from harness import c19_history
    os.environ['SOURCE_DATE_EPOCH'] = c19_history.EPOCH
    html = ('<style>@page{size:60px 40px;margin:0}body{font-family:weasyprint;font-size:10px;margin:0}</style>'
            '<title>t</title><p><a href="#b">ab</a></p><p id=b style="break-before:page">cd</p>')

    def subset(document):
        return document.copy(document.pages[:1]).write_pdf(pdf_variant='pdf/ua-1', pdf_identifier=b'x')
    alone = subset(docs.render(html))
    document = docs.render(html)
    document.write_pdf(pdf_variant='pdf/ua-1', pdf_identifier=b'x')
    return subset(document) != alone


def _image_doc(fmt='JPEG'):
    from harness import c19_history
    uri = c19_history._data_uri(fmt, 1)
    return ('<style>@page{size:100px 80px;margin:10px}body{font-family:weasyprint;font-size:10px;margin:0}</style>'
            f'<title>t</title><p>ab</p><img src="{uri}" style="width:12px">')


def finding_dpi_rewrite():
    """The same Document written twice with `dpi` gives different bytes (the first write replaces the image source
    by its thumbnail; the second re-encodes the thumbnail)."""
    from harness import c19_history
    os.environ['SOURCE_DATE_EPOCH'] = c19_history.EPOCH
    document = docs.html(_image_doc()).render(dpi=48)
    first = document.write_pdf(pdf_identifier=b'x', dpi=48)
    second = document.write_pdf(pdf_identifier=b'x', dpi=48)
    return first != second


def finding_cache_options():
    """(repaired, bca20a5: regression case)  A cache shared by two renders with different image options: the second
    embedded the first's image."""
    from harness import c19_history
    os.environ['SOURCE_DATE_EPOCH'] = c19_history.EPOCH
    cache = {}
    docs.html(_image_doc()).write_pdf(pdf_identifier=b'x', jpeg_quality=5, cache=cache)
    warm = docs.html(_image_doc()).write_pdf(pdf_identifier=b'x', cache=cache)
    cold = docs.html(_image_doc()).write_pdf(pdf_identifier=b'x', cache={})
    return warm != cold


def finding_font_config():
    """A document that declares @font-face registers the face in the caller's FontConfiguration for good: a later
    document rendered with the same configuration, which only *names* that family, is laid out differently than with
    a configuration of its own."""
    from harness import c19_history
    font = docs.RES / 'weasyprint.otf'
    declares = (f'<style>@font-face{{font-family:fx;src:url(file://{font})}}body{{font-family:fx;font-size:10px}}'
                '</style><p>abc def</p>')
    names = '<style>body{font-family:fx, serif;font-size:10px}</style><p>abc def ghi</p>'
    cold = c19_history.run_job({'html': names}, env=c19_history.fresh_env())
    env = c19_history.fresh_env()
    c19_history.run_job({'html': declares}, env=env)
    warm = c19_history.run_job({'html': names}, env=env)
    return cold['layout'] != warm['layout']


def finding_svg_rewrites_tree():
    """An inline <svg> with a pattern / mask / white space in <text> / a nested <svg> without size: drawing rewrites
    the element tree it was given (`pattern` becomes `svg`, `mask` becomes `g`, text nodes are normalised), i.e. the
    caller's HTML tree, and a second render of the same HTML object no longer finds the pattern."""
    import random
    from xml.etree import ElementTree
    from harness import c19_history
    os.environ['SOURCE_DATE_EPOCH'] = c19_history.EPOCH
    source = ('<style>svg{display:block}</style>' + c19_history.gen_svg(random.Random(0), 'f', rewriting=True))
    env = c19_history.fresh_env()
    html = c19_history.make_html(env, source)
    before = ElementTree.tostring(html.etree_element)
    first = html.render(env[1]).write_pdf(pdf_identifier=b'x')
    mutated = ElementTree.tostring(html.etree_element) != before
    second = html.render(env[1]).write_pdf(pdf_identifier=b'x')
    return mutated or first != second


def finding_attachment_dates():
    """The same document, the same SOURCE_DATE_EPOCH, the same identifier, rendered and written when the clock shows
    another second: the /CreationDate and /ModDate of the embedded files differ, hence the PDF bytes."""
    import datetime as datetime_module
    import weasyprint
    from harness import c19_history
    os.environ['SOURCE_DATE_EPOCH'] = c19_history.EPOCH
    source = ('<link rel="attachment" href="data:text/plain;base64,aGVsbG8=" title="n"><title>t</title>'
              '<p>ab <a rel="attachment" href="data:text/plain,zz">k</a></p>')
    outputs = []
    saved = weasyprint.datetime
    try:
        for second in (40, 41):
            class Clock(datetime_module.datetime):
                @classmethod
                def now(cls, tz=None, second=second):
                    return datetime_module.datetime(2026, 9, 30, 17, 37, second)
            weasyprint.datetime = Clock
            outputs.append(docs.render(source).write_pdf(pdf_identifier=b'x'))
    finally:
        weasyprint.datetime = saved
    return outputs[0] != outputs[1]


def finding_bleedbox_cap():
    """(repaired, d924a7c: regression case)  bleed 20px: BleedBox at zoom 2 was not 2 x BleedBox at zoom 1 (the 10pt
    cap was not scaled)."""
    document = docs.render('<style>@page{size:100px;margin:0;bleed:20px}</style>')
    (pages1, _, _), _ = exact_tree(document, 1)
    (pages2, _, _), _ = exact_tree(document, 2)
    return [2 * v for v in pages1[1][2][1:]] != list(pages2[1][2][1:])


def finding_attachment_second_write():
    """(repaired, a0bb005, filed under C18: regression case)  A document with attachments written a second time, and
    its copy written after it, raised AttributeError (Attachment.source was a one-shot context manager)."""
    from harness import c19_history
    os.environ['SOURCE_DATE_EPOCH'] = c19_history.EPOCH
    source = ('<link rel="attachment" href="data:text/plain;base64,aGVsbG8=" title="n"><title>t</title>'
              '<p>ab <a rel="attachment" href="data:text/plain,zz">k</a></p>')
    with c19_history.frozen_clock():
        document = docs.render(source)
        first = document.write_pdf(pdf_identifier=b'x')
        try:
            second = document.write_pdf(pdf_identifier=b'x')
            copied = document.copy().write_pdf(pdf_identifier=b'x')
        except Exception:  # noqa: BLE001
            return True
    return not (first == second == copied)


# Repaired findings (`fixed:` lines of known_findings.txt): the committed inputs stay as regression cases.  A fixed
# entry suppresses nothing: if one of these fails again it is reported as a VIOLATION with its input.
REGRESSIONS = {
    'stale-link-annotation': (
        finding_stale_link_annotation, '974ea74',
        'pdf/ua-1 of document.copy(pages[:1]) differs when the whole document was written before (a link dropped by '
        'resolve_links keeps the link_annotation of the earlier PDF)'),
    'image-cache-ignores-options': (
        finding_cache_options, 'bca20a5',
        'a cache shared by a render with jpeg_quality=5 and a render with default options: the second embeds the '
        'first\'s image data (warm != cold)'),
    'attachment-second-write-crash': (
        finding_attachment_second_write, 'a0bb005',
        'a document with attachments written twice (and its copy written after it) does not give the same bytes three '
        'times (finding of C18: the second write raised AttributeError)'),
    'bleedbox-cap-not-zoomed': (
        finding_bleedbox_cap, 'd924a7c',
        '@page{size:100px;bleed:20px}: BleedBox at zoom 2 is not 2 x BleedBox at zoom 1'),
}


def regression_outcome(ident):
    try:
        return 'regressed' if REGRESSIONS[ident][0]() else 'fixed'
    except Exception as exc:  # noqa: BLE001
        return f'err:{type(exc).__name__}'


def section_regressions(run):
    sec = run.section(
        'regressions (validation)',
        'the committed inputs of the repaired findings (fixed: lines) replayed on the implementation: each must behave '
        'as repaired; the driver echoes `fixed`')
    for ident in REGRESSIONS:
        sec.add(sx.line('echo', 'fixed', ident), regression_outcome(ident),
                meta={'validation': 'regression', 'id': ident}, nontrivial=True, tags=[ident])


# ---------------------------------------------------------------------------------------------- the check

class C19(PropCheck):
    id = 'C19'
    extractors = (pdf_variants.generate, module_state.generate, purity_inventory.generate,
                  image_key_table.generate)
    modules = ('WpModel.Props.C19', 'WpModel.Props.C19Purity', 'WpModel.Props.C19State', 'WpModel.Witness.C19',
               'WpModel.Props.C19Pm2', 'WpModel.Props.C19Key', 'WpModel.Props.C19Names', 'WpModel.Props.C19Cascade',
               'WpModel.Props.C19Memo', 'WpModel.Props.C19Attach',
               'WpModel.Props.C19Svg', 'WpModel.Props.C19Docs',
               'WpModel.Props.C19Counter')
    trusted_base = (
        'modelled, not verified: generate_pdf / add_links / make_bookmark_tree coordinates, Document.copy, '
        'resolve_links, get_image_from_uri + RasterImage cache writes, write_pdf sinks, the allocation skeleton of '
        'HTML.render (lean/WpModel/Model/{PdfZoom,CopyPages,ImageCache,WriteSinks,RenderState}.lean)',
        'Pillow / ElementTree outcomes are parameters of the image model (blob flags); md5 is symbolic',
        'determinism across processes and hash seeds, byte identity and absence of mutation are runtime behaviour: '
        'exercised by the history harness (validation), not proved',
    )
    assumptions = (
        'float arithmetic is exact on the generated inputs (lengths in quarters of px, dyadic zoom): checked, the '
        'exact-mode comparison is on Fraction(float)',
        'no URL contains a raw space (URLs reach get_image_from_uri through iri_to_uri)',
        'a blob is never both a valid SVG and a Pillow-readable raster (hypothesis of cache_transparent)',
        'module-level tables and the lru_cache of get_lang_quotes are not written after import (Gen.moduleState + '
        'deep snapshots)',
    )

    def correspondence(self, run):
        from harness import c19_history
        os.environ['SOURCE_DATE_EPOCH'] = c19_history.EPOCH
        docs.quiet()
        factory = c19_gen.SyntheticPage()
        # the framework judges the first 200 disagreements only: sections whose disagreements are property clauses
        # by themselves come first, function-level sections (never judged) last
        import time
        timings = {}

        def timed(name, function, *args):
            start = time.time()
            result = function(*args)
            timings[name] = round(time.time() - start, 2)
            return result
        module_before = module_state_snapshot()
        timed('regressions', section_regressions, run)
        timed('history', section_history, run)
        rendered = timed('docs', section_docs, run)
        timed('copy', section_copy, run, factory, rendered)
        timed('synthetic', section_synthetic, run, factory)
        timed('images', section_images, run, ImageWorld())
        timed('image-docs', section_image_docs, run, ImageWorld())
        timed('disk-cache', section_disk_cache, run)
        timed('write-state', section_write_state, run, factory, ImageWorld())
        timed('sinks', section_sinks, run)
        timed('render-state', section_render_state, run)
        timed('text-decoration', section_text_decoration, run)
        timed('attachment-dates', section_attachment_dates, run)
        timed('svg-draw', section_svg_draw, run)
        timed('counter-dict', section_counter_dict, run)
        timed('functions', section_functions, run, factory)
        timed('module-state', section_module_state, run, module_before)
        run.extra['section_seconds'] = timings
        never_hit = {}
        for sec in run.sections:
            missing = [tag for tag in EXPECTED_TAGS.get(sec.name, []) if not sec.tags.get(tag)]
            if missing:
                never_hit[sec.name] = missing
        run.extra['branches_never_hit'] = never_hit

    # -- judge ------------------------------------------------------------------------------------------------
    def judge(self, d):
        section, meta = d['section'], d.get('meta') or {}
        if section in ('pdf-zoom-docs', 'pdf-zoom-synthetic', 'copy-subsets'):
            if meta.get('copy'):
                return f'Document.copy passes on {d["impl"]} (expected {d["model"]})'
            return self._judge_document(meta)
        if section == 'image-cache':
            return cache_clause(ImageWorld(), [tuple(r) if not isinstance(r, tuple) else r for r in meta['resources']],
                                tuple_calls(meta['calls']))
        if section == 'write-sinks':
            return self._judge_sinks(d)
        if section == 'render-state':
            return self._judge_render_state(d)
        if section == 'image-docs':
            resources = [(u, tuple(r)) for u, r in meta['resources']]
            documents = [(dict(o), [(t, u, f, tuple(x) if isinstance(x, list) else x) for t, u, f, x in els])
                         for o, els in meta['documents']]
            together = run_image_docs(ImageWorld(), resources, documents).split(' | ')
            for index, document in enumerate(documents):
                alone = run_image_docs(ImageWorld(), resources, [document])
                got = together[index].split(' => ')[-1]
                if got != alone.split(' => ')[-1]:
                    return (f'document {index} of the sequence gets the images {got} with the cache filled by the '
                            f'documents before it, and {alone.split(" => ")[-1]} alone on a cold cache '
                            f'(elements {document[1]}, options {document[0]})')
            return None
        if section == 'counter-dict':
            # the clause: for the UA names and the names a document defines, the binding after its render is the one it
            # gets alone with a new CounterStyle() (C19.Counter.history_as_alone)
            documents = meta['documents']
            together = run_counter_dict(documents, COUNTER_NAMES).split(' | ')
            from weasyprint.html import HTML5_UA_COUNTER_STYLE
            for index, rules in enumerate(documents):
                alone = run_counter_dict([rules], COUNTER_NAMES)
                relevant = {name for name, _ in rules} | {n for n in COUNTER_NAMES if n in HTML5_UA_COUNTER_STYLE}
                got = dict(item.split('=', 1) for item in together[index].split(';'))
                want = dict(item.split('=', 1) for item in alone.split(';'))
                for name in sorted(relevant):
                    if got.get(name) != want.get(name):
                        return (f'document {index} of the sequence {documents} (one CounterStyle shared): the counter '
                                f'style {name!r} is bound to {got.get(name)} after its render, to {want.get(name)} when '
                                'the document is rendered alone with a new CounterStyle()')
            return None
        if section == 'svg-draw':
            depth = []
            out = run_svg_draw(meta['root'], meta['refs'], meta['fails'], depth)
            if depth and depth[0] > len(meta['refs']):
                return (f'SVGImage.draw of image {meta["root"]} (references {meta["refs"]}) nests {depth[0]} drawings '
                        f'inside one another with {len(meta["refs"])} images: an image is drawn inside its own drawing '
                        '(unbounded recursion, each RecursionError swallowed: the guard of C19.Svg.draw_needs_no_fuel '
                        'is gone)')
            flagged = out.split(' | ')[1] if ' | ' in out else ''
            if flagged.strip():
                return (f'after SVGImage.draw of image {meta["root"]} (references {meta["refs"]}, failing {meta["fails"]}) '
                        f'the image(s) {flagged} still have _drawing set: the cached image object was changed by being '
                        'drawn, and its next use (another element, page, write or render sharing the cache) draws nothing')
            return None
        if section == 'text-decoration':
            out = run_text_decoration(meta['key'], meta['value'], meta['parent'], meta['cascaded'])
            if out.startswith('mutated-argument'):
                _, which, change = out.split(':', 2)
                return (f'css.text_decoration({meta["key"]!r}, {meta["value"]}, {meta["parent"]}, {meta["cascaded"]}) '
                        f'modified its argument {which} ({change}): a cascaded value is the object stored in the rule '
                        'of the style sheet, so every element the rule matches afterwards - in this render and in '
                        'every later render using the sheet (the UA sheet: every render of the process) - gets the '
                        'union (rendering modifies the CSS objects it was given)')
            return None
        if section == 'resolve-links':
            return self._judge_resolve(d)
        if section == 'write-state' and 'selections' in meta:
            parts = d['impl'].split(' | ')
            for number, part in enumerate(parts, start=1):
                for tag in part.split(','):
                    if ':' in tag and tag.split(':')[1] != str(number):
                        return (f'write {number} of the selections {meta["selections"]} tags link box {tag.split(":")[0]} '
                                f'with the annotation object of write {tag.split(":")[1]} (state left on the boxes by an '
                                'earlier write_pdf reaches a later PDF)')
            return None
        if section.startswith('module-state'):
            return (f'rendering changed the module-level object {meta["object"][1]} of weasyprint/{meta["object"][0]} '
                    '(process-lifetime state written after import)')
        if section.startswith('regressions'):
            ident = meta['id']
            if regression_outcome(ident) == 'fixed':
                return None
            return (f'{REGRESSIONS[ident][2]} - the committed input of the repaired finding {ident} (fix: '
                    f'{REGRESSIONS[ident][1]}) fails again')
        if section.startswith('history') and meta.get('validation', '').startswith('sequence'):
            what, _ = sequence_clause(meta['jobs'], meta['order'], share=meta.get('share', False))
            return what or (f'sequence: render {meta["position"]} of {meta["order"]} gave {d["impl"]} where the job '
                            f'alone in a fresh process gives {d["model"]}')
        if section.startswith('history') or section.startswith('three-sinks'):
            kind = meta.get('validation')
            return (f'{kind}: the same input gave {d["impl"]} where the reference is {d["model"]} '
                    f'({json.dumps(meta.get("how") or meta.get("options") or meta.get("hashseed"), default=str)})')
        return None

    def _document_of(self, meta):
        if 'html' in meta:
            return docs.render(meta['html'])
        factory = c19_gen.SyntheticPage()
        return factory.document(make_pages(factory, unjson_abstract(meta['abstract'])))

    def _judge_document(self, meta):
        zoom = Fraction(meta['zoom'])
        try:
            document = self._document_of(meta)
        except Exception as exc:  # noqa: BLE001
            return f'rendering raised {type(exc).__name__}: {exc}'
        # bookmark levels >= 1 is what gather_anchors produces; the clauses speak about zoom > 0
        levels_ok = all(level >= 1 for page in document.pages for level, *_ in page.bookmarks)
        in_domain = zoom > 0 and levels_ok
        sel, variant = meta.get('sel'), meta.get('variant')
        if sel is not None:
            if not levels_ok:
                return None      # the asserts of make_page_bookmark_tree fire on the whole document as on its copies
            what = copy_clause(document, sel, zoom if zoom > 0 else 1)
            if what:
                return what
            document = document.copy('all' if sel == 'all' else [document.pages[i] for i in sel])
        if not in_domain:
            return None
        if variant:
            try:
                document.write_pdf(pdf_variant=variant)
            except Exception as exc:  # noqa: BLE001
                if document.pages and getattr(document, '_html', None) is None:
                    return None   # a hand-made Document with pages but no HTML tree: outside the API contract
                return f'write_pdf(pdf_variant={variant!r}) raised {type(exc).__name__}: {exc}'
        if not document.pages:
            return None
        return zoom_clause(document, zoom) or names_clause(document, zoom)

    def _judge_sinks(self, d):
        import ast
        meta = d['meta']
        options = ast.literal_eval(meta['options'])
        document = docs.render(SINK_HTML)
        recorder = SinkRecorder(meta['stub'])
        traces = {}
        for target in ('none', 'fileobj', 'path'):
            out, _ = recorder.run(document, options, meta['finisher'], target)
            traces[target] = [e for e in out.split() if e.startswith('write(')]
        args = {target: [e.split(',', 1)[1] for e in events] for target, events in traces.items()}
        if len({json.dumps(v) for v in args.values()}) > 1 or any(len(v) > 1 for v in args.values()):
            return f'pdf.write is not called once with the same arguments for the three target kinds: {traces}'
        return None

    def _judge_render_state(self, d):
        impl = run_render_history(d['meta']['history']) if d.get('meta', {}).get('history') else d['impl']
        renders = impl.split(' || ')
        for index, text in enumerate(renders):
            tail = text.split(' => ')[-1]
            for field in tail.split():
                if '=' not in field:
                    continue
                name, labels = field.split('=', 1)
                if name == 'shared':
                    if labels:
                        return (f'the LayoutContext of render {index} of the history holds the very container object(s) '
                                f'{labels} of the context of an earlier render: state shared between renders')
                    continue
                for label in filter(None, labels.split(',')):
                    if label == '?' or (label.startswith('n') and label != f'n{index}'):
                        return (f'render {index} of the history uses a {name} object ({label}) that is neither the '
                                f'caller\'s nor its own: {tail}')
        return None

    def _judge_resolve(self, d):
        pages = unjson_abstract(d['meta']['abstract'])
        try:
            out = sx.loads_line(d['impl'])[0]
        except Exception:  # noqa: BLE001
            return f'resolve_links raised {d["impl"]}'
        names = {name for page in pages for name, _ in page[4]}
        for page, (links, _) in zip(pages, out):
            kept = [(k, t) for k, t, *_ in links]
            want = [(k, t) for k, t, _ in page[3] if k != 'internal' or t in names]
            if kept != want:
                return f'resolve_links kept {kept}, the anchors {sorted(names)} require {want}'
        seen = []
        for _, anchors in out:
            seen.extend(a[0] for a in anchors)
        if len(seen) != len(set(seen)) or set(seen) != names:
            return f'resolve_links anchors {seen} are not the first occurrences of {sorted(names)}'
        return None

    # -- search -----------------------------------------------------------------------------------------------
    def search(self, run, failures):
        """Wider search on the implementation only (clauses stated directly), document level first."""
        from harness import c19_history
        os.environ['SOURCE_DATE_EPOCH'] = c19_history.EPOCH
        docs.quiet()
        found = []

        def add(what, payload, signature, finding_id=None):
            found.append({'what': what, 'input': payload, 'signature': signature, 'finding_id': finding_id})
        # 1 zoom and copy clauses on fresh documents, also non-dyadic zooms (approximate comparison)
        for _ in range(run.n(25, 200)):
            html, _ = c19_gen.gen_doc(run.rng)
            document = docs.render(html)
            for zoom, exact in ((run.rng.choice(c19_gen.ZOOMS), True),
                                (Fraction(run.rng.choice(['0.1', '0.3', '1.7', '3.3', '10'])), False)):
                run.search_stats['evaluations'] += 1
                what = zoom_clause(document, zoom, exact)
                if what:
                    add(what, {'html': html, 'zoom': str(zoom), 'exact': exact, 'kind': 'zoom'}, 'zoom:' + what[:40])
                    break
            n = len(document.pages)
            sel = sorted(run.rng.sample(range(n), run.rng.randrange(0, n + 1)))
            run.search_stats['evaluations'] += 1
            what = copy_clause(document, sel)
            if what:
                add(what, {'html': html, 'sel': sel, 'kind': 'copy'}, 'copy:' + what[:40])
            what = names_clause(document)
            if what:
                add(what, {'html': html, 'kind': 'names'}, 'names:' + what[:40])
            if len(found) >= 3:
                return found
        # 2 warm = cold on the image cache
        world = ImageWorld()
        for _ in range(run.n(150, 1500)):
            resources = world.gen_resources(run.rng)
            urls = [url for url, _ in resources]
            pool = [{'optimize_images': run.rng.random() < 0.3, 'jpeg_quality': run.rng.choice([None, 30, 5]),
                     'dpi': run.rng.choice([None, 96])} for _ in range(run.rng.randrange(1, 3))]
            calls = [(run.rng.choice(urls), run.rng.choice(FORCED), run.rng.choice(ORIENTATIONS), run.rng.choice(pool))
                     for _ in range(run.rng.randrange(2, 8))]
            run.search_stats['evaluations'] += 1
            what = cache_clause(world, resources, calls)
            if what:
                add(what, {'resources': resources, 'calls': calls, 'kind': 'cache'}, 'cache:' + what[:40])
                break
        # 3 three sinks
        document = docs.render(SINK_HTML)
        recorder = SinkRecorder(False)
        for options in ({}, {'pdf_variant': 'pdf/a-3b'}, {'uncompressed_pdf': True, 'pdf_identifier': b'id'}):
            digests = {}
            for target in ('none', 'fileobj', 'path'):
                run.search_stats['evaluations'] += 1
                out, data = recorder.run(document, dict(options), False, target)
                digests[target] = hashlib.md5(data).hexdigest() if data else out
            if len(set(digests.values())) > 1:
                add(f'the three targets of write_pdf got different bytes: {digests}',
                    {'options': repr(options), 'kind': 'sinks'}, 'sinks')
        # 4 fresh processes under eight hash seeds, on the jobs that carry set-valued / stateful features
        if len(found) < 3:
            for job in make_history_jobs(run.rng, 3)[:3]:
                run.search_stats['evaluations'] += 8
                what = hashseed_clause(job)
                if what:
                    add(what, {'job': job, 'kind': 'history'}, 'hashseed:' + what[:30])
                    break
        # 5 histories
        if len(found) < 3:
            jobs = make_history_jobs(run.rng, run.n(6, 30))
            reference = run_child(jobs, run.rng.randrange(1, 2 ** 31), list(range(len(jobs))))
            env, cache = c19_history.fresh_env(), {}
            htmls = {}
            for _ in range(run.n(20, 150)):
                index = run.rng.randrange(len(jobs))
                job = jobs[index]
                if 'dpi' in job['options'] or job.get('fresh_env_only'):
                    continue          # known findings dpi-thumbnail-replaces-source / font-config-accumulates-font-faces
                html = htmls.setdefault(index, c19_history.make_html(env, job['html'], job.get('real_ua', False)))
                run.search_stats['evaluations'] += 1
                try:
                    result = c19_history.run_job(job, env=env, html=html, cache=cache, write_twice=True)
                except Exception as exc:  # noqa: BLE001
                    result = {'error': f'{type(exc).__name__}: {exc}'}
                problem = None
                if history_signature(result) != history_signature(reference[index]):
                    problem = (f'render in a shared environment gives {history_signature(result)}, a fresh process '
                               f'{history_signature(reference[index])}')
                elif result.get('mutated'):
                    problem = f'rendering modified the caller\'s {result["mutated"]}'
                elif result.get('pdf_again') != result.get('pdf'):
                    problem = 'writing the same Document twice gives different bytes'
                if problem:
                    add(problem, {'job': job, 'kind': 'history'}, 'history:' + problem[:30])
                    break
        return found

    # -- replay -----------------------------------------------------------------------------------------------
    def finding_replays(self):
        return {'attachment-dates-from-wall-clock': finding_attachment_dates,
                'dpi-thumbnail-replaces-source': finding_dpi_rewrite,
                'font-config-accumulates-font-faces': finding_font_config,
                'svg-rewrites-element-tree': finding_svg_rewrites_tree}

    def replay(self, data):
        from harness import c19_history
        os.environ['SOURCE_DATE_EPOCH'] = c19_history.EPOCH
        docs.quiet()
        inp = data.get('input', {})
        kind = inp.get('kind')
        if kind == 'zoom':
            return zoom_clause(docs.render(inp['html']), Fraction(inp['zoom']), inp.get('exact', True))
        if kind == 'copy':
            return copy_clause(docs.render(inp['html']), inp['sel'])
        if kind == 'names':
            return names_clause(docs.render(inp['html']))
        if kind == 'cache':
            return cache_clause(ImageWorld(), [(u, tuple(d)) for u, d in inp['resources']], tuple_calls(inp['calls']))
        if kind == 'history':
            job = inp['job']
            what = hashseed_clause(job)
            if what:
                return what
            reference = run_child([job], 99, [0])[0]
            env = c19_history.fresh_env()
            html = c19_history.make_html(env, job['html'], job.get('real_ua', False))
            cache = {}
            for _ in range(3):
                result = c19_history.run_job(job, env=env, html=html, cache=cache, write_twice=True)
                if history_signature(result) != history_signature(reference):
                    return f'{history_signature(result)} instead of {history_signature(reference)}'
                if result['mutated'] or result['pdf_again'] != result['pdf']:
                    return f'mutated {result["mutated"]} / second write differs'
            return None
        if 'section' in inp:        # a correspondence disagreement judged as a violation
            meta = inp.get('meta') or {}
            if 'resources' in meta:
                meta = dict(meta, resources=[(u, tuple(d)) for u, d in meta['resources']],
                            calls=tuple_calls(meta['calls']))
            if inp['section'].startswith('regressions'):
                return self.judge({'section': inp['section'], 'meta': meta})
            if inp['section'].startswith('history') and meta.get('validation', '').startswith('sequence'):
                return sequence_clause(meta['jobs'], meta['order'], share=meta.get('share', False))[0]
            if inp['section'].startswith('history') or inp['section'].startswith('three-sinks'):
                job = meta.get('job')
                if job is None:
                    return None
                return self.replay({'input': {'kind': 'history', 'job': job}})
            return self.judge({'section': inp['section'], 'meta': meta, 'impl': inp.get('impl', ''),
                               'model': inp.get('model', ''), 'line': inp.get('line', '')})
        return None


PROP = C19()

MANIFEST = {
    'design_ref': 'DESIGN.md §4 C19',
    'technique': 'Lean 4 theorems over hand-written models of generate_pdf coordinates, Document.copy + resolve_links, '
                 'the image cache, the write_pdf sinks and the allocation skeleton of HTML.render (variant table and '
                 'module-state sites regenerated from the source each run); exact executable correspondence with the '
                 'real functions; history / process / hash-seed validation harness',
    'text': 'Proved for all inputs on the models: every PDF coordinate (MediaBox, TrimBox, BleedBox, transforms, link '
            'rectangles, destinations, outline points) is zoom x its value at zoom 1 for every zoom > 0 and the page '
            'rectangle does not depend on zoom; copy(pages) writes exactly the selected '
            'pages (every variant) with no dangling internal link and the first-occurrence destinations; the three write_pdf targets '
            'get one pdf.write with identical arguments; a cache shared by any call history with a deterministic '
            'fetcher returns the cold value and holds the cold bytes, also when the image options change from call to '
            'call (keys are injective in (url, orientation, options)); the Link tags of a write do not depend on '
            'earlier writes; successive '
            'renders share no object that the caller did not pass. The models are tied to /repo by exact '
            'correspondence on generated documents, synthetic pages, call histories and recorded constructor traces.',
    'note': 'Partial by nature: determinism across processes / PYTHONHASHSEED, byte identity and non-mutation of caller '
            'objects are runtime behaviour; they are exercised by the history harness (validation), not proved. Known '
            'findings: dpi: the first write replaces the image source by its thumbnail; a '
            'document\'s @font-face stays registered in the caller\'s FontConfiguration; drawing an inline <svg> with '
            'patterns / masks / text white space rewrites the caller\'s HTML tree; the dates of attachments embedded '
            'from a URL are the wall clock (SOURCE_DATE_EPOCH is not read). Repaired (regression cases kept): '
            'BleedBox cap not scaled by zoom; stale link_annotation after an earlier write; image cache ignoring the '
            'image options.',
}
