"""C13 — replaced content: sizing rules, painted rectangle, embedded once."""
from extract import image_inherited, raster_embed_graph, replaced_consts, svg_not_inherited
from harness import c13_branches
from harness import c13_docs
from harness import c13_embed
from harness import c13_svg
from harness import c13_exec
from harness import c13_oracle
from harness import c13_r4
from harness import c13_real as real
from harness import docs
from vlib.framework import PropCheck


class C13(PropCheck):
    id = 'C13'
    extractors = (replaced_consts.generate, raster_embed_graph.generate, svg_not_inherited.generate,
                  image_inherited.generate)
    modules = ('WpModel.Props.C13', 'WpModel.Props.C13b', 'WpModel.Witness.C13')
    trusted_base = (
        'modelled, not verified: layout/replaced.py (all functions), min_max.py decorators, block_level_width, '
        'layout_background_layer / draw_background_image arithmetic, Stream.add_image/add_group/add_pattern naming, '
        '_use_references, RasterImage.draw, draw_replacedbox (hand transcription, exact correspondence on '
        'generated inputs)',
        'harness.exactq.Q: float literals of the mirrored code (1e-6, 4/3/96) are taken at the exact value of the '
        'double on both sides',
    )
    assumptions = (
        'image classes are represented by their get_intrinsic_size() triple; RasterImage ratio = inf (zero '
        'pixel height) is outside the model',
        'pixel data, JPEG/PNG re-encoding, alpha splitting, EXIF orientation and SVG rendering are Pillow / zlib / '
        'svg behaviour: not modelled (pixel-level losslessness is out of scope of this check)',
    )

    def correspondence(self, run):
        docs.quiet()
        rng = run.rng

        def section(name, rule):
            """A section whose cases are also tagged with the model branch they exercise (`br:…`)."""
            sec = run.section(name, rule)
            original = sec.add

            def add(line, out, meta=None, nontrivial=True, tags=()):
                original(line, out, meta=meta, nontrivial=nontrivial,
                         tags=list(tags) + c13_branches.branches(line, out))
            sec.add = add
            return sec
        sec = section(
            'regressions', 'corpus first: the inputs of the repaired findings (fixed: lines of known_findings.txt) '
            'run on the real code through the ordinary protocol lines (absolute_replaced in a rendered document, '
            'rotate_pillow_image, get_image_from_uri on unwritable modes, preserve_ratio under an ancestor with '
            'preserveAspectRatio, layout_background_layer with a zero-sized round tile, image-resolution 0dppx / -1dppx in '
            'the validator and in a rendered document); a repaired defect that '
            'comes back is a disagreement judged by the oracle; non-trivial = all')
        for line, out, meta, nontrivial, tags in self.regression_cases():
            sec.add(line, out, meta=meta, nontrivial=nontrivial, tags=tags)

        sec = section(
            'object-size', 'SVGImage.get_intrinsic_size on generated <svg> roots; default_image_sizing / contain / cover on Fractions, intrinsic (w,h,ratio) each '
            'possibly None, plus an adversarial stream; non-trivial = a specified size is auto/None resp. a ratio exists')
        for k in range(run.n(1500, 30000)):
            line, out, meta, nontrivial, tags = real.case_svg_intrinsic(rng, adversarial=(k % 4 == 0))
            sec.add(line, out, meta=meta, nontrivial=nontrivial, tags=tags)
        for k in range(run.n(4000, 80000)):
            case = real.case_default_sizing if k % 2 else real.case_constraint
            line, out, meta, nontrivial, tags = case(rng, adversarial=(k % 5 == 0))
            sec.add(line, out, meta=meta, nontrivial=nontrivial, tags=tags)

        sec = section(
            'replacedbox-layout', 'replacedbox_layout on a real InlineReplacedBox with every object-fit, random '
            'object-position (px/%/right/bottom); non-trivial = object-fit other than fill')
        for k in range(run.n(4000, 80000)):
            line, out, meta, nontrivial, tags = real.case_replacedbox_layout(rng, adversarial=(k % 5 == 0))
            sec.add(line, out, meta=meta, nontrivial=nontrivial, tags=tags)

        sec = section(
            'used-size', 'block_level_width, replaced_box_width/height (with and without min/max), '
            'min_max_auto_replaced, inline_replaced_box_width_height, inline_replaced_box_layout, absolute_replaced (sizing), preferred.replaced_min/max_content_width, '
            'block_replaced_width, block_replaced_box_layout on real ReplacedBoxes; non-trivial = an auto size '
            'or a min/max function')
        for k in range(run.n(12000, 240000)):
            line, out, meta, nontrivial, tags = real.case_used_size(rng, adversarial=(k % 4 == 0))
            sec.add(line, out, meta=meta, nontrivial=nontrivial, tags=tags)
        for k in range(run.n(1000, 20000)):
            line, out, meta, nontrivial, tags = real.case_absolute_replaced(rng, adversarial=(k % 4 == 0))
            sec.add(line, out, meta=meta, nontrivial=nontrivial, tags=tags)
        for k in range(run.n(2000, 40000)):
            line, out, meta, nontrivial, tags = real.case_pref_width(rng, adversarial=(k % 4 == 0))
            sec.add(line, out, meta=meta, nontrivial=nontrivial, tags=tags)

        sec = section(
            'background-layer', 'layout_box_backgrounds -> layout_background_layer on a real BlockBox / PageBox '
            'with 1-3 stub-image layers (size cover/contain/explicit/auto, four repeats incl. round, origin, clip, '
            'position, fixed), draw_background_image on a real Stream (clip + group translate or tiling pattern '
            'BBox/XStep/YStep/Matrix), table parts by direct calls; non-trivial = the layer has an image')
        for k in range(run.n(1500, 30000)):
            for line, out, meta, nontrivial, tags in real.case_backgrounds(rng, adversarial=(k % 5 == 0)):
                sec.add(line, out, meta=meta, nontrivial=nontrivial, tags=tags)
        for k in range(run.n(600, 12000)):
            line, out, meta, nontrivial, tags = real.case_table_background(rng, adversarial=(k % 5 == 0))
            sec.add(line, out, meta=meta, nontrivial=nontrivial, tags=tags)

        sec = section(
            'image-dedupe', 'random draw programs (images, nested groups, patterns) executed on real Streams '
            'sharing one Resources / images registry over 1-3 pages, then the real _use_references on a real '
            'pydyf.PDF: objects appended (image / mask / group / pattern / resources, with interpolate and '
            'max dpi ratio) and every reference; non-trivial = an image is drawn more than once')
        for k in range(run.n(1500, 30000)):
            line, out, meta, nontrivial, tags = real.case_dedupe(rng, adversarial=(k % 4 == 0))
            sec.add(line, out, meta=meta, nontrivial=nontrivial, tags=tags)

        sec = section(
            'image-draw', 'RasterImage.draw of real Pillow-made RasterImages on a real Stream (dpi option, ctm, '
            'image-rendering) and draw_replacedbox of a real InlineReplacedBox: the registered name / '
            'interpolate / dpi ratio and the `cm` operators before `Do`; non-trivial = something is drawn resp. '
            'a dpi is set')
        for k in range(run.n(1500, 30000)):
            case = real.case_raster_draw if k % 2 else real.case_draw_replacedbox
            line, out, meta, nontrivial, tags = case(rng, adversarial=(k % 5 == 0))
            sec.add(line, out, meta=meta, nontrivial=nontrivial, tags=tags)

        sec = section(
            'svg-viewport', 'the real svg.utils.preserve_ratio on real SVG trees (root / nested <svg>, <marker>, explicit '
            'viewBox as <image> passes it, each also under an ancestor with its own preserveAspectRatio and viewBox; '
            'all preserveAspectRatio values incl. malformed ones; malformed viewBox), Node.cascade on chains of nested '
            'elements (viewport attributes, other non-inherited ones, inherited presentation attributes, `inherit`), the '
            'two cm operators of the real SVG.draw on a real Stream, and svg.images.image with a stub referenced image '
            '(clip box, drawn size, fitting cm); non-trivial = a viewBox is in effect')
        for k in range(run.n(1200, 24000)):
            adversarial = k % 3 == 0
            cases = [c13_svg.case_preserve_ratio(rng, adversarial), c13_svg.case_svg_draw(rng, adversarial),
                     c13_svg.case_svg_attr(rng, adversarial), c13_svg.case_svg_image_element(rng, adversarial)]
            cases += c13_svg.case_svg_image(rng, adversarial)
            for line, out, meta, nontrivial, tags in cases:
                sec.add(line, out, meta=meta, nontrivial=nontrivial, tags=tags)

        sec = section(
            'raster-embed', 'tiny Pillow-made images of every mode (1, L, LA, P, PA, RGB, RGBA, CMYK, I, I;16, F) x '
            'file format (PNG, GIF, JPEG, TIFF, WEBP, BMP) x transparency info x optimize_images / jpeg_quality x '
            'image-orientation, loaded by the real get_image_from_uri and embedded by the real '
            'RasterImage.get_x_object: normalised mode, JPEG/PNG path, pass-through or re-encoding, invert_colors, '
            'ColorSpace, Filter, Colors, SMask, Decode, and the decoded RGBA of the stream + mask against Pillow\'s '
            'convert("RGBA") of the source; RasterImage._get_png_data on byte files made of the PNG signature and random '
            'chunks (several / empty IDATs, ancillary chunks, truncated and over-long tails, length overruns) and on '
            'files written by Pillow: the returned bytes; non-trivial = transparency info or a mode other than RGB / L, '
            'resp. several IDATs or a malformed file')
        for line, out, meta, nontrivial, tags in c13_embed.fixed_cmyk_family():
            sec.add(line, out, meta=meta, nontrivial=nontrivial, tags=tags)
        for k in range(run.n(2500, 40000)):
            line, out, meta, nontrivial, tags = c13_embed.case_embed(rng)
            sec.add(line, out, meta=meta, nontrivial=nontrivial, tags=tags)
        for k in range(run.n(600, 6000)):
            for case in (c13_embed.case_orientation, c13_embed.case_orientation_angle):
                line, out, meta, nontrivial, tags = case(rng)
                sec.add(line, out, meta=meta, nontrivial=nontrivial, tags=tags)

        for k in range(run.n(1500, 30000)):
            if k % 5 == 4:
                line, out, meta = c13_embed.real_png_streams(rng)
                sec.add(line, out, meta=meta, nontrivial=True, tags=['pngdata:pillow'])
            else:
                line, out, meta, nontrivial, tags = c13_embed.case_png_data(rng, adversarial=(k % 3 == 0))
                sec.add(line, out, meta=meta, nontrivial=nontrivial, tags=tags)

        sec = section(
            'style-plumbing', 'the real image-resolution validator on generated declarations (units, zero, negative, '
            'non-resolutions); the real layout_backgrounds on a real PageBox > root (html / HTML / svg) > (head,) body with '
            'raster stubs whose intrinsic size depends on the resolution asked, the three styles differing in every '
            'background property and in image-resolution: which element is propagated to the canvas and the layers '
            'of page.canvas_background; rendered documents with backgrounds and image-resolution on html / body: the '
            'canvas layer of the real page box; sequences of real get_image_from_uri calls on one cache (sources x '
            'image-orientation x optimize_images / jpeg_quality / dpi): classes of equal RasterImage.id and of '
            'identical objects; non-trivial = a resolution unit / a canvas background exists / one source under two '
            'orientations')
        for k in range(run.n(800, 16000)):
            line, out, meta, nontrivial, tags = c13_r4.case_image_resolution(rng, adversarial=(k % 4 == 0))
            sec.add(line, out, meta=meta, nontrivial=nontrivial, tags=tags)
        for k in range(run.n(1200, 24000)):
            line, out, meta, nontrivial, tags = c13_r4.case_canvas(rng, adversarial=(k % 4 == 0))
            sec.add(line, out, meta=meta, nontrivial=nontrivial, tags=tags)
        for k in range(run.n(60, 1200)):
            line, out, meta, nontrivial, tags = c13_r4.case_canvas_document(rng)
            sec.add(line, out, meta=meta, nontrivial=nontrivial, tags=tags)
        for k in range(run.n(500, 10000)):
            line, out, meta, nontrivial, tags = c13_r4.case_image_ids(rng, adversarial=(k % 3 == 0))
            sec.add(line, out, meta=meta, nontrivial=nontrivial, tags=tags)

        sec = section(
            'documents', 'generated documents: 1-4 <img>/<object>/<embed> (inline or block, ltr/rtl) showing '
            'Pillow-made PNGs with width/height/min/max in {auto,px,%}, every object-fit, object-position, '
            'image-resolution, image-rendering, opacity, and 0-2 boxes with a background image (size/position/repeat/'
            'origin/clip); compared: used sizes and margins of the laid-out boxes, replacedbox_layout of the real '
            'box, the `cm … Do` operators, clip rectangles, group translations and tiling-pattern dictionaries of '
            'the uncompressed PDF, the image XObjects of the file in creation order, and the /Resources dictionaries of '
            'the page, of every transparency group (no-repeat backgrounds, images with opacity < 1) and of every tiling '
            'pattern, names in dictionary order, read back from the file (every `/name Do` of a content stream must be '
            'defined in the resources of that very stream); non-trivial = size resolution / object-fit other than '
            'fill / an image used more than once')
        for doc in c13_docs.fixed_content_documents():
            for line, out, meta, nontrivial, tags in c13_docs.case_document(rng, doc):
                sec.add(line, out, meta=meta, nontrivial=nontrivial, tags=tags + ['doc:fixed-content-orientation'])
        for k in range(run.n(350, 7000)):
            for line, out, meta, nontrivial, tags in c13_docs.case_document(rng):
                sec.add(line, out, meta=meta, nontrivial=nontrivial, tags=tags)

        for k in range(run.n(60, 1200)):
            # list-style-image: markers inside / outside, image-resolution inherited from the list, image-orientation
            # on ::marker, the same source also used by an <img>
            for line, out, meta, nontrivial, tags in c13_r4.case_marker_document(rng):
                sec.add(line, out, meta=meta, nontrivial=nontrivial, tags=tags)

        import collections
        total = collections.Counter()
        for sec in run.sections:
            total.update(sec.tags)
        run.extra['model_branches'] = c13_branches.report(total)

    def judge(self, d):
        """The clause itself, stated on the implementation's output (harness/c13_oracle.py)."""
        meta = d.get('meta') if isinstance(d.get('meta'), dict) else {}
        if d['line'].startswith('docok') and d['impl'] != 'ok' and 'doc' in meta:
            # the generated document no longer reads back as designed: state the property on it again
            return c13_docs.judge_document(meta['doc'])
        if d['line'].startswith('docok') and d['impl'] != 'ok' and 'marker_doc' in meta:
            return c13_r4.judge_marker_document(meta['marker_doc'])
        return c13_oracle.judge(d['line'], d['impl'])

    def search(self, run, failures):
        """Fresh inputs on the real implementation, judged by the oracles: function level first (cheap),
        then generated documents."""
        docs.quiet()
        rng = run.rng
        found = []

        def note(what, payload, signature):
            found.append({'what': what, 'input': payload, 'signature': signature})
            return len(found) >= 3
        # inputs of this run that disagreed, re-executed from their line alone
        for f in failures:
            if f['kind'] != 'correspondence':
                continue
            line = f['detail']['line']
            out = c13_exec.execute(line) or c13_r4.execute(line)
            run.search_stats['evaluations'] += 1
            if out is not None:
                what = c13_oracle.judge(line, out)
                if what and note(what, {'line': line, 'impl': out}, line):
                    return found
        cases = (real.case_default_sizing, real.case_constraint, real.case_replacedbox_layout,
                 real.case_used_size, real.case_absolute_replaced, real.case_dedupe, real.case_raster_draw,
                 real.case_draw_replacedbox, real.case_svg_intrinsic, c13_embed.case_embed, real.case_pref_width,
                 c13_embed.case_orientation, c13_embed.case_orientation_angle, c13_embed.case_png_data,
                 c13_r4.case_image_resolution, c13_r4.case_canvas, c13_r4.case_image_ids)
        for k in range(run.n(4000, 40000)):
            adversarial = k % 5 == 0
            batch = [case(rng, adversarial)[:3] for case in cases]
            batch += [c[:3] for c in real.case_backgrounds(rng, adversarial)]
            batch += [c13_svg.case_preserve_ratio(rng, adversarial)[:3], c13_svg.case_svg_draw(rng, adversarial)[:3],
                      c13_svg.case_svg_attr(rng, adversarial)[:3],
                      c13_svg.case_svg_image_element(rng, adversarial)[:3]]
            batch += [c[:3] for c in c13_svg.case_svg_image(rng, adversarial)]
            for line, out, meta in batch:
                run.search_stats['evaluations'] += 1
                what = c13_oracle.judge(line, out)
                if what and note(what, {'line': line, 'impl': out, 'meta': meta}, line.split()[0]):
                    return found
        for k in range(run.n(300, 3000)):
            doc = c13_docs.gen_document(rng)
            run.search_stats['evaluations'] += 1
            what = c13_docs.judge_document(doc)
            if what and note(what, {'doc': doc, 'html': c13_docs.document_html(doc)}, what.split(':')[0]):
                return found
        return found

    @staticmethod
    def regression_cases():
        """The committed inputs of the repaired findings (corpus/C13/*.json with a `fixed` key), as protocol cases."""
        cases = []
        cases += c13_docs.regression_abs_replaced_ratio_only()
        cases += c13_embed.regression_orientation_ccw()
        cases += c13_embed.regression_unwritable_mode()
        cases += c13_svg.regression_par_inherited()
        cases += real.regression_background_round_zero_size()
        cases += c13_r4.regression_image_resolution()
        cases += c13_r4.regression_orientation_not_inherited()
        return cases

    def finding_replays(self):
        docs.quiet()
        return {'grey16-embedded-as-rgb8': c13_embed.finding_grey16,
                'background-no-repeat-axis-wraps': c13_docs.finding_no_repeat_axis_wraps}

    def replay(self, data):
        docs.quiet()
        inp = data.get('input', {})
        if 'doc' in inp:
            return c13_docs.judge_document(c13_docs.revive(inp['doc']))
        meta = inp.get('meta') if isinstance(inp.get('meta'), dict) else {}
        if 'doc' in meta:
            return c13_docs.judge_document(c13_docs.revive(meta['doc']))
        if meta.get('fn') == 'rotate_pillow_image':
            orientation = meta['orientation']
            line, out, _ = c13_embed.run_orientation(
                meta['rows'], orientation if isinstance(orientation, str) else tuple(orientation))
            return c13_oracle.judge(line, out)
        if meta.get('fn') == 'absolute_replaced' and 'html' in meta:
            for line, out, m, _, _ in c13_docs.regression_abs_replaced_ratio_only():
                if m['html'] == meta['html']:
                    return c13_oracle.judge(line, out)
            return None
        if str(meta.get('fn', '')).startswith(('preserve_ratio', 'SVG.draw', 'svg.images.image', 'svg.Node.cascade')):
            for line, out in c13_svg.replay(meta):
                what = c13_oracle.judge(line, out)
                if what:
                    return what
            return None
        if meta.get('fn') == 'marker-document':
            return c13_r4.judge_marker_document(c13_docs.revive(meta['marker_doc']))
        if meta.get('fn') == 'image_resolution':
            return c13_oracle.judge(*c13_r4.run_image_resolution(meta['text']))
        if meta.get('fn') == 'get_image_from_uri.ids':
            return c13_oracle.judge(*c13_r4.run_image_ids([tuple(r) for r in meta['requests']]))
        if meta.get('fn') == 'canvas-document':
            line, out = c13_r4.run_canvas_document(c13_docs.revive(meta['canvas_doc']))
            return c13_oracle.judge(line, out) if line else f'canvas document: {out}'
        if meta.get('fn') == 'docimg-orientation-inherited':
            for line, out, m, _, _ in c13_r4.regression_orientation_not_inherited():
                if m.get('html') == meta['html']:
                    return c13_oracle.judge(line, out)
            return None
        if meta.get('fn') == 'docimg-resolution':
            for line, out, m, _, _ in c13_r4.regression_image_resolution():
                if m.get('html') == meta['html']:
                    return c13_oracle.judge(line, out)
            return None
        if meta.get('fn') == '_get_png_data':
            return c13_oracle.judge(*c13_embed.run_png_data(bytes(meta['file'])))
        if meta.get('fn') == 'RasterImage':
            return c13_oracle.judge(*c13_embed.replay_embed(meta))
        if 'line' in inp:
            out = c13_exec.execute(inp['line'])
            if out is None:
                out = c13_r4.execute(inp['line'])
            if out is None:
                return None
            return c13_oracle.judge(inp['line'], out)
        return None


PROP = C13()

MANIFEST = {
    'design_ref': 'DESIGN.md §4 C13',
    'technique': 'Lean 4 theorems over hand-written executable models of layout/replaced.py (every function), the '
                 'document-level composition resolve_percentages -> inline_replaced_box_layout, the resource scopes '
                 'built by Stream.add_image / add_group / add_pattern, RasterImage._get_png_data (PNG chunk walk), '
                 'svg Node.cascade on the regenerated NOT_INHERITED_ATTRIBUTES, svg/images.py image, the raster '
                 'branch of get_image_from_uri, the '
                 'min_max.py decorators, block_level_width, preferred.py replaced min/max-content widths, '
                 'layout_background_layer / draw_background_image arithmetic, Stream.add_image + _use_references, '
                 'RasterImage.__init__ / get_x_object decisions, RasterImage.draw / draw_replacedbox, '
                 'rotate_pillow_image / computed image-orientation, SVGImage.get_intrinsic_size, svg preserve_ratio / '
                 '<image> box; literals regenerated from the source (Gen/ReplacedConsts) and the whole-domain graph of '
                 'the embedding decisions regenerated by calling the real RasterImage (Gen/RasterEmbedGraph, proved '
                 'equal to the model); exact rational correspondence with the real functions (mock boxes, real Stream '
                 '/ pydyf.PDF / Pillow images / SVG trees) and with rendered documents (box sizes, cm…Do, pattern '
                 'dictionaries, image XObjects of the uncompressed PDF); model-branch histogram in the evidence',
    'text': 'Proved for all inputs of the model: the CSS 2.1 10.3.2/10.6.2 table (intrinsic size / image-resolution, '
            'ratio kept when one dimension is auto, 300x150), clamping to [min, max], the 10.4 min/max table, '
            'contain/cover/default sizing, the object-fit rectangle and object-position, background layers (round = '
            'integer tile count filling the area; space; contain/cover; single image), one image XObject per distinct '
            '(image.id, interpolate) for any nesting with every reference pointing to it and the maximum dpi ratio, '
            'the cm matrices of draw_replacedbox, SMask <=> alpha / transparency for every Pillow mode (also on the '
            'regenerated whole-domain table), pass-through of JPEG / PNG bytes without lossy option, the SVG '
            'viewBox -> viewport mapping for every preserveAspectRatio (none / meet / slice x 9 alignments), '
            'image-orientation (size swap, every quarter turn = css-images-3, clockwise), intrinsic min <= max '
            'contribution, every content stream (page, group, pattern) names each image it paints in its own '
            'resources, the FlateDecode data is exactly the concatenated IDAT payload of the PNG, viewport attributes '
            'of SVG elements are never inherited, the loader never raises on an image Pillow opened, an <img> with '
            'initial sizing properties is pw/res x ph/res and a specified width is clamped to the resolved min/max. '
            'Decoded pixels are compared with Pillow on tiny images of every mode (correspondence, not proof).',
    'note': 'Trusted: Lean kernel, the AST translator of py/extract/replaced_consts.py, the graph translator '
            'py/extract/raster_embed_graph.py, the mock-object harnesses and harness.exactq.Q (float literals taken at '
            'the exact value of the double), Pillow as the reference decoder. Not modelled: JPEG pixel values under '
            'lossy options, the dpi thumbnail path, SVG painting below the root transform, gradients, EXIF-driven '
            'from-image orientation, RasterImage ratio = inf. Document level uses dyadic lengths and power-of-two '
            'image sides. Known findings (partial theorems + witnesses): grey16-embedded-as-rgb8, '
            'background-no-repeat-axis-wraps. Repaired and kept as regression cases + theorems (section '
            '`regressions`): abs-replaced-ratio-only-width, unwritable-mode-crash, svg-preserveaspectratio-inherited, '
            'image-orientation-rotates-ccw, background-round-zero-size, image-orientation-not-inherited, '
            'image-resolution-zero-division (C07).',
}
