"""Properties that have a check (MANIFEST.json is written from this by py/tools/make_manifest.py)."""
PROPS = ['C01', 'C02', 'C03', 'C04', 'C05', 'C06', 'C07', 'C08', 'C09', 'C10', 'C11', 'C12', 'C13', 'C14', 'C15', 'C16', 'C17', 'C18', 'C19', 'C20']

_PENDING = 'no check registered yet: the Lean model and correspondence for this property are still being built (DESIGN.md §8)'
NOT_APPLICABLE = {f'C{i:02d}': _PENDING for i in range(1, 21)}
