"""C20 helpers: a bank of byte strings with the verdicts of the third-party parsers (the model's
`Content` parameter), a recording memory fetcher with every failure mode, the wire encoding of the
model's inputs, and the process-wide audit hook."""
import contextlib
import functools
import io
import logging
import sys
import threading
from pathlib import Path
from xml.etree import ElementTree

from vlib import sx

RES = Path(__file__).resolve().parents[1] / 'resources'


# ---------------------------------------------------------------------------------------------
# wire strings: atoms `'<text>` with ~hh escapes (Drive/Resources.lean `enc` / `str?`)

PLAIN = set('abcdefghijklmnopqrstuvwxyzABCDEFGHIJKLMNOPQRSTUVWXYZ0123456789./:_+*=?#&,!@-')


def enc(s):
    if s is None:
        return 'none'
    out = ["'"]
    for ch in s:
        if ch in PLAIN:
            out.append(ch)
        else:
            code = ord(ch)
            out.append(f'~{code:02x}' if code < 256 else f'~u{code:06x}')
    return ''.join(out)


def exc_sx(exc):
    return [enc(type(exc).__name__), enc(str(exc))]


# ---------------------------------------------------------------------------------------------
# contents

class Content:
    def __init__(self, cid, name, data):
        self.id, self.name, self.data = cid, name, data
        self.xml_ok = self.pil = self.woff = self.woff_ok = self.font_ok = None

    def sx(self):
        pil = 'none' if self.pil is None else pil_sx(self.pil)
        return [self.id, self.xml_ok, pil, self.woff, self.woff_ok, self.font_ok]

    @property
    def image_loads(self):
        """Does the model's decision tree give an image for this content under a neutral MIME type?  (A JPEG is never
        written as PNG; everything else Pillow opens must be writable as PNG when it has to be re-encoded — which is
        always the case for the non-PNG formats.)"""
        if self.pil is not None:
            return self.pil[4] or self.pil[0] in ('JPEG', 'MPO')
        return self.xml_ok


def pil_sx(pil):
    """Wire form of the model's `Pil`: (format, mode, has exif, has transparency, writable as PNG)."""
    return [enc(pil[0]), enc(pil[1]), pil[2], pil[3], pil[4]]


def png_writable(image):
    """Does `save(format='PNG')` accept the image after the mode normalisation of RasterImage.__init__?  (Pillow opens
    images in modes it cannot write as PNG: CMYK or float TIFF, palette + alpha.)"""
    try:
        if 'transparency' in image.info:
            image = image.convert('RGBA')
        elif image.mode in ('1', 'P', 'I'):
            image = image.convert('RGB')
        image.save(io.BytesIO(), format='PNG')
        return True
    except Exception:  # noqa: BLE001
        return False


def _pil_bytes(fmt, mode='RGB', size=(8, 6), shift=0, **kw):
    from PIL import Image
    image = Image.new(mode, size)
    pix = image.load()
    for x in range(size[0]):
        for y in range(size[1]):
            v = (x * 37 + y * 91 + shift) % 256
            if mode in ('RGB',):
                pix[x, y] = (v, 255 - v, (v * 3) % 256)
            elif mode == 'RGBA':
                pix[x, y] = (v, 255 - v, (v * 3) % 256, 128 + v // 2)
            elif mode == 'CMYK':
                pix[x, y] = (v, 255 - v, (v * 3) % 256, 0)
            elif mode == 'LA':
                pix[x, y] = (v, 200)
            elif mode == '1':
                pix[x, y] = v % 2
            elif mode == 'F':
                pix[x, y] = v / 7
            else:
                pix[x, y] = v
    out = io.BytesIO()
    image.save(out, fmt, **kw)
    return out.getvalue()


SVG_OK = b'<svg xmlns="http://www.w3.org/2000/svg" width="12" height="9"><rect width="12" height="9" fill="red"/></svg>'
SVG_IMPORT = (b'<svg xmlns="http://www.w3.org/2000/svg" width="12" height="9"><style>@import "x.css";</style>'
              b'<rect width="12" height="9"/></svg>')
XHTML = b'<html><body><p>not an image</p></body></html>'
HTML = b'<!DOCTYPE html><html><body><p>not an image<br></body>'
CSS_TEXT = b'p { color: red }'


@functools.lru_cache(maxsize=1)
def bank():
    """name -> Content, with oracle verdicts obtained from ElementTree / Pillow / fontTools / fontconfig."""
    from PIL import Image
    exif6 = Image.Exif()
    exif6[0x0112] = 6
    exif1 = Image.Exif()
    exif1[0x0112] = 1
    otf = (RES / 'weasyprint.otf').read_bytes()
    from fontTools.ttLib import TTFont
    woffs = {}
    for flavor in ('woff', 'woff2'):
        try:
            font = TTFont(io.BytesIO(otf))
            font.flavor = flavor
            out = io.BytesIO()
            font.save(out)
            woffs[flavor] = out.getvalue()
        except Exception:   # brotli missing: no woff2 sample
            pass
    png = _pil_bytes('PNG')
    jpeg = _pil_bytes('JPEG')
    raw = {
        'png': png,
        'png_rgba': _pil_bytes('PNG', 'RGBA'),
        'png_l': _pil_bytes('PNG', 'L'),
        'png_la': _pil_bytes('PNG', 'LA'),
        'png_p': _pil_bytes('PNG', 'P'),
        'png_p_transp': _pil_bytes('PNG', 'P', transparency=0),
        'png_1': _pil_bytes('PNG', '1'),
        'png_i': _pil_bytes('PNG', 'I;16'),
        'png_exif': _pil_bytes('PNG', exif=exif6),
        'jpeg': jpeg,
        'jpeg_l': _pil_bytes('JPEG', 'L'),
        'jpeg_cmyk': _pil_bytes('JPEG', 'CMYK'),
        'jpeg_exif6': _pil_bytes('JPEG', exif=exif6),
        'jpeg_exif1': _pil_bytes('JPEG', exif=exif1),
        'gif': _pil_bytes('GIF', 'P'),
        'bmp': _pil_bytes('BMP'),
        'tiff': _pil_bytes('TIFF'),
        'webp': _pil_bytes('WEBP'),
        # same format and mode, other pixels: what a *different* file at the same local path could hold
        'png_twin': _pil_bytes('PNG', shift=101),
        'png_rgba_twin': _pil_bytes('PNG', 'RGBA', shift=101),
        'jpeg_twin': _pil_bytes('JPEG', shift=101),
        'jpeg_l_twin': _pil_bytes('JPEG', 'L', shift=101),
        'svg': SVG_OK,
        'svg_import': SVG_IMPORT,
        'xhtml': XHTML,
        'html': HTML,
        'css': CSS_TEXT,
        'empty': b'',
        'garbage': b'\x00\x01garbage\xff' * 5,
        'png_cut8': png[:8],
        'png_cut20': png[:20],
        'png_cut40': png[:40],
        'png_cut_tail': png[:-12],
        'jpeg_cut30': jpeg[:30],
        'jpeg_cut_half': jpeg[:len(jpeg) // 2],
        'svg_cut': SVG_OK[:40],
        'otf': otf,
        'otf_cut': otf[:200],
        'woff_bad': b'wOFFgarbage-not-a-font',
        'woff2_bad': b'wOF2garbage-not-a-font',
        'wof_other': b'wOFXsomething',
    }
    try:
        from PIL import Image as _I
        im = _I.new('RGB', (8, 6))
        out = io.BytesIO()
        im.save(out, 'MPO', save_all=True, append_images=[im])
        raw['mpo'] = out.getvalue()
    except Exception:
        pass
    # images that Pillow opens but cannot write as PNG (RasterImage re-encodes every non-JPEG, non-PNG image)
    for name, mode in (('tiff_cmyk', 'CMYK'), ('tiff_f', 'F')):
        try:
            raw[name] = _pil_bytes('TIFF', mode)
        except Exception:  # noqa: BLE001
            pass
    raw.update(woffs)
    raw.update(damaged_payloads({'otf': otf, **woffs}, 'font'))
    raw.update(damaged_payloads({'png': png, 'png_rgba': raw['png_rgba'], 'jpeg': jpeg, 'gif': raw['gif'],
                                 'webp': raw['webp'], 'svg': SVG_OK}, 'image', light=True))
    contents = {}
    for cid, (name, data) in enumerate(raw.items(), 1):
        contents[name] = Content(cid, name, data)
    _oracles(contents)
    return contents


DAMAGED = {'font': [], 'image': []}     # names of the damaged payloads, filled by bank()


def damaged_payloads(originals, family, light=False):
    """Damaged-but-plausible variants of real files: truncated at many offsets (inside the header, right after it, in
    the body, in the last bytes), one byte inverted at several positions, wrong / swapped magic numbers.  Deterministic
    (no random choice): the same payloads in every run."""
    out = {}
    magics = {'otf': b'OTTO', 'woff': b'wOFF', 'woff2': b'wOF2'}
    for name, data in originals.items():
        size = len(data)
        cuts = [3, 4, 12, 20, 43, 44, 47, 48, 60, 100, size // 4, size // 2, 3 * size // 4, size - 64, size - 16,
                size - 4, size - 1]
        flips = [5, 13, 30, 50, size // 3, size // 2, 2 * size // 3, size - 10]
        if light:
            cuts, flips = cuts[1::3] + [size - 1], flips[::3]
        for cut in sorted({c for c in cuts if 0 < c < size}):
            out[f'{name}_cut@{cut}'] = data[:cut]
        for pos in sorted({f for f in flips if 0 <= f < size}):
            out[f'{name}_flip@{pos}'] = data[:pos] + bytes([data[pos] ^ 0xFF]) + data[pos + 1:]
        if name in magics:
            for other, magic in magics.items():
                if other != name:
                    out[f'{name}_magic_{other}'] = magic + data[4:]
            out[f'{name}_magic_none'] = b'wOFX' + data[4:]
    DAMAGED[family] = sorted(set(DAMAGED[family]) | set(out))
    return out


def damaged_names(family, predicate=None):
    contents = bank()
    return [n for n in DAMAGED[family] if predicate is None or predicate(contents[n])]


def _oracles(contents):
    from PIL import Image
    from fontTools.ttLib import TTFont, woff2
    from weasyprint.images import SVGImage
    from weasyprint.text.ffi import fontconfig
    from weasyprint.text.fonts import FontConfiguration
    import tempfile
    import atexit
    import shutil
    oracle_config = FontConfiguration()
    cleanup_at_exit(oracle_config)
    tmp = Path(tempfile.mkdtemp(prefix='c20-oracle-'))
    atexit.register(shutil.rmtree, tmp, ignore_errors=True)
    for c in contents.values():
        try:
            tree = ElementTree.fromstring(c.data)
            SVGImage(tree, 'http://oracle/', None, None)
            c.xml_ok = True
        except Exception:
            c.xml_ok = False
        try:
            image = Image.open(io.BytesIO(c.data))
            c.pil = (image.format, image.mode, 'exif' in image.info, 'transparency' in image.info, png_writable(image))
        except Exception:
            c.pil = None
        c.woff = c.data[:3] == b'wOF'
        decoded = c.data
        c.woff_ok = True
        if c.woff:
            try:
                out = io.BytesIO()
                if c.data[3:4] == b'F':
                    font = TTFont(io.BytesIO(c.data))
                    font.flavor = font.flavorData = None
                    font.save(out)
                elif c.data[3:4] == b'2':
                    woff2.decompress(io.BytesIO(c.data), out)
                decoded = out.getvalue()
            except Exception:
                c.woff_ok = False
        path = tmp / f'f{c.id}'
        path.write_bytes(decoded)
        c.font_ok = bool(fontconfig.FcConfigAppFontAddFile(oracle_config._config, str(path).encode()))


def cleanup_at_exit(font_config):
    """FontConfiguration.__del__ is not run for objects alive at interpreter exit: remove its temp folder then."""
    import atexit
    import shutil

    def remove():
        folder = getattr(font_config, '_folder', None)
        if folder:
            shutil.rmtree(folder, ignore_errors=True)
    atexit.register(remove)


def by_id(cid):
    for c in bank().values():
        if c.id == cid:
            return c
    raise KeyError(cid)


def content_of_bytes(data):
    for c in bank().values():
        if c.data == data:
            return c
    return None


# ---------------------------------------------------------------------------------------------
# fetcher outcomes

class Spec:
    """What the fetcher does for one URL."""

    def __init__(self, kind, content=None, exc=None, string=True, file_obj=None, mime=None, redirected=None,
                 has_mime=True):
        self.kind = kind                # 'raises' | 'notdict' | 'resp'
        self.content = content          # Content
        self.exc = exc                  # exception instance for 'raises'
        self.string = string            # 'string' key present
        self.file_obj = file_obj        # None | (read_exc | None, close_raises)
        self.mime = mime
        self.has_mime = has_mime
        self.redirected = redirected

    def sx(self):
        if self.kind == 'raises':
            return ['raises'] + exc_sx(self.exc)
        if self.kind == 'notdict':
            return 'notdict'
        fo = 'none'
        if self.file_obj is not None:
            read_exc, close_raises = self.file_obj
            fo = ['fo', 'none' if read_exc is None else exc_sx(read_exc), close_raises]
        return ['resp', self.string, fo, enc(self.mime if self.has_mime else None), enc(self.redirected),
                self.content.sx()]

    def json(self):
        """JSON-serialisable description (replay files)."""
        def exc(e):
            return None if e is None else [type(e).__name__, str(e)]
        own = self.content is not None and bank().get(self.content.name) is not self.content    # generated text (css, svg)
        return {'kind': self.kind, 'content': self.content.name if self.content is not None else None,
                'data': self.content.data.decode('latin-1') if own else None,
                'xml_ok': bool(self.content.xml_ok) if own else None,
                'exc': exc(self.exc), 'string': self.string,
                'file_obj': None if self.file_obj is None else [exc(self.file_obj[0]), self.file_obj[1]],
                'mime': self.mime, 'has_mime': self.has_mime, 'redirected': self.redirected}

    @staticmethod
    def from_json(d):
        def exc(pair):
            if pair is None:
                return None
            import builtins
            cls = getattr(builtins, pair[0], None)
            if pair[0] == 'URLFetchingError':
                return url_fetching_error(pair[1])
            if not (isinstance(cls, type) and issubclass(cls, Exception)):
                cls = RuntimeError
            return cls(pair[1]) if pair[0] != 'KeyError' else KeyError(pair[1].strip("'"))
        content = None
        if d.get('content') is not None:
            if d.get('data') is not None:
                content = Content(9000, d['content'], d['data'].encode('latin-1'))
                content.xml_ok, content.pil, content.woff, content.woff_ok, content.font_ok = bool(d.get('xml_ok')), None, False, True, False
            else:
                content = bank()[d['content']]
        file_obj = None if d.get('file_obj') is None else (exc(d['file_obj'][0]), d['file_obj'][1])
        return Spec(d['kind'], content=content, exc=exc(d.get('exc')), string=d.get('string', True), file_obj=file_obj,
                    mime=d.get('mime'), has_mime=d.get('has_mime', True), redirected=d.get('redirected'))

    @property
    def escaping(self):
        """One of the outcomes the loaders do not absorb (known finding read-error-not-funnelled, or a fetcher
        breaking its contract): not a dict, neither 'string' nor 'file_obj', read() raises."""
        return self.kind == 'notdict' or (self.kind == 'resp' and not self.delivers)

    @property
    def delivers(self):
        """The fetch hands bytes to the loader (no exception at the fetcher or at read())."""
        if self.kind != 'resp':
            return False
        if self.string:
            return True
        return self.file_obj is not None and self.file_obj[0] is None


class FileObj:
    def __init__(self, recorder, data, read_exc, close_raises):
        self.recorder, self.buffer, self.read_exc, self.close_raises = recorder, io.BytesIO(data), read_exc, close_raises

    closed = False

    def read(self, *args):
        if self.closed:
            raise ValueError('I/O operation on closed file')
        if self.read_exc is not None:
            raise self.read_exc
        return self.buffer.read(*args)

    def close(self):
        self.closed = True
        if self.close_raises:
            self.recorder.events.append('closewarn')
            raise OSError('close failed')
        self.recorder.events.append('close')


RECORDERS = []      # every recording fetcher of the run: their whole logs go through the verified trace checker


class Recorder:
    """The caller's url_fetcher: serves everything from memory, records every call."""

    def __init__(self, table):
        self.table = table
        self.events = []
        self.history = []           # never cleared (take() empties `events`)
        self.check_named = False    # document runs: every URL handed to the fetcher must be named by the document
        self.extra_named = []
        RECORDERS.append(self)
        self.file_objects = []
        self.last_content = None

    def __call__(self, url, *args, **kwargs):
        self.events.append(f'call={enc(str(url))}')      # svg <image> without href hands None to the fetcher
        spec = self.table.get(url)
        if spec is None:
            raise LookupError('unknown')
        if spec.kind == 'raises':
            raise spec.exc
        if spec.kind == 'notdict':
            return None
        self.last_content = spec.content
        result = {}
        if spec.string:
            result['string'] = spec.content.data
        if spec.file_obj is not None:
            result['file_obj'] = FileObj(self, spec.content.data, *spec.file_obj)
            self.file_objects.append(result['file_obj'])
        if spec.has_mime:
            result['mime_type'] = spec.mime
        if spec.redirected is not None:
            result['redirected_url'] = spec.redirected
        return result

    def sx(self):
        return [[enc(url), spec.sx()] for url, spec in self.table.items()]

    def log(self):
        return '[' + ','.join(self.events) + ']'

    def take(self):
        out = self.log()
        self.history.extend(self.events)
        self.events = []
        return out

    def whole_log(self):
        return self.history + self.events


EXCEPTIONS = [
    lambda: OSError('connection reset'), lambda: ValueError('bad url'), lambda: KeyError('k'),
    lambda: TimeoutError('timed out'), lambda: RuntimeError(''), lambda: EOFError('Compressed file ended'),
    lambda: FileNotFoundError('no such file'), lambda: ZeroDivisionError('division by zero'),
]


def url_fetching_error(msg='inner'):
    from weasyprint.urls import URLFetchingError
    return URLFetchingError(msg)


MIMES = [None, 'image/png', 'image/jpeg', 'image/svg+xml', 'text/html', 'text/css', 'application/octet-stream',
         'image/*', 'font/otf', '']


def random_spec(rng, content_names, adversarial=0.08, fail=0.3, mimes=MIMES, redirects=(None,)):
    """A fetch outcome: mostly a valid response, otherwise one of the failure modes."""
    contents = bank()
    r = rng.random()
    if r < adversarial / 2:
        return Spec('notdict')
    if r < fail / 2:
        exc = rng.choice(EXCEPTIONS + [url_fetching_error])()
        return Spec('raises', exc=exc)
    content = contents[rng.choice(content_names)]
    shape = rng.random()
    read_exc = None
    if shape < 0.55:
        string, file_obj = True, None
    elif shape < 0.85:
        if rng.random() < fail / 2:
            read_exc = rng.choice(EXCEPTIONS)()
        string, file_obj = False, (read_exc, rng.random() < 0.15)
    elif shape < 0.85 + adversarial:
        string, file_obj = False, None
    else:
        string, file_obj = True, (rng.choice(EXCEPTIONS)() if rng.random() < 0.3 else None, rng.random() < 0.2)
    return Spec('resp', content=content, string=string, file_obj=file_obj, mime=rng.choice(mimes),
                has_mime=rng.random() < 0.9, redirected=rng.choice(redirects))


# ---------------------------------------------------------------------------------------------
# log capture, Pillow save counter, audit hook

class LogCapture(logging.Handler):
    def __init__(self):
        super().__init__(level=logging.DEBUG)
        self.records = []

    def emit(self, record):
        self.records.append(record)


@contextlib.contextmanager
def captured_log():
    logger = logging.getLogger('weasyprint')
    handler = LogCapture()
    level = logger.level
    logger.addHandler(handler)
    logger.setLevel(logging.DEBUG)
    try:
        yield handler
    finally:
        logger.removeHandler(handler)
        logger.setLevel(level)


@contextlib.contextmanager
def counting_saves():
    """Count `PIL.Image.Image.save` calls (re-encoding) while the block runs."""
    from PIL import Image
    counter = {'n': 0}
    original = Image.Image.save

    def save(self, *args, **kwargs):
        counter['n'] += 1
        return original(self, *args, **kwargs)
    Image.Image.save = save
    try:
        yield counter
    finally:
        Image.Image.save = original


class HarnessTimeout(Exception):
    """Raised inside the implementation when a single case runs longer than its time limit."""


@contextlib.contextmanager
def time_limit(seconds):
    """Interrupt the implementation after `seconds` (main thread, SIGALRM): a regression that makes rendering loop must
    show up as an outcome of the case, not as a hung check.  WeasyPrint swallows exceptions in places (`SVGImage.draw`
    catches BaseException, logs, and goes on), so after the deadline (a) the alarm keeps firing every few milliseconds
    while implementation code runs and (b) a filter on the `weasyprint` logger raises again from inside the `except`
    blocks that log the swallowed exception: the stack is unwound level by level instead of being re-descended."""
    import signal
    import time
    state = {'armed': True, 'deadline': time.monotonic() + seconds}
    logger = logging.getLogger('weasyprint')

    class Deadline(logging.Filter):
        def filter(self, record):
            if state['armed'] and time.monotonic() > state['deadline']:
                raise HarnessTimeout(f'no result after {seconds} s')
            return record.levelno >= level_before

    def handler(signum, frame):
        if not state['armed']:
            return
        filename = frame.f_code.co_filename if frame is not None else ''
        if '/py/harness/' in filename or '/py/props/' in filename or '/py/vlib/' in filename or '/logging/' in filename:
            return
        raise HarnessTimeout(f'no result after {seconds} s')
    if threading.current_thread() is not threading.main_thread():
        yield state
        return
    level_before = logger.level or logging.WARNING
    deadline_filter = Deadline()
    logger.addFilter(deadline_filter)
    if level_before > logging.ERROR:
        logger.setLevel(logging.ERROR)
    previous = signal.signal(signal.SIGALRM, handler)
    signal.setitimer(signal.ITIMER_REAL, seconds, 0.003)
    try:
        yield state
    finally:
        state['armed'] = False
        signal.setitimer(signal.ITIMER_REAL, 0)
        signal.signal(signal.SIGALRM, previous)
        logger.removeFilter(deadline_filter)
        logger.setLevel(level_before)


class Audit:
    """One process-wide audit hook (hooks cannot be removed); records only while `active`."""
    installed = False
    active = False
    events = []
    lock = threading.Lock()

    @classmethod
    def install(cls):
        if cls.installed:
            return
        cls.installed = True

        def hook(event, args):
            if not cls.active:
                return
            if event == 'open':
                path = args[0]
                if isinstance(path, bytes):
                    path = path.decode(errors='replace')
                if isinstance(path, (str, Path)):
                    cls.events.append(('open', str(path)))
            elif event in ('socket.connect', 'socket.getaddrinfo', 'urllib.Request', 'socket.sendto',
                           'socket.gethostbyname', 'http.client.connect'):
                cls.events.append(('net', event + ':' + repr(args[-1] if event != 'urllib.Request' else args[0])[:80]))
            elif event in ('os.listdir', 'os.scandir'):
                cls.events.append(('list', str(args[0])))
        sys.addaudithook(hook)

    @classmethod
    @contextlib.contextmanager
    def watch(cls):
        cls.install()
        cls.events = []
        cls.active = True
        try:
            yield cls.events
        finally:
            cls.active = False
