"""C19 helpers: read layout-derived coordinates back from an uncompressed PDF written by WeasyPrint, and from the
pydyf objects seen by a `finisher`; abstract a rendered `Document` into the wire form of the Lean model.

Everything here reads what the implementation produced; nothing is computed from the model.
"""
import re
from fractions import Fraction

from vlib import sx

OBJ_RE = re.compile(rb'(\d+) 0 obj\n(.*?)\nendobj', re.S)
REF_RE = re.compile(rb'(\d+) 0 R')


def _array(body, key):
    match = re.search(rb'/' + key + rb' \[([^\]]*)\]', body)
    return None if match is None else match.group(1).decode('latin1').split()


def _refs(body, key):
    match = re.search(rb'/' + key + rb' \[([^\]]*)\]', body)
    return [] if match is None else [int(n) for n in REF_RE.findall(match.group(1))]


def _ref(body, key):
    match = re.search(rb'/' + key + rb' (\d+) 0 R', body)
    return None if match is None else int(match.group(1))


PDF_STRING = rb'(?:\(([^)]*)\)|<([0-9a-fA-F]*)>)'


def _pdf_string(literal, hexa):
    """The two groups of PDF_STRING -> the text: a literal ASCII string, or a hex string holding BOM + UTF-16-BE (what
    pydyf.String writes for a non-ASCII string)."""
    if hexa:
        raw = bytes.fromhex(hexa.decode())
        if raw[:2] == b'\xfe\xff':
            return raw[2:].decode('utf-16-be')
        return raw.decode('latin1')
    return (literal or b'').decode('latin1')


def parse_pdf(data):
    """Uncompressed PDF bytes -> the nested list the driver command `pdfdoc` prints (numbers as written)."""
    objects = {int(n): body for n, body in OBJ_RE.findall(data)}
    catalog = next(body for body in objects.values() if b'/Type /Catalog' in body)
    pages_obj = objects[_ref(catalog, b'Pages')]
    kids = _refs(pages_obj, b'Kids')
    page_index = {number: i for i, number in enumerate(kids)}
    pages = []
    for number in kids:
        body = objects[number]
        contents = objects[_ref(body, b'Contents')]
        stream = contents.split(b'stream\n', 1)[1]
        lines = stream.split(b'\n')
        # `1 0 0 -1 0 f cm` / `q` / `s 0 0 s 0 0 cm`
        first = lines[0].decode('latin1').split() if lines else []
        second = lines[2].decode('latin1').split() if len(lines) > 2 else []
        expected_shape = (
            len(first) == 7 and first[:5] == ['1', '0', '0', '-1', '0'] and first[6] == 'cm' and lines[1] == b'q' and
            len(second) == 7 and second[1:3] == ['0', '0'] and second[0] == second[3] and second[4:] == ['0', '0', 'cm'])
        if not expected_shape:
            # not `1 0 0 -1 0 f cm / q / s 0 0 s 0 0 cm`: print what is there, the comparison will fail
            first, second = ['?'] * 5 + ['/'.join(first) or '?'], ['/'.join(second) or '?']
        annots = ['annots']
        for ref in _refs(body, b'Annots'):
            annot = objects[ref]
            if b'/Subtype /Link' not in annot:
                continue
            rect = _array(annot, b'Rect')
            dest = re.search(rb'/Dest ' + PDF_STRING, annot)
            uri = re.search(rb'/URI \(([^)]*)\)', annot)
            if dest is not None:
                annots.append(['internal', _pdf_string(*dest.groups()), *rect])
            else:
                annots.append(['external', uri.group(1).decode('latin1'), *rect])
        pages.append([
            ['media', *_array(body, b'MediaBox')], ['trim', *_array(body, b'TrimBox')],
            ['bleed', *_array(body, b'BleedBox')], ['cm', first[5], second[0]], annots])
    names = ['names']
    match = re.search(rb'/Dests <</Names \[(.*?)\]\]>>', catalog, re.S)
    if match is not None:
        for literal, hexa, ref, x, y in re.findall(PDF_STRING + rb' \[(\d+) 0 R /XYZ (\S+) (\S+) 0',
                                                   match.group(1) + b']'):
            names.append([_pdf_string(literal, hexa), page_index[int(ref)], x.decode(), y.decode()])
    outlines = ['outlines']
    root = _ref(catalog, b'Outlines')
    if root is not None:
        items = []
        for number in sorted(objects):
            body = objects[number]
            match = re.match(rb'<</Title \(([^)]*)\)/Dest \[(\d+) 0 R /XYZ (\S+) (\S+) 0\]/Count (-?\d+)', body)
            if match is None:
                continue
            items.append((number, match, _ref(body, b'Parent')))
        parents = {number: parent for number, _, parent in items}
        for number, match, parent in items:
            depth, up = 1, parent
            while up != root:
                depth, up = depth + 1, parents[up]
            title, ref, x, y, count = match.groups()
            outlines.append([depth, title.decode('latin1'), page_index[int(ref)], x.decode(), y.decode(),
                             'closed' if int(count) < 0 else 'open'])
    return [['pages', *pages], names, outlines]


def frac(value):
    """A float / int produced by the implementation as an exact rational (no rounding)."""
    if isinstance(value, bool):
        raise TypeError(value)
    if isinstance(value, (int, Fraction)):
        return Fraction(value)
    return Fraction(value)


def exact_from_pdf(pdf, document, scale):
    """The pydyf objects of `generate_pdf` (seen by a finisher) -> what `pdfdocx` prints (exact rationals)."""
    import pydyf
    from weasyprint.pdf.stream import Stream
    page_dicts = [obj for obj in pdf.objects if isinstance(obj, pydyf.Dictionary) and obj.get('Type') == '/Page']
    by_reference = {obj.reference: obj for obj in pdf.objects if getattr(obj, 'number', None) is not None}
    page_index = {page.reference: i for i, page in enumerate(page_dicts)}
    pages = []
    for page in page_dicts:
        stream = by_reference[page['Contents']]
        assert isinstance(stream, Stream)
        annots = ['annots']
        for ref in page.get('Annots', []):
            annot = by_reference[ref]
            if annot.get('Subtype') != '/Link':
                continue
            rect = [frac(v) for v in annot['Rect']]
            if 'Dest' in annot:
                annots.append(['internal', annot['Dest'].string, *rect])
            else:
                annots.append(['external', annot['A']['URI'].string, *rect])
        pages.append([
            ['media', *map(frac, page['MediaBox'])], ['trim', *map(frac, page['TrimBox'])],
            ['bleed', *map(frac, page['BleedBox'])], ['rect', *map(frac, stream.page_rectangle)], annots])
    names = ['names']
    dests = pdf.catalog.get('Names', {}).get('Dests')
    if dests is not None:
        array = dests['Names']
        for name, target in zip(array[::2], array[1::2]):
            names.append([name.string, page_index[target[0]], frac(target[2]), frac(target[3])])
    outlines = ['outlines']

    def walk(tree, depth):
        for label, (page, x, y), children, state in tree:
            outlines.append([depth, label, page, frac(x), frac(y), 'closed' if state == 'closed' else 'open'])
            walk(children, depth + 1)
    walk(document.make_bookmark_tree(scale, transform_pages=True), 1)
    return [['pages', *pages], names, outlines]


def wire_page(page):
    """A real `Page` (or a synthetic one) -> the model's page s-expression (exact rationals)."""
    links = [[kind, target, *map(frac, rect)] for kind, target, rect, _ in page.links]
    anchors = [[name, frac(point[0]), frac(point[1])] for name, point in page.anchors.items()]
    bookmarks = [[level, label, frac(x), frac(y), state == 'closed'] for level, label, (x, y), state in page.bookmarks]
    bleed = page.bleed
    return [frac(page.width), frac(page.height),
            [frac(bleed['top']), frac(bleed['right']), frac(bleed['bottom']), frac(bleed['left'])],
            links, anchors, bookmarks]


def atom_ok(text):
    return bool(text) and not any(c in text for c in ' ()\n\t\r;=|')


def wire_ok(pages):
    """Every string of the pages can travel as an atom."""
    for page in pages:
        for kind, target, _, _ in page.links:
            if not atom_ok(target):
                return False
        if not all(atom_ok(name) for name in page.anchors):
            return False
        if not all(atom_ok(label) for _, label, _, _ in page.bookmarks):
            return False
    return True


def dumps(tree):
    return sx.dumps(tree)
