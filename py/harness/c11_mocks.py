"""Mock objects for the C11 function-level correspondences: real box classes, plain-dict styles,
used values set by hand (fractions.Fraction).  Everything random comes from the rng passed in."""
import contextlib
from fractions import Fraction as F


class Style(dict):
    """A plain dict style with the `parent_style` attribute `absolute_width` looks at."""
    parent_style = None


class Ctx:
    """The part of LayoutContext the float functions read."""
    def __init__(self, shapes):
        self.excluded_shapes = shapes


def boxes_mod():
    from weasyprint.formatting_structure import boxes
    return boxes


def dyadic(rng, lo, hi, den=4):
    """A dyadic rational in [lo, hi] with denominator `den`."""
    return F(rng.randint(lo * den, hi * den), den)


def split_sum(rng, total, parts, allow_negative=False):
    """Split `total` into `parts` dyadic summands (quarters); the last takes the rest."""
    out = []
    rest = total
    for _ in range(parts - 1):
        if rest > 0 and rng.random() < 0.5:
            piece = F(rng.randint(0, int(rest * 4)), 4)
        elif allow_negative and rng.random() < 0.1:
            piece = -F(rng.randint(0, 8), 4)
        else:
            piece = F(0)
        out.append(piece)
        rest -= piece
    out.append(rest)
    return out


def set_box_model(box, position_x, position_y, horiz, vert):
    """horiz = (ml, bl, pl, w, pr, br, mr), vert = (mt, bt, pt, h, pb, bb, mb)."""
    box.position_x, box.position_y = position_x, position_y
    (box.margin_left, box.border_left_width, box.padding_left, box.width,
     box.padding_right, box.border_right_width, box.margin_right) = horiz
    (box.margin_top, box.border_top_width, box.padding_top, box.height,
     box.padding_bottom, box.border_bottom_width, box.margin_bottom) = vert
    return box


def real_shape(rng, shape):
    """A real BlockBox whose margin box is the wire shape (x, y, mw, mh, side); the margin width and
    height are split at random over margins / borders / paddings / content so that the real
    `margin_width()` / `margin_height()` are exercised."""
    boxes = boxes_mod()
    x, y, mw, mh, side = shape
    box = boxes.BlockBox('div', Style({'float': side, 'position': 'static', 'overflow': 'visible'}), None, [])
    ml, mr, w = split3(rng, mw)
    mt, mb, h = split3(rng, mh)
    bl, pl, w, pr, br = split_sum(rng, w, 5) if w >= 0 else (F(0), F(0), w, F(0), F(0))
    bt, pt, h, pb, bb = split_sum(rng, h, 5) if h >= 0 else (F(0), F(0), h, F(0), F(0))
    return set_box_model(box, x, y, (ml, bl, pl, w, pr, br, mr), (mt, bt, pt, h, pb, bb, mb))


def split3(rng, total):
    """total = a + b + rest with small margins a, b (sometimes negative)."""
    def margin():
        r = rng.random()
        if r < 0.5:
            return F(0)
        if r < 0.93:
            return F(rng.randint(0, 40), 4)
        return -F(rng.randint(1, 20), 4)
    a, b = margin(), margin()
    return a, b, total - a - b


KIND_NAMES = ('line', 'table', 'replaced', 'bfc', 'other')


def real_abox(wire):
    """wire = (px, py, mt, mb, ml, mr, bw, bh, float, clear, kind) -> a real box of the class the kind
    names; bw / bh go entirely into width / height (the split is exercised on the shapes)."""
    boxes = boxes_mod()
    px, py, mt, mb, ml, mr, bw, bh, float_, clear, kind = wire
    style = Style({'float': float_, 'clear': clear, 'position': 'static', 'overflow': 'visible',
                   'display': ('block', 'flow')})
    if kind == 'line':
        box = boxes.LineBox('div', style, None, [])
    elif kind == 'replaced':
        box = boxes.BlockReplacedBox('img', style, None, None)
    else:
        box = boxes.BlockBox('div', style, None, [])
        if kind == 'table':
            box.is_table_wrapper = True
        elif kind == 'bfc':
            style['overflow'] = 'hidden'
    z = F(0)
    return set_box_model(box, px, py, (ml, z, z, bw, z, z, mr), (mt, z, z, bh, z, z, mb))


def real_cb(wire, rng=None):
    """wire = (cx, w, rtl): a BlockBox whose content box starts at cx."""
    boxes = boxes_mod()
    cx, w, rtl = wire
    box = boxes.BlockBox('div', Style({'direction': 'rtl' if rtl else 'ltr', 'float': 'none'}), None, [])
    if rng is not None:
        ml, bl, pl = F(rng.randint(0, 8), 2), F(rng.randint(0, 4), 2), F(rng.randint(0, 8), 2)
    else:
        ml = bl = pl = F(0)
    z = F(0)
    return set_box_model(box, cx - ml - bl - pl, z, (ml, bl, pl, w, z, z, z), (z, z, z, F(100), z, z, z))


@contextlib.contextmanager
def patched_content_widths():
    """`shrink_to_fit` stays the real function; the min/max-content widths of the (childless) mock
    box are read from `box._minc` / `box._maxc`."""
    from weasyprint.layout import preferred
    old_min, old_max = preferred.min_content_width, preferred.max_content_width
    preferred.min_content_width = lambda context, box, outer=True: box._minc
    preferred.max_content_width = lambda context, box, outer=True: box._maxc
    try:
        yield
    finally:
        preferred.min_content_width, preferred.max_content_width = old_min, old_max


class FakeReplacement:
    """An image without intrinsic size: `inline_replaced_box_width_height` keeps the given sizes."""
    def get_intrinsic_size(self, resolution, font_size):
        return None, None, None


class Hang(Exception):
    """The implementation did not return within the time limit (reported as `err:Hang`)."""


HANGS = [0]


def outcome(fn, seconds=5.0):
    """`docs.outcome` with a CPU-time limit (process time, so that a loaded machine cannot trip it), so
    that a non-terminating loop of the implementation is an outcome (`err:Hang`) of the case instead
    of a hang of the check.  After three hangs the limit drops to a twenty-fifth (a broken loop would
    otherwise cost the full limit on every case)."""
    import signal
    active = [True]

    def on_alarm(signum, frame):
        if active[0]:
            active[0] = False
            raise Hang()
    limit = seconds if HANGS[0] < 3 else seconds / 25
    old = signal.signal(signal.SIGPROF, on_alarm)
    signal.setitimer(signal.ITIMER_PROF, limit)
    try:
        return fn()
    except Hang:
        HANGS[0] += 1
        return 'err:Hang'
    except Exception as exc:  # noqa: BLE001 - every class is an outcome kind
        return f'err:{type(exc).__name__}'
    finally:
        active[0] = False
        signal.setitimer(signal.ITIMER_PROF, 0)
        signal.signal(signal.SIGPROF, old)
