"""C19 history harness (validation / search, not a model correspondence): the same input rendered under different
histories, object sharing, processes and hash seeds must give the same layout fingerprint and the same PDF bytes
(fixed identifier, SOURCE_DATE_EPOCH), and must leave the caller's objects unchanged.

Also run as a script in a fresh interpreter:  python c19_history.py jobs.json   (prints a JSON list of results).
"""
import base64
import copy
import hashlib
import io
import json
import os
import sys

IDENTIFIER = b'c19-fixed-identifier'
EPOCH = '1600000000'


# ------------------------------------------------------------------------------------------- documents

def _data_uri(fmt, seed):
    from PIL import Image
    image = Image.new('RGB', (24, 16))
    for y in range(16):
        for x in range(24):
            image.putpixel((x, y), ((x * 11 + seed * 37) % 256, (y * 17 + seed * 5) % 256, (x * y + seed) % 256))
    out = io.BytesIO()
    image.save(out, format=fmt)
    mime = 'image/png' if fmt == 'PNG' else 'image/jpeg'
    return f'data:{mime};base64,{base64.b64encode(out.getvalue()).decode()}'


FEATURES = ['list', 'table', 'flex', 'grid', 'float', 'image', 'image-jpeg', 'target-counter', 'running', 'footnote',
            'columns', 'quotes', 'counter-style', 'abs', 'var', 'orientation', 'inline-block', 'hyphens',
            'inline-svg', 'svg-image', 'decorations', 'attachment']
# features whose code paths keep per-object or per-process state (the drawing code of SVG nodes works on attribute
# dictionaries, set-valued computed values are iterated, images are cached): every job pool contains each of them
STATEFUL_FEATURES = ['inline-svg', 'decorations', 'svg-image', 'image-jpeg', 'attachment']


class frozen_clock:
    """`datetime.now()` as weasyprint/__init__.py reads it, frozen.  The dates of attachments embedded from a URL are the
    wall clock of the moment the Attachment object is built (known finding attachment-dates-from-wall-clock): frozen
    here so that everything else about documents with attachments - written twice, copied, rendered under other
    histories and in other processes - stays comparable byte for byte.  The finding's replay runs unfrozen."""
    MOMENT = (2020, 1, 2, 3, 4, 5)

    def __enter__(self):
        import datetime as datetime_module
        import weasyprint
        self.saved = weasyprint.datetime
        moment = self.MOMENT

        class Frozen(datetime_module.datetime):
            @classmethod
            def now(cls, tz=None):
                return datetime_module.datetime(*moment, tzinfo=tz)
        weasyprint.datetime = Frozen
        return self

    def __exit__(self, *args):
        import weasyprint
        weasyprint.datetime = self.saved


def gen_svg(rng, tag, rewriting=False):
    """An <svg> element using what the SVG cascade and drawing code rewrite per node: presentation attributes
    inherited from groups, style declarations, currentColor, <use x y>, gradients, clip paths, markers, text.
    `rewriting`: also the constructs for which the unchanged code rewrites the element tree it was given (patterns,
    masks, text with collapsible white space, nested <svg> without a size: known finding svg-rewrites-element-tree)."""
    ident = lambda name: f'{tag}{name}'   # noqa: E731 - ids are unique per document
    defs = [f'<rect id="{ident("t")}" width="12" height="12"/>',
            f'<linearGradient id="{ident("g")}" x1="0" x2="1"><stop offset="0" stop-color="red"/>'
            f'<stop offset="1" stop-color="blue"/></linearGradient>',
            f'<clipPath id="{ident("c")}"><circle cx="20" cy="20" r="15"/></clipPath>',
            f'<marker id="{ident("k")}" markerWidth="4" markerHeight="4"><circle cx="2" cy="2" r="2"/></marker>',
            f'<g id="{ident("s")}"><circle r="4"/><rect x="5" width="6" height="6"/></g>']
    if rewriting:
        defs += [f'<pattern id="{ident("p")}" width="0.25" height="0.5"><circle cx="3" cy="3" r="2" fill="green"/>'
                 '</pattern>', f'<mask id="{ident("m")}"><rect width="60" height="30" fill="white"/></mask>']
    shapes = [
        f'<circle cx="{rng.randrange(8, 30)}" cy="{rng.randrange(8, 40)}" r="{rng.randrange(3, 9)}"/>',
        f'<use href="#{ident("t")}" x="{rng.randrange(30, 60)}" y="{rng.randrange(2, 20)}"/>',
        f'<use href="#{ident("t")}" x="{rng.randrange(60, 100)}" y="{rng.randrange(20, 44)}" fill="red"/>',
        f'<use href="#{ident("s")}" x="{rng.randrange(10, 90)}" y="{rng.randrange(40, 52)}" stroke="none"/>',
        f'<rect x="70" y="4" width="30" height="12" fill="url(#{ident("g")})"/>',
        f'<rect x="4" y="44" width="40" height="40" clip-path="url(#{ident("c")})"/>',
        f'<path d="M 5 5 l 10 10 l 10 -10" marker-mid="url(#{ident("k")})" fill="none"/>',
        f'<path d="M 50 30 l 10 10 l 10 -10 z" style="fill:none;stroke-width:{rng.randrange(1, 4)}"/>',
        '<text x="40" y="28" font-size="8" fill="currentColor" stroke="none">ab</text>',
        f'<g transform="translate({rng.randrange(0, 9)},2)" fill="inherit"><rect width="5" height="5"/></g>',
    ]
    chosen = rng.sample(shapes, rng.randrange(2, len(shapes) + 1))
    # text (always): the drawing code keeps a text cursor on the SVG object while it walks the tree - hidden and
    # undisplayed <text> with visible children, <text> positioned only by dx / dy / transform, x lists, spacing, anchors.
    # No collapsible white space (that is the known finding svg-rewrites-element-tree).
    visibility = rng.choice(['hidden', 'collapse'])
    chosen += [f'<text x="{rng.randrange(2, 9)}" y="12" font-size="8" visibility="{visibility}">ab'
               f'<tspan visibility="visible">cd</tspan></text>',
               f'<text font-size="8" dy="{rng.randrange(20, 28)}" transform="translate(4,0)">ef'
               f'<tspan dx="2" dy="{rng.randrange(1, 5)}">gh</tspan></text>',
               f'<text x="10 20 30" y="50" font-size="8" letter-spacing="{rng.choice([0, 1, 2])}" '
               f'text-anchor="{rng.choice(["start", "middle", "end"])}">ijk</text>',
               '<text x="60" y="50" font-size="8" display="none">zz<tspan>y</tspan></text>',
               f'<text font-size="8" transform="translate({rng.randrange(60, 80)},30)">lm</text>']
    # what the walk leaves behind is what its LAST element leaves, and the FIRST element is the one that would see it on
    # the next walk of the same object: a <text> without x / y first, a hidden <text> with a visible child last
    chosen = ([f'<text font-size="8" dy="{rng.randrange(8, 12)}" transform="translate(90,0)">n'
               f'<tspan dy="2">o</tspan></text>'] + chosen +
              [f'<text x="100" y="{rng.randrange(40, 56)}" font-size="8" visibility="hidden">p'
               f'<tspan visibility="visible">qr</tspan></text>'])
    if rewriting:
        chosen += [f'<rect x="4" y="44" width="40" height="12" fill="url(#{ident("p")})"/>',
                   f'<rect x="50" y="44" width="40" height="12" mask="url(#{ident("m")})"/>',
                   '<text x="4" y="20" font-size="8">  a  b <tspan> c </tspan> d </text>',
                   '<svg x="5" y="5"><rect width="5" height="5"/></svg>']
    group = (f'<g fill="{rng.choice(["lime", "orange", "currentColor"])}" stroke="blue" '
             f'stroke-width="{rng.choice([1, 2])}" style="opacity:{rng.choice(["1", ".75"])}">' + ''.join(chosen) + '</g>')
    return ('<svg xmlns="http://www.w3.org/2000/svg" xmlns:xlink="http://www.w3.org/1999/xlink" width="60" height="30" '
            f'viewBox="0 0 120 60" color="purple"><defs>{"".join(defs)}</defs>{group}</svg>')


def gen_rich_doc(rng, force=()):
    """A small document exercising many layout modules; lengths are arbitrary (no exact model is involved).
    `force`: features the document must contain."""
    width, height = rng.choice([120, 160, 200]), rng.choice([90, 120, 150])
    features = list(force) + [f for f in rng.sample(FEATURES, rng.randrange(2, 7)) if f not in force]
    css = [f'@page{{size:{width}px {height}px;margin:8px;bleed:{rng.choice([0, 3, 14])}px;'
           '@top-center{content:string(head) " " counter(page) "/" counter(pages);font-size:6px}}',
           'html,body{margin:0}body{font-family:weasyprint;font-size:8px;line-height:10px}'
           'h1,h2,p,ul,ol,div{margin:0 0 2px 0}h1{font-size:10px;string-set:head content(text)}h2{font-size:9px}'
           'a{color:blue}']
    body = []
    n = [0]

    def ident():
        n[0] += 1
        return f'i{n[0]}'
    words = ['ab', 'cde', 'f', 'ghij', 'kl', 'mnopq', 'rs', 'tuv']

    def text(k):
        return ' '.join(rng.choice(words) for _ in range(k))
    anchors = []
    for feature in features:
        anchor = ident()
        anchors.append(anchor)
        level = rng.choice([1, 2])
        body.append(f'<h{level} id="{anchor}">{text(2)}</h{level}>')
        if feature == 'list':
            items = ''.join(f'<li>{text(2)}</li>' for _ in range(rng.randrange(2, 6)))
            body.append(f'<ol style="list-style-type:{rng.choice(["decimal", "lower-roman", "upper-alpha"])}">{items}</ol>')
        elif feature == 'counter-style':
            css.append('@counter-style stars{system:cyclic;symbols:"*" "+";suffix:" "}')
            items = ''.join(f'<li>{text(1)}</li>' for _ in range(rng.randrange(2, 5)))
            body.append(f'<ul style="list-style-type:stars">{items}</ul>')
        elif feature == 'table':
            rows = ''.join('<tr>' + ''.join(f'<td>{text(1)}</td>' for _ in range(3)) + '</tr>'
                           for _ in range(rng.randrange(2, 7)))
            body.append(f'<table style="border-collapse:{rng.choice(["collapse", "separate"])};width:100%">'
                        f'<thead><tr><th>a</th><th>b</th><th>c</th></tr></thead>{rows}</table>')
        elif feature == 'flex':
            kids = ''.join(f'<div style="flex:{rng.choice(["1", "0 1 30px", "2 1 0"])}">{text(1)}</div>'
                           for _ in range(rng.randrange(2, 5)))
            body.append(f'<div style="display:flex;gap:{rng.choice([0, 4])}px;flex-wrap:{rng.choice(["wrap", "nowrap"])}">'
                        f'{kids}</div>')
        elif feature == 'grid':
            kids = ''.join(f'<div>{text(1)}</div>' for _ in range(rng.randrange(2, 7)))
            body.append(f'<div style="display:grid;grid-template-columns:1fr 2fr {rng.choice(["20px", "auto"])};gap:2px">'
                        f'{kids}</div>')
        elif feature == 'float':
            body.append(f'<div style="float:{rng.choice(["left", "right"])};width:30px;height:14px;background:red"></div>'
                        f'<p>{text(9)}</p><div style="clear:both"></div>')
        elif feature in ('image', 'image-jpeg', 'orientation'):
            uri = _data_uri('JPEG' if feature == 'image-jpeg' else 'PNG', rng.randrange(3))
            style = 'width:24px'
            if feature == 'orientation':
                style += f';image-orientation:{rng.choice(["90deg", "180deg flip", "none"])}'
                body.append(f'<p><img src="{uri}" style="width:24px"></p>')
            body.append(f'<p><img src="{uri}" style="{style}"> {text(2)}</p>')
        elif feature == 'target-counter':
            css.append('a.ref::after{content:" p." target-counter(attr(href), page)}')
            target = rng.choice(anchors)
            body.append(f'<p><a class="ref" href="#{target}">{text(1)}</a> {text(3)}</p>')
        elif feature == 'running':
            body.append(f'<h1>{text(1)}</h1><p>{text(6)}</p>')
        elif feature == 'footnote':
            css.append('.fn{float:footnote}')
            body.append(f'<p>{text(3)}<span class="fn">{text(3)}</span> {text(2)}</p>')
        elif feature == 'columns':
            body.append(f'<div style="columns:2;column-gap:6px">{text(rng.randrange(8, 30))}</div>')
        elif feature == 'quotes':
            body.append(f'<p lang="{rng.choice(["en", "fr", "de"])}"><q>{text(2)} <q>{text(1)}</q></q></p>')
        elif feature == 'abs':
            body.append(f'<div style="position:relative;height:20px"><div style="position:absolute;right:2px;top:3px">'
                        f'{text(1)}</div></div>')
        elif feature == 'var':
            css.append(':root{--gap:3px}')
            body.append(f'<p style="padding-left:var(--gap);margin-top:calc(var(--gap) * 2)">{text(4)}</p>')
        elif feature == 'inline-block':
            body.append(f'<p>{text(2)} <span style="display:inline-block;width:20px;border:1px solid">{text(2)}</span></p>')
        elif feature == 'hyphens':
            body.append(f'<p lang="en" style="hyphens:auto;width:40px">{"hyphenation " * 3}</p>')
        elif feature == 'inline-svg':
            body.append(f'<div style="display:block">{gen_svg(rng, anchor)}</div>')
            if rng.random() < 0.5:
                body.append(f'<p>{text(2)} {gen_svg(rng, anchor + "b")}</p>')
        elif feature == 'svg-image':
            uri = 'data:image/svg+xml;base64,' + base64.b64encode(gen_svg(rng, anchor).encode()).decode()
            body.append(f'<p><img src="{uri}" style="width:60px"> {text(1)} <img src="{uri}" style="width:30px"></p>')
            if rng.random() < 0.5:
                body.append(f'<div style="height:20px;background:url({uri}) no-repeat"></div>')
        elif feature == 'attachment':
            # embedded files (a document with attachments can be written twice since a0bb005): the same file linked
            # twice, another one, one the fetcher cannot load, and a document-level one (a <link> is read wherever it is)
            payload = base64.b64encode(f'file {rng.randrange(3)}'.encode()).decode()
            other = base64.b64encode(b'other file').decode()
            body.append(f'<link rel="attachment" href="data:text/plain;base64,{other}" title="doc level">'
                        f'<p><a rel="attachment" href="data:text/plain;base64,{payload}">{text(1)}</a> {text(1)} '
                        f'<a rel="attachment" href="data:text/plain;base64,{payload}" download="b.txt">{text(1)}</a> '
                        f'<a rel="attachment" href="data:application/octet-stream;base64,{other}">{text(1)}</a>'
                        + (f' <a rel="attachment" href="missing-file.bin">{text(1)}</a>' if rng.random() < 0.3 else '')
                        + '</p>')
        elif feature == 'decorations':
            # values that come from RULES (the job's user CSS object DECORATION_SHEET, shared between renders; the UA
            # sheet for u / s / ins / del): an element with its own lines below an ancestor with other lines, and the
            # same rule applied outside such an ancestor.  What the cascade merges must be new objects: the values of
            # a parsed declaration belong to the sheet, not to the render.
            classes = ['du', 'ds', 'do', 'dq', 'dc', 'df']
            a, b, c = rng.sample(['du', 'ds', 'do'], 3)
            body.append(f'<p><span class="{a}">{text(1)} <span class="{b} {rng.choice(classes)}">{text(1)} '
                        f'<span class="{c}">{text(1)}</span></span></span> <span class="{b}">{text(1)}</span> '
                        f'<span class="{c} {rng.choice(classes)}"><q>{text(1)}</q></span></p>')
            x, y = rng.sample(['u', 's', 'ins', 'del', 'strike'], 2)
            body.append(f'<p><{x}>{text(1)} <{y}>{text(1)}</{y}></{x}> <{y}>{text(1)}</{y}> '
                        f'<a href="#{anchor}"><{y}>{text(1)}</{y}></a></p>')
            lines = ['underline', 'overline', 'line-through']
            for _ in range(rng.randrange(1, 4)):
                outer = ' '.join(rng.sample(lines, rng.randrange(2, 4)))
                inner = ' '.join(rng.sample(lines, rng.randrange(1, 3)))
                extra = rng.choice(['', ';text-decoration-color:red', ';text-decoration-style:wavy',
                                    ';text-decoration-thickness:2px;text-underline-offset:1px'])
                body.append(f'<p style="text-decoration:{outer}{extra}">{text(2)} '
                            f'<span style="text-decoration:{inner}">{text(2)}</span> '
                            f'<a href="#{anchor}" style="text-decoration:underline overline">{text(1)}</a></p>')
        if rng.random() < 0.3:
            body.append(f'<p>{text(rng.randrange(5, 40))}</p>')
        if rng.random() < 0.2:
            body.append('<div style="break-before:page"></div>')
    links = ''.join(f'<a href="#{a}">{a}</a> ' for a in rng.sample(anchors, min(len(anchors), 2)))
    body.append(f'<p>{links}<a href="http://x.org/">x</a></p>')
    html = ('<html lang="en"><head><title>doc</title><meta name="author" content="c19"><meta name="author" content="second author">'
            '<meta name="keywords" content="alpha, beta, gamma, delta"><meta name="description" content="d">'
            '<meta name="dcterms.created" content="2020-01-02T03:04:05Z"><style>' + ''.join(css) +
            '</style></head><body>' + ''.join(body) + '</body></html>')
    return html, features


# rules whose values are containers (a set, tuples, lists): shared by the renders that use the same CSS object
DECORATION_SHEET = ('.du{text-decoration:underline}.ds{text-decoration:line-through}.do{text-decoration:overline}'
                    '.dq{quotes:"<" ">" "(" ")"}.dc{counter-increment:dc 2}.df{font-feature-settings:"liga" 0}')


def gen_ua_doc(rng, flip=False):
    """A document for the REAL user-agent style sheet (the module-level `HTML5_UA_STYLESHEET`, shared by every
    render of the process): the inline elements it styles, nested at random and alone."""
    inline = ['u', 's', 'ins', 'del', 'strike', 'a href="#t"', 'abbr title="x"', 'b', 'i', 'em', 'sub', 'sup', 'q',
              'code', 'small', 'mark', 'cite']
    words = ['ab', 'cde', 'f', 'ghij', 'kl']

    def element(depth):
        tag = rng.choice(inline)
        inner = rng.choice(words)
        if depth < 3 and rng.random() < 0.7:
            inner += ' ' + element(depth + 1)
        return f'<{tag}>{inner}</{tag.split()[0]}>'
    blocks = [f'<p id="t">{rng.choice(words)}</p>']
    # the two decoration rules of the UA sheet (`:link, ins, u` / `del, s, strike`), each used alone before and after an
    # element of one nested in an element of the other (which one is outside depends on `flip`)
    under, through = rng.choice(['u', 'ins']), rng.choice(['s', 'del', 'strike'])
    outer, inner = (through, under) if flip else (under, through)
    alone = f'<{under}>{rng.choice(words)}</{under}> <{through}>{rng.choice(words)}</{through}>'
    blocks.append(f'<p>{alone} <{outer}>{rng.choice(words)} <{inner}>{rng.choice(words)}</{inner}></{outer}> {alone}</p>')
    for _ in range(rng.randrange(2, 6)):
        blocks.append('<p>' + ' '.join(element(0) for _ in range(rng.randrange(1, 4))) + '</p>')
    if rng.random() < 0.5:
        blocks.append(f'<ul><li>{element(1)}</li><li>{rng.choice(words)}</li></ul>')
    if rng.random() < 0.5:
        blocks.append(f'<blockquote>{element(0)}</blockquote><pre>{rng.choice(words)}</pre><h2>{element(1)}</h2>')
    return ('<html lang="en"><head><title>ua</title><style>@page{size:200px 160px;margin:10px}</style></head><body>' +
            ''.join(blocks) + '</body></html>')


def gen_counter_family(rng, number):
    """Documents whose lists use counter styles that EXTEND another style (predefined: lower-latin / upper-latin /
    decimal-leading-zero; an author style, defined alike in every document), identical but for one thing: some redefine
    the extended style (lower-alpha / upper-alpha / decimal) with @counter-style.  The UA styles are written again into
    the CounterStyle of every render, so with one CounterStyle object shared by the renders each document still gives
    what it gives alone: whatever is resolved from the dictionary is resolved from the dictionary of this render."""
    base, extending = rng.choice([('lower-alpha', 'lower-latin'), ('upper-alpha', 'upper-latin'),
                                  ('decimal', 'decimal-leading-zero')])
    own = f'own{number}'
    items = ''.join(f'<li>{rng.choice(["ab", "c", "def"])}</li>' for _ in range(rng.randrange(2, 5)))
    body = (f'<ol style="list-style-type:{extending}">{items}</ol><ol style="list-style-type:{own}">{items}</ol>'
            f'<p style="counter-increment:c 3">x<span style="content:counter(c, {extending})"></span></p>'
            f'<ol style="list-style-type:{base}"><li>z</li></ol>')
    style = ('@page{size:200px 150px;margin:8px}html,body{margin:0}body{font-family:weasyprint;font-size:8px}'
             f'@counter-style {own}{{system:extends {base};suffix:") "}}')
    redefinitions = [f'@counter-style {base}{{system:cyclic;symbols:"#" "+";suffix:" "}}',
                     f'@counter-style {base}{{system:fixed;symbols:"x" "y" "z" "w" "v";suffix:"/"}}']
    head = '<html lang="en"><head><title>c</title><style>'
    return [head + extra + style + '</style></head><body>' + body + '</body></html>'
            for extra in ['', redefinitions[0], redefinitions[1]]]


def gen_binding_pair(rng, number):
    """Two documents with the same computed font style (family name, size, `line-height: normal`, …) in which the family
    resolves to different fonts: one binds the name with @font-face to the test font, the other does not (fallback).
    Whatever is memoised per font style must be memoised per render."""
    from harness import docs
    family = f'brand{number}'
    size = rng.choice([9, 12, 16])
    words = ['ab', 'cde', 'f', 'ghij']
    body = ''.join(f'<p>{" ".join(rng.choice(words) for _ in range(rng.randrange(1, 5)))}'
                   f'{"<br>" + rng.choice(words) if rng.random() < 0.5 else ""}</p>' for _ in range(rng.randrange(2, 5)))
    if rng.random() < 0.5:
        body += f'<p lang="en" style="hyphens:auto;width:40px">{"hyphenation " * 2}</p>'
    style = (f'@page{{size:200px 150px;margin:8px}}html,body{{margin:0}}body{{font-family:{family};'
             f'font-size:{size}px}}p{{margin:0 0 2px 0}}')
    face = f'@font-face{{font-family:{family};src:url(file://{docs.RES / "weasyprint.otf"})}}'
    head = '<html lang="en"><head><title>b</title><style>'
    return (head + face + style + '</style></head><body>' + body + '</body></html>',
            head + style + '</style></head><body>' + body + '</body></html>')


USER_CSS_FILE = os.path.join(os.path.dirname(os.path.dirname(os.path.abspath(__file__))), 'resources', 'c19_user.css')
USER_SHEETS = [None, 'p{margin-left:3px}', 'h2{color:green;padding-top:1px}@page{margin-bottom:10px}']


# ------------------------------------------------------------------------------------------- fingerprints

def layout_fingerprint(document):
    parts = []
    for page in document.pages:
        parts.append(f'page {page.width!r} {page.height!r} {sorted(page.bleed.items())!r}')
        for box in page._page_box.descendants():
            fields = [type(box).__name__, str(box.element_tag)]
            for name in ('position_x', 'position_y', 'width', 'height', 'margin_top', 'margin_left', 'text'):
                if hasattr(box, name):
                    fields.append(repr(getattr(box, name)))
            parts.append(' '.join(fields))
        parts.append(repr([(k, t, r) for k, t, r, _ in page.links]))
        parts.append(repr(sorted(page.anchors.items())))
        parts.append(repr(page.bookmarks))
    return hashlib.md5('\n'.join(parts).encode()).hexdigest()


def deep_fingerprint(obj, depth=7, seen=None):
    """A structural digest of a caller-owned object (attributes, containers, primitives)."""
    seen = set() if seen is None else seen
    if obj is None or isinstance(obj, (bool, int, float, str, bytes)):
        return repr(obj)
    if id(obj) in seen or depth == 0:
        return '<…>'
    seen.add(id(obj))
    if isinstance(obj, dict):
        items = [(deep_fingerprint(k, depth - 1, seen), deep_fingerprint(v, depth - 1, seen)) for k, v in obj.items()]
        return '{' + ','.join(f'{k}:{v}' for k, v in items) + '}'
    if isinstance(obj, (list, tuple)):
        return '[' + ','.join(deep_fingerprint(v, depth - 1, seen) for v in obj) + ']'
    if isinstance(obj, (set, frozenset)):
        return '{' + ','.join(sorted(deep_fingerprint(v, depth - 1, seen) for v in obj)) + '}'
    if callable(obj) or isinstance(obj, type):
        return f'<callable {getattr(obj, "__qualname__", type(obj).__name__)}>'
    state = getattr(obj, '__dict__', None)
    if state is None:
        slots = getattr(type(obj), '__slots__', None)
        if slots:
            # no temporary dict goes through `seen`: its id could be that of an earlier, freed temporary
            if depth <= 1:
                return f'<{type(obj).__name__} <…>>'
            names = [slots] if isinstance(slots, str) else list(slots)
            inner = ','.join(f'{name!r}:{deep_fingerprint(getattr(obj, name, None), depth - 2, seen)}'
                             for name in names)
            return f'<{type(obj).__name__} {{{inner}}}>'
        return f'<{type(obj).__name__}>'
    return f'<{type(obj).__name__} ' + deep_fingerprint(state, depth - 1, seen) + '>'


def html_snapshot(html):
    from xml.etree import ElementTree
    return hashlib.md5(ElementTree.tostring(html.etree_element) + repr((html.base_url, html.media_type)).encode()
                       ).hexdigest()


def ua_sheet_of(html):
    """The user-agent CSS object a render of this HTML object reads: the environment's, or the module-level one."""
    sheet = getattr(type(html), 'ua_sheet', None)
    if sheet is None:
        from weasyprint.html import HTML5_UA_STYLESHEET
        sheet = HTML5_UA_STYLESHEET
    return sheet


def snapshot(html, sheets, options, font_config, sheet_list=None):
    out = {'html': html_snapshot(html), 'ua-sheet': hashlib.md5(
               deep_fingerprint(ua_sheet_of(html), depth=14).encode()).hexdigest(), 'options': deep_fingerprint({k: v for k, v in options.items() if k != 'cache'
                                                                      and k != 'stylesheets'})}
    if sheet_list is not None:
        out['stylesheets-list'] = repr([x if isinstance(x, str) else id(x) for x in sheet_list])
    # deep enough to reach the values of the declarations inside the selector matcher of a CSS object
    out['css'] = [hashlib.md5(deep_fingerprint(sheet, depth=14).encode()).hexdigest() for sheet in sheets]
    if font_config is not None:
        out['font_config'] = hashlib.md5(deep_fingerprint(
            {k: v for k, v in font_config.__dict__.items()}).encode()).hexdigest()
    return out


# ------------------------------------------------------------------------------------------- one job

def fresh_env():
    """(HTML subclass, font configuration): like harness.docs but with a font configuration of its own (the test
    font is registered by parsing the test UA sheet with it)."""
    from weasyprint import CSS, HTML
    from weasyprint.html import HTML5_UA_STYLESHEET
    from weasyprint.text.fonts import FontConfiguration
    from weasyprint.urls import path2url
    from harness import docs
    font_config = FontConfiguration()
    ua = CSS(docs.RES / 'tests_ua.css', font_config=font_config)

    class EnvHTML(HTML):
        def _ua_stylesheets(self, forms=False):
            return [ua if sheet == HTML5_UA_STYLESHEET else sheet for sheet in super()._ua_stylesheets(forms)]
    EnvHTML.base = path2url(str(docs.RES / '<verif>'))
    EnvHTML.ua_sheet = ua
    return EnvHTML, font_config


def make_html(env, source, real_ua=False):
    """`real_ua`: the plain `weasyprint.HTML` (the module-level UA style sheets; no test font)."""
    if real_ua:
        from weasyprint import HTML
        return HTML(string=source, base_url=env[0].base)
    return env[0](string=source, base_url=env[0].base)


def make_sheets(env, job):
    from weasyprint import CSS
    return [CSS(string=job['css'], font_config=env[1])] if job.get('css') else []


def copy_digest(document, zoom, write_options):
    """PDF of every other page through Document.copy, with the variant of the job: also as pdf/ua-1 the bytes of a
    copy must not depend on whether the whole document was written before (stale-link-annotation, repaired)."""
    subset = document.copy(document.pages[::2])
    return hashlib.md5(subset.write_pdf(zoom=zoom, pdf_identifier=IDENTIFIER, **write_options)).hexdigest()


def run_job(job, env=None, html=None, sheets=None, cache=None, counter_style=None, write_twice=False,
            copy_first=False):
    """Render + write one job.  Objects not given are created fresh.  -> result dict."""
    os.environ['SOURCE_DATE_EPOCH'] = EPOCH
    if env is None:
        env = fresh_env()
    font_config = env[1]
    if html is None:
        html = make_html(env, job['html'], job.get('real_ua', False))
    if sheets is None:
        sheets = make_sheets(env, job)
    options = dict(job.get('options') or {})
    options_before = copy.deepcopy(options)
    call_options = dict(options)
    # the list itself is the caller's: CSS objects plus, for some jobs, a file name that render() has to `guess`
    sheet_list = list(sheets) + ([str(USER_CSS_FILE)] if job.get('raw_css') else [])
    call_options['stylesheets'] = sheet_list
    if cache is not None:
        call_options['cache'] = cache
    before = snapshot(html, sheets, options, font_config, sheet_list)
    with frozen_clock():
        return _render_and_write(job, html, sheets, options, options_before, call_options, sheet_list, font_config,
                                 counter_style, write_twice, copy_first, before)


def _render_and_write(job, html, sheets, options, options_before, call_options, sheet_list, font_config, counter_style,
                      write_twice, copy_first, before):
    document = html.render(font_config, counter_style, **call_options)
    layout = layout_fingerprint(document)
    write_options = {k: v for k, v in options.items() if k != 'presentational_hints'}
    zoom = job.get('zoom', 1)
    # the first write of a Document decides whether the job can be written at all (an exception propagates: an error
    # result); a LATER write of the same Document (or of a copy sharing its pages and metadata) that raises is an
    # outcome of its own - 'the same Document written again' must give the same bytes, not an exception
    def later(write):
        try:
            return write()
        except Exception as exc:  # noqa: BLE001
            return f'error-after-an-earlier-write:{type(exc).__name__}'

    def write_digest():
        return hashlib.md5(document.write_pdf(zoom=zoom, pdf_identifier=IDENTIFIER, **write_options)).hexdigest()
    if copy_first:
        copied = copy_digest(document, zoom, write_options)
        digest = later(write_digest)
    else:
        digest = write_digest()
        copied = later(lambda: copy_digest(document, zoom, write_options))
    again = later(write_digest) if write_twice else None
    after = snapshot(html, sheets, options, font_config, sheet_list)
    mutated = [name for name in before if before[name] != after[name]]
    if options != options_before:
        mutated.append('options-dict')
    return {'layout': layout, 'pdf': digest, 'pdf_again': again, 'pdf_copy': copied, 'pages': len(document.pages),
            'mutated': mutated}


def main(path):
    import logging
    sys.path.insert(0, os.environ.get('VERIF_REPO', '/repo'))
    logging.getLogger('weasyprint').setLevel(logging.CRITICAL)
    logging.getLogger('fontTools').setLevel(logging.CRITICAL)
    jobs = json.loads(open(path).read())
    results = []
    for job in jobs:
        try:
            results.append(run_job(job))
        except Exception as exc:  # noqa: BLE001
            results.append({'error': f'{type(exc).__name__}: {exc}'})
    print(json.dumps({'hashseed': os.environ.get('PYTHONHASHSEED'), 'results': results}))


if __name__ == '__main__':
    sys.path.insert(0, os.path.dirname(os.path.dirname(os.path.abspath(__file__))))
    main(sys.argv[1])
