"""C18 attachments: generators, stub fetcher and canonical forms for the direct-call section."""
import mimetypes
from fractions import Fraction
from os.path import basename
from urllib.parse import unquote, urlsplit

from harness import c18_gen as G
from vlib import sx

F = Fraction
esc = G.esc

URL_POOL = [
    'http://example.org/files/report.pdf', 'http://example.org/a%20b/na%C3%AFve.txt', 'http://example.org/dir/',
    'http://example.org', 'http://example.org/x.unknownext', 'data:text/plain,hello', 'http://example.org/fail.bin',
    'http://example.org/fail2', 'http://example.org/moved.csv', 'http://example.org/up/../a(b).html',
]
CONTENTS = ['', 'x', 'hello world', bytes(range(256)).decode('latin-1') * 20, '(\\)' * 7]   # latin-1 text of the bytes


def gen_urls(rng):
    """{url: behaviour}: bytes delivered (with optional redirect) or failure."""
    out = {}
    for url in rng.sample(URL_POOL, rng.randint(1, len(URL_POOL))):
        if 'fail' in url or rng.random() < 0.1:
            out[url] = {'fail': rng.choice(['ValueError', 'OSError', 'KeyError'])}
        else:
            out[url] = {'content': rng.choice(CONTENTS), 'file_obj': rng.random() < 0.4,
                        'redirect': 'http://cdn.example.net/real/target.css' if 'moved' in url else None}
    return out


def stub_fetcher(urls):
    import io
    table = {}

    def fetcher(url):
        behaviour = urls.get(url)
        if behaviour is None:
            raise ValueError(f'no such resource {url}')
        if 'fail' in behaviour:
            raise {'ValueError': ValueError, 'OSError': OSError, 'KeyError': KeyError}[behaviour['fail']](url)
        result = {'mime_type': 'application/x-verif'}
        if behaviour['file_obj']:
            result['file_obj'] = io.BytesIO(behaviour['content'].encode('latin-1'))
        else:
            result['string'] = behaviour['content'].encode('latin-1')
        if behaviour['redirect']:
            result['redirected_url'] = behaviour['redirect']
        return result
    for url, behaviour in urls.items():
        table[url] = None if 'fail' in behaviour else (len(behaviour['content']), behaviour['redirect'] or url)
    return fetcher, table


def gen_attachment(rng, urls):
    source = rng.choice(['string', 'string-text', 'url', 'url', 'url-missing'])
    case = {'source': source, 'name': rng.choice([None, None, 'given.txt', 'é (1).PNG', '', 'noext']),
            'description': rng.choice([None, None, '', 'A description', 'Ünï (x) \\'])}
    if source == 'string':
        case['content'] = rng.choice(CONTENTS)          # bytes, as latin-1 text
    elif source == 'string-text':
        case['content'] = rng.choice(['', 'text é', 'plain'])
    elif source == 'url':
        case['url'] = rng.choice(sorted(urls))
    else:
        case['url'] = 'http://example.org/not-in-table'
    return case


def real_attachment(Attachment, case, fetcher):
    if case['source'] == 'string':
        return Attachment(string=case['content'].encode('latin-1'), name=case['name'], description=case['description'])
    if case['source'] == 'string-text':
        return Attachment(string=case['content'], name=case['name'], description=case['description'])
    return Attachment(url=case['url'], url_fetcher=fetcher, name=case['name'], description=case['description'])


def content_bytes(case):
    return case['content'].encode('latin-1' if case['source'] == 'string' else 'utf-8')


def att_model(case, table):
    """The abstract `Att` the model reads: size, name, basename of the final URL, description."""
    if case['source'].startswith('string'):
        size = len(content_bytes(case))
        url = None
    else:
        entry = table.get(case['url'])
        size, url = (None, None) if entry is None else entry
    url_base = basename(unquote(urlsplit(url).path)) if url and urlsplit(url).path else None
    return {'size': size, 'name': case['name'], 'urlBase': url_base, 'description': case['description']}


def att_wire(att):
    def opt(v):
        return None if v is None else esc(v)
    return [att['size'], opt(att['name']), opt(att['urlBase']), opt(att['description'])]


def guesses_for(atts):
    names = {'attachment.bin'}
    for att in atts:
        for candidate in (att['name'], att['urlBase']):
            if candidate is not None:
                names.add(candidate)
    return [[esc(n), esc(mimetypes.guess_type(n, strict=False)[0] or '')] for n in sorted(names)]


def ref_number(ref):
    number, generation, letter = ref.split()
    assert generation == b'0' and letter == b'R', ref
    return int(number)


def spec_wire(pdf, spec, case=None):
    """A file specification returned by write_pdf_attachment -> the form printed by `showSpec true`."""
    import hashlib
    import pydyf
    if spec is None:
        return 'none'
    stream = pdf.objects[ref_number(spec['EF']['F'])]
    data = b''.join(stream.stream)
    params = stream.extra['Params']
    problems = []
    if set(spec) != {'Type', 'F', 'UF', 'EF', 'Desc'} or spec['Type'] != '/Filespec':
        problems.append('filespec-keys')
    if not isinstance(spec['UF'], pydyf.String) or spec['F'].string != spec['UF'].string.encode(errors='ignore'):
        problems.append('F-is-not-UF-in-utf8')
    if params['CheckSum'] != f'<{hashlib.md5(data).hexdigest()}>' or params['Size'] != len(data):
        problems.append('checksum-or-size')
    if stream.extra['Type'] != '/EmbeddedFile' or stream.compress:
        problems.append('stream-type')
    if case is not None and case['source'].startswith('string'):
        if data != content_bytes(case):
            problems.append('content-changed')
    if problems:
        return 'bad-filespec:' + ','.join(problems)
    return sx.dumps([stream.number, spec.number, esc(spec['UF'].string), esc(stream.extra['Subtype']), len(data),
                     esc(spec['Desc'].string)])


def gen_att_pages(rng, urls):
    pages = []
    pool = sorted(urls) + ['http://example.org/not-in-table']
    for _ in range(rng.randint(1, 4)):
        links = []
        for _ in range(rng.choice([0, 1, 2, 3, 5])):
            kind = rng.choice(['attachment', 'attachment', 'attachment', 'internal', 'external'])
            x, y = G.dyadic(rng, 0, 150), G.dyadic(rng, 0, 150)
            rect = (x, y, x + G.dyadic(rng, 0, 50), y + G.dyadic(rng, 0, 20))
            links.append((kind, rng.choice(pool), rect))
        pages.append((rng.choice([F(3, 4), F(3, 2), F(3, 8)]), G.dyadic(rng, 50, 300), links))
    return pages


def run_real_annotations(pydyf, add_annotations, pdf, pages, fetcher):
    from types import SimpleNamespace
    from weasyprint.matrix import Matrix
    document = SimpleNamespace(url_fetcher=fetcher)
    annot_files = {}
    out_pages = []
    start = len(pdf.objects)
    for scale, height, links in pages:
        page = pydyf.Dictionary({'Type': '/Page'})
        matrix = Matrix(scale, 0, 0, -scale, 0, height * scale)
        add_annotations([(k, t, rect, None) for k, t, rect in links], matrix, document, pdf, page, annot_files, False)
        annots = []
        for ref in page.get('Annots', []):
            annot = pdf.objects[ref_number(ref)]
            stream = pdf.objects[ref_number(annot['AP']['N'])]
            ok = (annot['Subtype'] == '/FileAttachment' and annot['Type'] == '/Annot' and annot['AS'] == '/N' and
                  list(stream.extra['BBox']) == list(annot['Rect']) and stream.extra['Subtype'] == '/Form')
            if not ok:
                annots.append(['bad-annotation', annot.number])
            else:
                annots.append([stream.number, annot.number, ref_number(annot['FS'])] + [G.frac(v) for v in annot['Rect']])
        out_pages.append(annots)
    specs = [o for o in pdf.objects[start:] if isinstance(o, pydyf.Dictionary) and o.get('Type') == '/Filespec']
    cached = {k: (None if v is None else v.number) for k, v in annot_files.items()}
    if sorted(v for v in cached.values() if v is not None) != sorted(s.number for s in specs):
        return 'bad-cache'
    return (sx.dumps(out_pages) + ' ' + '(' + ' '.join(spec_wire(pdf, s) for s in specs) + ') ' +
            sx.atom(len(pdf.objects)))
