"""A small independent PDF reader (no pydyf, no weasyprint): objects, classic xref tables and xref / object streams,
stream decoding, page tree, content-stream tokenizer.  Strict: anything unexpected raises `PdfError`.

Used by C16: (a) to extract every content stream with the resource dictionary in effect, (b) as the independent reader
of the failing-input search (header, xref offsets, trailer, reference resolution, page tree).
"""
import re
import zlib

WS = b'\x00\t\n\x0c\r '
DELIM = b'()<>[]{}/%'


class PdfError(Exception):
    pass


class Name(str):
    def __repr__(self):
        return '/' + str(self)


class Ref(tuple):
    def __new__(cls, num, gen):
        return tuple.__new__(cls, (num, gen))

    def __repr__(self):
        return f'{self[0]} {self[1]} R'


class Keyword(str):
    pass


class HexString(bytes):
    pass


class PdfStream:
    def __init__(self, extra, raw):
        self.extra, self.raw = extra, raw

    def __repr__(self):
        return f'<stream {self.extra!r} {len(self.raw)} bytes>'


class Lexer:
    def __init__(self, data, pos=0):
        self.data, self.pos = data, pos

    def skip_ws(self):
        data = self.data
        while self.pos < len(data):
            c = data[self.pos]
            if c in WS:
                self.pos += 1
            elif c == 0x25:  # %
                while self.pos < len(data) and data[self.pos] not in b'\r\n':
                    self.pos += 1
            else:
                break

    def peek(self):
        self.skip_ws()
        return self.data[self.pos:self.pos + 1]

    def at_end(self):
        self.skip_ws()
        return self.pos >= len(self.data)

    def token(self):
        """Next object or keyword (arrays, dictionaries and references are assembled here)."""
        self.skip_ws()
        data = self.data
        if self.pos >= len(data):
            raise PdfError('unexpected end of data')
        c = data[self.pos:self.pos + 1]
        if c == b'/':
            return self._name()
        if c == b'(':
            return self._literal_string()
        if c == b'<':
            if data[self.pos:self.pos + 2] == b'<<':
                return self._dict()
            return self._hex_string()
        if c == b'[':
            return self._array()
        if c in b'+-.0123456789':
            return self._number_or_ref()
        if c in b')>]}{':
            raise PdfError(f'unexpected delimiter {c!r} at {self.pos}')
        start = self.pos
        while self.pos < len(data) and data[self.pos] not in WS and data[self.pos] not in DELIM:
            self.pos += 1
        word = data[start:self.pos].decode('latin-1')
        if not word:
            raise PdfError(f'empty token at {self.pos}')
        if word == 'true':
            return True
        if word == 'false':
            return False
        if word == 'null':
            return None
        return Keyword(word)

    def _name(self):
        data = self.data
        self.pos += 1
        start = self.pos
        while self.pos < len(data) and data[self.pos] not in WS and data[self.pos] not in DELIM:
            self.pos += 1
        raw = data[start:self.pos]
        raw = re.sub(rb'#([0-9A-Fa-f]{2})', lambda m: bytes([int(m.group(1), 16)]), raw)
        return Name(raw.decode('latin-1'))

    def _literal_string(self):
        data = self.data
        self.pos += 1
        depth, out = 1, bytearray()
        while True:
            if self.pos >= len(data):
                raise PdfError('unterminated string')
            c = data[self.pos]
            self.pos += 1
            if c == 0x5c:  # backslash
                if self.pos >= len(data):
                    raise PdfError('unterminated escape')
                e = data[self.pos]
                self.pos += 1
                mapping = {0x6e: 10, 0x72: 13, 0x74: 9, 0x62: 8, 0x66: 12, 0x28: 0x28, 0x29: 0x29, 0x5c: 0x5c}
                if e in mapping:
                    out.append(mapping[e])
                elif 0x30 <= e <= 0x37:
                    digits = bytes([e])
                    while len(digits) < 3 and self.pos < len(data) and 0x30 <= data[self.pos] <= 0x37:
                        digits += bytes([data[self.pos]])
                        self.pos += 1
                    out.append(int(digits, 8) & 0xff)
                elif e in b'\r\n':
                    if e == 13 and data[self.pos:self.pos + 1] == b'\n':
                        self.pos += 1
                else:
                    out.append(e)
            elif c == 0x28:
                depth += 1
                out.append(c)
            elif c == 0x29:
                depth -= 1
                if depth == 0:
                    return bytes(out)
                out.append(c)
            else:
                out.append(c)

    def _hex_string(self):
        end = self.data.find(b'>', self.pos)
        if end < 0:
            raise PdfError('unterminated hex string')
        body = re.sub(rb'\s', b'', self.data[self.pos + 1:end])
        if not re.fullmatch(rb'[0-9A-Fa-f]*', body):
            raise PdfError(f'bad hex string at {self.pos}')
        self.pos = end + 1
        if len(body) % 2:
            body += b'0'
        return HexString(bytes.fromhex(body.decode()))

    def _array(self):
        self.pos += 1
        out = []
        while True:
            if self.peek() == b']':
                self.pos += 1
                return out
            if self.peek() == b'':
                raise PdfError('unterminated array')
            item = self.token()
            if isinstance(item, Keyword):
                raise PdfError(f'bare word {item!r} in an array')
            out.append(item)

    def _dict(self):
        self.pos += 2
        out = {}
        while True:
            self.skip_ws()
            if self.data[self.pos:self.pos + 2] == b'>>':
                self.pos += 2
                return out
            key = self.token()
            if not isinstance(key, Name):
                raise PdfError(f'dictionary key is not a name: {key!r} at {self.pos}')
            if key in out:
                raise PdfError(f'duplicate dictionary key /{key}')
            value = self.token()
            if isinstance(value, Keyword):
                raise PdfError(f'bare word {value!r} as the value of /{key}')
            out[key] = value

    NUMBER = re.compile(rb'[+-]?(\d+\.?\d*|\.\d+)')

    def _number_or_ref(self):
        m = self.NUMBER.match(self.data, self.pos)
        if not m:
            raise PdfError(f'bad number at {self.pos}: {self.data[self.pos:self.pos + 12]!r}')
        end = m.end()
        if end < len(self.data) and self.data[end] not in WS and self.data[end] not in DELIM:
            raise PdfError(f'bad number at {self.pos}: {self.data[self.pos:end + 4]!r}')
        text = m.group(0)
        self.pos = end
        if re.fullmatch(rb'\d+', text):
            # n g R ?
            m2 = re.compile(rb'[\x00\t\n\x0c\r ]+(\d+)[\x00\t\n\x0c\r ]+R(?![^\x00\t\n\x0c\r ()<>\[\]{}/%])').match(
                self.data, self.pos)
            if m2:
                self.pos = m2.end()
                return Ref(int(text), int(m2.group(1)))
            return int(text)
        if b'.' in text:
            return Real(text.decode())
        return int(text)


class Real(float):
    """A real number that remembers its source text (for exact comparison)."""
    def __new__(cls, text):
        obj = float.__new__(cls, text)
        obj.text = text
        return obj


class Document:
    def __init__(self, data):
        self.data = data
        self.objects = {}        # (num, gen) -> value (dict / list / PdfStream / …)
        self.offsets = {}        # num -> ('n', offset, gen) | ('c', objstm number, index)
        self.trailer = None
        self.problems = []
        self._load()

    # ---- structure --------------------------------------------------------------------------------------------
    def _load(self):
        data = self.data
        m = re.match(rb'%PDF-(\d\.\d)[\r\n]', data)
        if not m:
            raise PdfError('bad header')
        self.version = m.group(1).decode()
        tail = data[-64:]
        m = re.search(rb'startxref[\r\n]+(\d+)[\r\n]+%%EOF[\r\n]*$', tail)
        if not m:
            raise PdfError('no startxref / %%EOF at the end')
        xref_pos = int(m.group(1))
        self.xref_pos = xref_pos
        if data[xref_pos:xref_pos + 4] == b'xref':
            self._load_table(xref_pos)
        else:
            self._load_xref_stream(xref_pos)
        # every in-use entry must point at "num gen obj"
        for num, entry in sorted(self.offsets.items()):
            if entry[0] == 'n':
                self._parse_indirect(num, entry[1], entry[2])
        for num, entry in sorted(self.offsets.items()):
            if entry[0] == 'c':
                self._parse_compressed(num, entry[1], entry[2])

    def _load_table(self, pos):
        lex = Lexer(self.data, pos + 4)
        while True:
            lex.skip_ws()
            if self.data[lex.pos:lex.pos + 7] == b'trailer':
                lex.pos += 7
                break
            first, count = lex.token(), lex.token()
            if not (isinstance(first, int) and isinstance(count, int)):
                raise PdfError('bad xref subsection header')
            lex.skip_ws()
            for i in range(count):
                line = self.data[lex.pos:lex.pos + 20]
                m = re.fullmatch(rb'(\d{10}) (\d{5}) ([nf])[ \r][\r\n]', line)
                if not m:
                    raise PdfError(f'bad xref entry {line!r}')
                lex.pos += 20
                if m.group(3) == b'n':
                    self.offsets[first + i] = ('n', int(m.group(1)), int(m.group(2)))
            self.xref_size = first + count
        self.trailer = lex.token()
        if not isinstance(self.trailer, dict):
            raise PdfError('trailer is not a dictionary')
        if self.trailer.get('Size') != self.xref_size:
            raise PdfError(f'trailer /Size {self.trailer.get("Size")} != xref size {self.xref_size}')

    def _load_xref_stream(self, pos):
        num, gen, value = self._read_indirect_at(pos)
        if not (isinstance(value, PdfStream) and value.extra.get('Type') == 'XRef'):
            raise PdfError('startxref does not point at an xref table or stream')
        extra = value.extra
        w = extra['W']
        index = extra.get('Index', [0, extra['Size']])
        raw = self.decode(value)
        width = sum(w)
        entries = [raw[i:i + width] for i in range(0, len(raw), width)]
        numbers = [n for first, count in zip(index[::2], index[1::2]) for n in range(first, first + count)]
        if len(entries) != len(numbers):
            raise PdfError('xref stream length does not match /Index')
        for n, entry in zip(numbers, entries):
            fields, p = [], 0
            for size in w:
                fields.append(int.from_bytes(entry[p:p + size], 'big') if size else None)
                p += size
            kind = 1 if fields[0] is None else fields[0]
            if kind == 1:
                self.offsets[n] = ('n', fields[1], fields[2] or 0)
            elif kind == 2:
                self.offsets[n] = ('c', fields[1], fields[2])
        self.trailer = extra
        self.xref_size = extra['Size']

    def _read_indirect_at(self, pos):
        lex = Lexer(self.data, pos)
        num, gen, kw = lex.token(), lex.token(), lex.token()
        if not (isinstance(num, int) and isinstance(gen, int) and kw == 'obj'):
            raise PdfError(f'no "n g obj" at offset {pos}: {self.data[pos:pos + 20]!r}')
        value = lex.token()
        nxt = lex.token()
        if nxt == 'stream':
            if not isinstance(value, dict):
                raise PdfError('stream without dictionary')
            data = self.data
            if data[lex.pos:lex.pos + 2] == b'\r\n':
                lex.pos += 2
            elif data[lex.pos:lex.pos + 1] == b'\n':
                lex.pos += 1
            else:
                raise PdfError('stream keyword not followed by EOL')
            length = value.get('Length')
            if isinstance(length, Ref):
                length = self._length_of(length)
            if not isinstance(length, int):
                raise PdfError('stream /Length missing')
            raw = data[lex.pos:lex.pos + length]
            lex.pos += length
            end = lex.token()
            if end != 'endstream':
                raise PdfError(f'object {num}: /Length {length} does not end at endstream')
            value = PdfStream(value, raw)
            nxt = lex.token()
        if nxt != 'endobj':
            raise PdfError(f'object {num}: missing endobj')
        return num, gen, value

    def _length_of(self, ref):
        entry = self.offsets.get(ref[0])
        if not entry or entry[0] != 'n':
            raise PdfError('indirect /Length not resolvable')
        return self._read_indirect_at(entry[1])[2]

    def _parse_indirect(self, num, offset, gen):
        n, g, value = self._read_indirect_at(offset)
        if (n, g) != (num, gen):
            raise PdfError(f'xref entry {num} {gen} points at object {n} {g}')
        self.objects[(num, gen)] = value

    def _parse_compressed(self, num, stm_num, index):
        stm = self.objects.get((stm_num, 0))
        if not (isinstance(stm, PdfStream) and stm.extra.get('Type') == 'ObjStm'):
            raise PdfError(f'object {num}: container {stm_num} is not an object stream')
        raw = self.decode(stm)
        first, n = stm.extra['First'], stm.extra['N']
        head = Lexer(raw[:first])
        pairs = [(head.token(), head.token()) for _ in range(n)]
        if index >= n or pairs[index][0] != num:
            raise PdfError(f'object stream {stm_num}: entry {index} is not object {num}')
        lex = Lexer(raw, first + pairs[index][1])
        self.objects[(num, 0)] = lex.token()

    # ---- access -----------------------------------------------------------------------------------------------
    def resolve(self, value):
        seen = 0
        while isinstance(value, Ref):
            if tuple(value) not in self.objects:
                raise PdfError(f'dangling reference {value!r}')
            value = self.objects[tuple(value)]
            seen += 1
            if seen > 50:
                raise PdfError('reference loop')
        return value

    def decode(self, stream):
        filters = stream.extra.get('Filter')
        if filters is None:
            return stream.raw
        if isinstance(filters, Name):
            filters = [filters]
        data = stream.raw
        for f in filters:
            if f == 'FlateDecode':
                data = zlib.decompress(data)
            else:
                raise PdfError(f'unsupported filter /{f}')
        return data

    @property
    def catalog(self):
        root = self.resolve(self.trailer.get('Root'))
        if not (isinstance(root, dict) and root.get('Type') == 'Catalog'):
            raise PdfError('/Root is not a catalog')
        return root

    def pages(self):
        """Leaf page dictionaries in order, with inherited attributes resolved into `_inherited`."""
        out = []

        def walk(ref, inherited, depth):
            if depth > 50:
                raise PdfError('page tree too deep')
            node = self.resolve(ref)
            if not isinstance(node, dict):
                raise PdfError('page tree node is not a dictionary')
            inherited = dict(inherited)
            for key in ('Resources', 'MediaBox', 'CropBox', 'Rotate'):
                if key in node:
                    inherited[key] = node[key]
            if node.get('Type') == 'Pages':
                kids = self.resolve(node.get('Kids'))
                count_before = len(out)
                for kid in kids:
                    if not isinstance(kid, Ref):
                        raise PdfError('page tree kid is not a reference')
                    walk(kid, inherited, depth + 1)
                if node.get('Count') != len(out) - count_before:
                    raise PdfError(f'/Count {node.get("Count")} != {len(out) - count_before} leaf pages')
            elif node.get('Type') == 'Page':
                out.append((ref, node, inherited))
            else:
                raise PdfError(f'page tree node of type {node.get("Type")!r}')
        walk(self.catalog.get('Pages'), {}, 0)
        return out

    def check_all_references(self):
        """Every indirect reference anywhere resolves."""
        def visit(value):
            if isinstance(value, Ref):
                if tuple(value) not in self.objects:
                    raise PdfError(f'dangling reference {value!r}')
            elif isinstance(value, dict):
                for v in value.values():
                    visit(v)
            elif isinstance(value, list):
                for v in value:
                    visit(v)
            elif isinstance(value, PdfStream):
                visit(value.extra)
        for value in self.objects.values():
            visit(value)
        visit(self.trailer)


# ---- content streams --------------------------------------------------------------------------------------------

def content_ops(data):
    """[(operator, [operands])]; an inline image is one pseudo operator `BI` (its dictionary and data skipped)."""
    lex = Lexer(data)
    ops, operands = [], []
    while not lex.at_end():
        tok = lex.token()
        if isinstance(tok, Keyword):
            if tok == 'BI':
                # dictionary up to ID, then data up to EI preceded by white space
                while True:
                    t = lex.token()
                    if isinstance(t, Keyword) and t == 'ID':
                        break
                m = re.compile(rb'[\x00\t\n\x0c\r ]EI(?=[\x00\t\n\x0c\r ]|$)').search(lex.data, lex.pos)
                # pydyf writes `ID <a85 data>~> EI`
                if not m:
                    raise PdfError('inline image without EI')
                lex.pos = m.end()
                ops.append(('BI', []))
                operands = []
                continue
            ops.append((str(tok), operands))
            operands = []
        else:
            operands.append(tok)
    if operands:
        raise PdfError(f'operands without operator at the end of a content stream: {operands[:4]!r}')
    return ops


RES_CATEGORIES = ('ExtGState', 'XObject', 'Pattern', 'Shading', 'ColorSpace', 'Font', 'Properties')


def content_streams(doc):
    """Every content stream of the document with the resource dictionary in effect:
    [(label, ops, {category: {name: resolved value}})].  Page streams, form XObjects, tiling patterns, soft-mask
    groups, annotation appearance streams; each object once."""
    out, seen = [], set()

    def resources_of(res_value):
        res = doc.resolve(res_value)
        if res is None:
            return {c: {} for c in RES_CATEGORIES}
        if not isinstance(res, dict):
            raise PdfError('/Resources is not a dictionary')
        cats = {}
        for c in RES_CATEGORIES:
            d = doc.resolve(res.get(c)) if c in res else {}
            if not isinstance(d, dict):
                raise PdfError(f'/Resources /{c} is not a dictionary')
            cats[c] = d
        return cats

    def descend(label, cats):
        for name, value in cats['XObject'].items():
            obj = doc.resolve(value)
            if isinstance(obj, PdfStream) and obj.extra.get('Subtype') == 'Form':
                form(f'{label}/X:{name}', value, obj)
        for name, value in cats['Pattern'].items():
            obj = doc.resolve(value)
            if isinstance(obj, PdfStream) and obj.extra.get('PatternType') == 1:
                form(f'{label}/P:{name}', value, obj)
        for name, value in cats['ExtGState'].items():
            state = doc.resolve(value)
            if isinstance(state, dict):
                smask = doc.resolve(state.get('SMask'))
                if isinstance(smask, dict) and 'G' in smask:
                    form(f'{label}/G:{name}', smask['G'], doc.resolve(smask['G']))

    def form(label, ref, obj):
        key = tuple(ref) if isinstance(ref, Ref) else id(obj)
        if key in seen:
            return
        seen.add(key)
        if not isinstance(obj, PdfStream):
            raise PdfError(f'{label}: not a stream')
        cats = resources_of(obj.extra.get('Resources'))
        out.append((label, content_ops(doc.decode(obj)), cats))
        descend(label, cats)

    for i, (ref, page, inherited) in enumerate(doc.pages()):
        cats = resources_of(inherited.get('Resources'))
        contents = doc.resolve(page.get('Contents'))
        parts = contents if isinstance(contents, list) else [page.get('Contents')]
        data = b'\n'.join(doc.decode(doc.resolve(p)) for p in parts if p is not None)
        out.append((f'page{i}', content_ops(data), cats))
        descend(f'page{i}', cats)
        for annot_ref in doc.resolve(page.get('Annots')) or []:
            annot = doc.resolve(annot_ref)
            ap = doc.resolve(annot.get('AP')) if isinstance(annot, dict) else None
            if isinstance(ap, dict):
                for state_name, value in ap.items():
                    target = doc.resolve(value)
                    if isinstance(target, PdfStream):
                        form(f'page{i}/AP:{state_name}', value, target)
                    elif isinstance(target, dict):
                        for sub, v in target.items():
                            form(f'page{i}/AP:{state_name}:{sub}', v, doc.resolve(v))
    return out
