"""C15 helpers, scoping half: generated DOMs with counter properties, nested lists and pseudo-elements;
the abstract element tree read back from the *real* computed styles; the generated boxes' texts read back
from the *real* `build_formatting_structure`."""
from harness import c15_styles as S
from harness import docs
from vlib import sx

COUNTERS = ['c', 'd', 'e', 'list-item']
STYLE_NAMES = ['decimal', 'lower-roman', 'upper-alpha', 'lower-greek', 'decimal-leading-zero', 'cjk-decimal',
               'disc', 'hebrew', 'georgian', 'ca', 'cb', 'cc', 'nosuch', 'none']
CUSTOM_SHEET = '''
@counter-style ca { system: fixed 2; symbols: A B C; suffix: ") "; fallback: cb }
@counter-style cb { system: additive; additive-symbols: 5 V, 4 IV, 1 I, 0 N; range: 0 30; negative: "(" ")"; fallback: ca }
@counter-style cc { system: extends lower-alpha; pad: 3 "_"; prefix: "<"; suffix: ">"; range: infinite infinite }
'''


# ---------------------------------------------------------------- generation (HTML text)

def gen_style_arg(rng):
    r = rng.random()
    if r < 0.45:
        return ''
    if r < 0.85:
        return ', ' + rng.choice(STYLE_NAMES)
    if r < 0.93:
        return ', "' + rng.choice(['*', '+', 'ab']) + '"'
    return ', symbols(' + rng.choice(['cyclic "x" "y"', 'numeric "0" "1"', 'fixed "p" "q" "r"', '"s"',
                                         'alphabetic "a" "b"']) + ')'


def gen_content(rng, ids, with_targets=True):
    items = []
    for _ in range(rng.choice([1, 1, 2, 3, 4])):
        r = rng.random()
        name = rng.choice(COUNTERS)
        if r < 0.2:
            items.append('"' + rng.choice(['[', ']', ':', ' ', '-', 'x y', '']) + '"')
        elif r < 0.55:
            items.append(f'counter({name}{gen_style_arg(rng)})')
        elif r < 0.8:
            sep = rng.choice(['.', '-', '', ' / '])
            items.append(f'counters({name}, "{sep}"{gen_style_arg(rng)})')
        elif with_targets and ids:
            anchor = rng.choice(ids + ['missing']) if rng.random() < 0.9 else 'missing'
            style = rng.choice(['', '', ', lower-roman', ', upper-alpha', ', none', ', cb'])
            if rng.random() < 0.6:
                items.append(f'target-counter("#{anchor}", {name}{style})')
            else:
                items.append(f'target-counters("#{anchor}", {name}, "{rng.choice([".", "-"])}"{style})')
        else:
            items.append(f'counter({name})')
    return ' '.join(items)


def gen_counter_decls(rng):
    decls = []
    def pairs():
        out = []
        for _ in range(rng.choice([1, 1, 2, 3])):
            name = rng.choice(COUNTERS)
            out.append(name if rng.random() < 0.4 else f'{name} {rng.choice([0, 1, 2, 5, -3, 10, 27])}')
        return ' '.join(out)
    if rng.random() < 0.45:
        decls.append('counter-reset: ' + pairs())
    if rng.random() < 0.5:
        decls.append('counter-increment: ' + (pairs() if rng.random() < 0.9 else 'none'))
    if rng.random() < 0.2:
        decls.append('counter-set: ' + pairs())
    return decls


def gen_sheet(rng, ids, n_classes=6):
    rules = [CUSTOM_SHEET, '::before, ::after, ::marker { white-space: pre }']
    for k in range(n_classes):
        decls = gen_counter_decls(rng)
        r = rng.random()
        if r < 0.08:
            decls.append('display: none')
        elif r < 0.25:
            decls.append('display: list-item')
            decls.append('list-style-type: ' + rng.choice(
                STYLE_NAMES + ['"» "', 'symbols(cyclic "*" "+")', 'symbols(fixed "i" "ii")']))
        if rng.random() < 0.15:
            decls.append('list-style-position: ' + rng.choice(['inside', 'outside']))
        rules.append(f'.k{k} {{ ' + '; '.join(decls) + ' }')
        for pseudo in ('before', 'after'):
            if rng.random() < 0.55:
                pd = gen_counter_decls(rng) if rng.random() < 0.4 else []
                pd.append('content: ' + gen_content(rng, ids))
                if rng.random() < 0.08:
                    pd.append('display: block')
                rules.append(f'.k{k}::{pseudo} {{ ' + '; '.join(pd) + ' }')
        if rng.random() < 0.12:
            rules.append(f'.k{k}::marker {{ content: ' + gen_content(rng, ids, with_targets=False) + ' }')
        if rng.random() < 0.05:
            rules.append(f'.k{k}::marker {{ display: none }}')
    if rng.random() < 0.5:
        rules.append('li::marker { content: counters(list-item, ".") " " }')
    if rng.random() < 0.3:
        rules.append('ol { list-style-type: ' + rng.choice(['lower-roman', 'upper-alpha', 'cb', 'cc', 'hebrew']) + ' }')
    return '\n'.join(rules)


def gen_tree(rng, depth, ids, budget):
    """HTML text of a random subtree."""
    if budget[0] <= 0:
        return ''
    budget[0] -= 1
    tag = rng.choice(['div', 'div', 'p', 'span', 'ol', 'ul', 'li', 'li', 'h1', 'section'])
    attrs = []
    if rng.random() < 0.7:
        attrs.append('class="' + ' '.join(f'k{rng.randrange(6)}' for _ in range(rng.choice([1, 1, 2]))) + '"')
    if rng.random() < 0.3 and ids['free']:
        ident = ids['free'].pop() if rng.random() < 0.9 else rng.choice(ids['all'])
        attrs.append(f'id="{ident}"')
    if tag == 'ol' and rng.random() < 0.4:
        attrs.append(f'start="{rng.choice([0, 1, 3, 10, -2, 99])}"')
    if tag == 'li' and rng.random() < 0.2:
        attrs.append(f'value="{rng.choice([1, 5, 7, 20, -1])}"')
    if rng.random() < 0.12:
        attrs.append('style="' + '; '.join(gen_counter_decls(rng) or ['counter-reset: c']) + '"')
    kids = ''
    if depth > 0:
        n = rng.choice([0, 1, 2, 2, 3, 4]) if tag not in ('ol', 'ul') else rng.choice([1, 2, 3, 5])
        for _ in range(n):
            if tag in ('ol', 'ul') and rng.random() < 0.85:
                sub = gen_li(rng, depth - 1, ids, budget)
            else:
                sub = gen_tree(rng, depth - 1, ids, budget)
            kids += sub
    text = rng.choice(['', 't', 'uv '])
    return f'<{tag} {" ".join(attrs)}>{text}{kids}</{tag}>'


def gen_li(rng, depth, ids, budget):
    if budget[0] <= 0:
        return ''
    budget[0] -= 1
    attrs = []
    if rng.random() < 0.25:
        attrs.append(f'class="k{rng.randrange(6)}"')
    if rng.random() < 0.15:
        attrs.append(f'value="{rng.choice([1, 5, 7, 20, -1])}"')
    if rng.random() < 0.2 and ids['free']:
        attrs.append(f'id="{ids["free"].pop()}"')
    kids = ''
    if depth > 0 and rng.random() < 0.4:
        kids = gen_tree(rng, depth - 1, ids, budget) if rng.random() < 0.5 else (
            '<ol>' + ''.join(gen_li(rng, depth - 1, ids, budget) for _ in range(rng.choice([1, 2, 3]))) + '</ol>')
    return f'<li {" ".join(attrs)}>i{kids}</li>'


def gen_document(rng):
    all_ids = [f't{i}' for i in range(6)]
    ids = {'free': list(all_ids), 'all': all_ids}
    rng.shuffle(ids['free'])
    sheet = gen_sheet(rng, all_ids)
    budget = [rng.choice([6, 12, 25, 40])]
    body = ''.join(gen_tree(rng, rng.choice([2, 3, 4]), ids, budget) for _ in range(rng.choice([1, 2, 3])))
    return f'<html><head><style>{sheet}</style></head><body>{body}</body></html>'


# ---------------------------------------------------------------- abstract tree from the real computed styles

class Unsupported(Exception):
    """The generated document uses a content item the scoping model does not cover."""


def plain_ops(style):
    display = style['display']
    disp = 'none' if display == ('none',) else 'li' if 'list-item' in display else 'other'
    incr = style['counter_increment']
    return (disp, [(n, int(v)) for n, v in style['counter_reset']], [(n, int(v)) for n, v in style['counter_set']],
            'auto' if incr == 'auto' else [(n, int(v)) for n, v in incr])


def plain_items(content):
    """content list -> [('str', s) | ('c', name, style) | ('cs', name, sep, style) |
    ('tc', anchor, name, style) | ('tcs', anchor, name, sep, style)]"""
    from weasyprint.css.targets import anchor_name_from_token
    out = []
    for type_, value in content:
        if type_ == 'string':
            out.append(('str', value))
        elif type_ == 'counter()':
            out.append(('c', value[0], value[-1]))
        elif type_ == 'counters()':
            out.append(('cs', value[0], value[1], value[-1]))
        elif type_.startswith('target-counter') and value[-1] is None:
            raise Unsupported('counter style None')     # what get_target stored before 9677ed2
        elif type_ == 'target-counter()':
            out.append(('tc', anchor_name_from_token(value[0]) or '', value[1], value[-1]))
        elif type_ == 'target-counters()':
            if value[2][0] != 'string':
                raise Unsupported('separator')
            out.append(('tcs', anchor_name_from_token(value[0]) or '', value[1], value[2][1], value[-1]))
        else:
            raise Unsupported(type_)
    return out


def plain_pseudo(style_for, element, pseudo):
    style = style_for(element, pseudo)
    if style is None or style['display'] == ('none',):
        return None
    content = style['content']
    if content in ('normal', 'inhibit', 'none'):
        return None
    if 'list-item' in style['display']:
        raise Unsupported('list-item pseudo-element')
    return (plain_ops(style), plain_items(content))


def plain_elem(style_for, element):
    """The abstract element tree, read from the real computed styles."""
    style = style_for(element)
    ops = plain_ops(style)
    list_style = marker_content = None
    if ops[0] == 'li':
        if style['list_style_image'][0] == 'url':
            raise Unsupported('marker image')
        if style['list_style_type'] != 'none':
            list_style = style['list_style_type']
        marker_style = style_for(element, 'marker')
        if marker_style['display'] == ('none',):
            # marker_to_box returns before creating any box (848642f): the element has no marker at all
            list_style = None
        elif marker_style['content'] not in ('normal', 'inhibit'):
            if marker_style['content'] == 'none':
                raise Unsupported('marker content none')
            marker_content = plain_items(marker_style['content'])
    if style['float'] == 'footnote':
        raise Unsupported('footnote')
    kids = [plain_elem(style_for, child) for child in element if isinstance(child.tag, str)]
    return (ops, list_style, marker_content, style['anchor'] or None,
            plain_pseudo(style_for, element, 'before'), plain_pseudo(style_for, element, 'after'), kids)


def w_pairs(pairs):
    return [[S.enc(n), int(v)] for n, v in pairs]


def w_ops(ops):
    disp, reset, set_, incr = ops
    return [disp, w_pairs(reset), w_pairs(set_), 'auto' if incr == 'auto' else w_pairs(incr)]


def w_items(items):
    out = []
    for item in items:
        kind = item[0]
        if kind == 'str':
            out.append(['str', S.enc(item[1])])
        else:
            out.append([kind] + [S.enc(x) for x in item[1:-1]] + [S.w_name(item[-1])])
    return out


def w_elem(tree):
    ops, list_style, marker_content, anchor, before, after, kids = tree
    pseudo = lambda p: 'none' if p is None else [w_ops(p[0]), w_items(p[1])]  # noqa: E731
    return [w_ops(ops), 'none' if list_style is None else S.w_name(list_style),
            'none' if marker_content is None else w_items(marker_content),
            'none' if anchor is None else S.enc(anchor), pseudo(before), pseudo(after),
            [w_elem(k) for k in kids]]


def build(html_text):
    """The real pipeline up to the formatting structure: (context, counter_style, html, root_box thunk)."""
    from weasyprint import DEFAULT_OPTIONS
    from weasyprint.css.counters import CounterStyle
    from weasyprint.document import Document
    html = docs.html(html_text)
    _, _, font_config = docs._env()
    counter_style = CounterStyle()
    options = dict(DEFAULT_OPTIONS, presentational_hints=True)
    context = Document._build_layout_context(html, font_config, counter_style, options)
    return html, context, counter_style


def generated_texts(root_box):
    """(kind, text) of every ::marker / ::before / ::after box of the real box tree, in tree order."""
    from weasyprint.formatting_structure import boxes
    out = []

    def text_of(box):
        if isinstance(box, boxes.TextBox):
            return box.text
        if isinstance(box, boxes.ParentBox):
            return ''.join(text_of(child) for child in box.children)
        return ''

    def walk(box):
        tag = box.element_tag or ''
        for kind in ('marker', 'before', 'after'):
            if tag.endswith('::' + kind):
                out.append((kind, text_of(box)))
                return
        if isinstance(box, boxes.ParentBox):
            for child in box.children:
                walk(child)
    walk(root_box)
    return out


def impl_texts(html, context, counter_style):
    from weasyprint.formatting_structure.build import build_formatting_structure
    root_box = build_formatting_structure(
        html.etree_element, context.style_for, context.get_image_from_uri, html.base_url,
        context.target_collector, counter_style, context.footnotes)
    return generated_texts(root_box)


def show_obs(obs):
    return ' '.join(['ok'] + [f'({kind} {S.enc(text)})' for kind, text in obs])


def dom_case(html_text):
    """-> dict(line, impl, tree, styles) or None when the document is outside the model."""
    html, context, counter_style = build(html_text)
    try:
        tree = plain_elem(context.style_for, html.etree_element)
    except Unsupported:
        return None
    custom = S.custom_part(counter_style, 'ua')
    line = sx.line('dom', 'ua', S.w_table(custom), w_elem(tree))
    try:
        obs = impl_texts(html, context, counter_style)
        out = show_obs(obs)
    except RecursionError:
        obs, out = None, 'err:RecursionError'
    except Exception as exc:  # noqa: BLE001
        obs, out = None, f'err:{type(exc).__name__}'
    return {'line': line, 'impl': out, 'obs': obs, 'tree': tree, 'styles': counter_style}
