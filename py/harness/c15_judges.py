"""C15: clauses stated directly on the implementation's outputs for the round-2 sections (target-text, the
TargetCollector, @counter-style rules).  Used ONLY by judge / search / replay."""
import unicodedata

from harness import c15_styles as S
from vlib import sx


# ---------------------------------------------------------------- target-text()

def _decode_tree(node):
    ident, disp, anchor, text, before, after, kids, tail = node
    return {
        'id': int(ident), 'disp': disp == 'true', 'anchor': None if anchor == 'none' else S.dec(anchor),
        'text': S.dec(text), 'before': None if before == 'none' else S.dec(before),
        'after': None if after == 'none' else [
            ('str', S.dec(i[1])) if i[0] == 'str' else ('ref', S.dec(i[1]), i[2]) for i in after],
        'kids': [_decode_tree(k) for k in kids], 'tail': S.dec(tail)}


def target_text_reference(line, impl_texts):
    """Expected text of every ::after box under "target-text() prints the text of the designated element"
    (css-content-3): the whole text of the target wherever the reference stands.  -> {id: text} or None when the
    reference declines (after-mode cycles).  `impl_texts` is only used to know which boxes exist."""
    tree = _decode_tree(sx.loads_line(line)[1])
    collected, stored = [], {}

    def collect(node, shown):
        if node['anchor']:
            collected.append(node['anchor'])
            if shown and node['disp']:
                stored.setdefault(node['anchor'], node)
        for kid in node['kids']:
            collect(kid, shown and node['disp'])
    collect(tree, True)

    def box_text(node):
        if not node['disp']:
            return ''
        return node['text'] + ''.join(box_text(k) + k['tail'] for k in node['kids'])

    def before_texts(node):
        if not node['disp']:
            return ''
        return (node['before'] or '') + ''.join(before_texts(k) for k in node['kids'])

    def first_letter(text):
        out, found = '', False
        for letter in text:
            if unicodedata.category(letter) not in ('Ps', 'Pe', 'Pi', 'Pf', 'Po'):
                if found:
                    break
                found = True
            out += letter
        return out

    active = set()

    def after_text(node):
        if node['id'] in active:
            raise RecursionError
        active.add(node['id'])
        try:
            out = ''
            for item in node['after']:
                if item[0] == 'str':
                    out += item[1]
                    continue
                _, anchor, mode = item
                if anchor not in collected or anchor not in stored:
                    break
                target = stored[anchor]
                if mode == 'content':
                    out += box_text(target).strip()
                elif mode == 'before':
                    out += before_texts(target).strip()
                elif mode == 'first-letter':
                    out += first_letter(box_text(target)).strip()
                else:
                    out += after_texts(target).strip()
            return out
        finally:
            active.discard(node['id'])

    def after_texts(node):
        if not node['disp']:
            return ''
        return ''.join(after_texts(k) for k in node['kids']) + (after_text(node) if node['after'] is not None else '')

    expected = {}

    def walk(node, shown):
        if not (shown and node['disp']):
            return
        if node['after'] is not None:
            expected[node['id']] = after_text(node)
        for kid in node['kids']:
            walk(kid, True)
    try:
        walk(tree, True)
    except RecursionError:
        return None
    return expected


def open_reference(line):
    """Ids of sources that refer to themselves or to an ancestor (the known finding
    target-text-open-target-empty), or whose target's subtree holds such a source."""
    tree = _decode_tree(sx.loads_line(line)[1])
    out = set()

    def walk(node, open_anchors):
        anchors = open_anchors | ({node['anchor']} if node['anchor'] else set())
        # `after` mode reads the current text of other ::after boxes: evaluation-order dependent, not judged
        if node['after'] is not None and any(
                i[0] == 'ref' and (i[1] in anchors or i[2] == 'after') for i in node['after']):
            out.add(node['id'])
        for kid in node['kids']:
            walk(kid, anchors)
    walk(tree, set())
    return out


# ---------------------------------------------------------------- cache_target_page_counters

def cache_target_clause(line):
    """Replay a `ct` line on the real TargetCollector and state the clause: every content box printing a page
    counter of the anchor whose values changed is pending or flagged + reparsed."""
    from weasyprint.css.targets import CounterLookupItem, TargetCollector, TargetLookupItem
    _, collecting, targets, lookups, maker, anchor, values, index = sx.loads_line(line)

    def vals(w):
        return {S.dec(k): [int(x) for x in st] for k, st in w}
    collector = TargetCollector()
    collector.collecting = collecting == 'true'
    for name, up, idx, cached in targets:
        item = TargetLookupItem('up-to-date' if up == 'true' else 'pending')
        item.page_maker_index = None if idx == 'none' else int(idx)
        item.cached_page_counter_values = vals(cached)
        collector.target_lookup_items[S.dec(name)] = item
    calls = []
    mixins = []
    items = []
    for k, (content, missing, missing_target, idx, pending, cached) in enumerate(lookups):
        item = CounterLookupItem((lambda mixin=None, _k=k: (calls.append(_k), mixins.append((_k, dict(mixin or {}))))),
                                 [S.dec(n) for n in missing],
                                 {S.dec(a): [S.dec(n) for n in names] for a, names in missing_target})
        item.page_maker_index = None if idx == 'none' else int(idx)
        item.pending = pending == 'true'
        item.cached_page_counter_values = vals(cached)
        collector.counter_lookup_items[(object(), 'content' if content == 'true' else 'bookmark-label')] = item
        items.append(item)
    page_maker = [(None, None, None, None, {'content_changed': cc == 'true', 'pages_wanted': pw == 'true',
                                            'anchors': [], 'content_lookups': []}) for cc, pw, _, _ in maker]
    anchor, values, index = S.dec(anchor), vals(values), int(index)
    target = collector.target_lookup_items.get(anchor)
    changed = (target is not None and target.state == 'up-to-date' and not collector.collecting
               and target.cached_page_counter_values != values)
    own = [dict(item.cached_page_counter_values) for item in items]
    collector.cache_target_page_counters(anchor, values, index, page_maker)
    for k, mixin in mixins:
        # the box is re-parsed with the page counters cached for the box itself (those of its own page: what its
        # counter(page) / counter(pages) must print), never with those of the target
        if mixin != own[k]:
            return (f'box #{k} is re-parsed with the page counters {mixin} (those of the target {anchor!r}: {values}); '
                    f'the page counters cached for the box itself are {own[k]}: its own counter(page) would print the '
                    f"target's page")
    if not changed:
        return None
    for k, ((_, token), item) in enumerate(collector.counter_lookup_items.items()):
        names = item.missing_target_counters.get(anchor)
        if token != 'content' or names is None:
            continue
        placed = item.page_maker_index is not None and item.page_maker_index < len(page_maker)
        if not placed:
            if not item.pending:
                return f'box #{k} prints page counters of {anchor!r}, is not laid out yet, and is not marked pending'
        elif any(n in values for n in names):
            if not page_maker[item.page_maker_index][-1]['content_changed'] or k not in calls:
                return (f'page counters of {anchor!r} changed to {values} but the page of box #{k} '
                        f'(page_maker[{item.page_maker_index}]) is not flagged content_changed / not reparsed')
    return None


# ---------------------------------------------------------------- @counter-style descriptors and rules

def descriptor_clause(name, text):
    """One descriptor validator against the grammar of css-counter-styles-3 (harness/c15_spec.py)."""
    from weasyprint.css.utils import InvalidValues
    from weasyprint.css.validation.descriptors import DESCRIPTORS as REAL

    from harness import c15_desc as DV
    from harness import c15_spec as SP
    tokens = DV.tokens_of(text)
    if DV.has_relative_url(tokens):
        return None
    function = REAL['counter-style'][name]
    try:
        value = function(tokens, DV.BASE) if function.wants_base_url else function(tokens)
    except InvalidValues:
        value = None
    except Exception:  # noqa: BLE001 - crashes of validators are reported by C07 / C02
        return None
    return SP.descriptor_clause(name, text, value)


def rule_clause(css):
    """What a registered rule must satisfy for render_value to work with it (css-counter-styles-3 §3)."""
    import tinycss2

    from harness import c15_spec as SP
    cs = S.parse_styles(css, 'empty')
    desc = cs.get('zz')
    # every declaration of the rule against the specification's grammar (a dropped or altered descriptor)
    rules = tinycss2.parse_stylesheet(css, skip_comments=True, skip_whitespace=True)
    if len(rules) == 1 and rules[0].type == 'at-rule' and rules[0].content is not None:
        last = {}
        for decl in tinycss2.parse_blocks_contents(rules[0].content, skip_comments=True, skip_whitespace=True):
            if decl.type == 'declaration' and not decl.important:
                last[decl.lower_name] = tinycss2.serialize(decl.value)
        for dname, text in last.items():
            if dname in ('system', 'negative', 'prefix', 'suffix', 'range', 'pad', 'fallback', 'symbols',
                         'additive-symbols') and text.strip():
                what = descriptor_clause(dname, text)
                if what:
                    return f'{css}: {what}'
    if desc is None:
        return None
    system = desc['system'] or (None, 'symbolic', None)
    if system[0] is None:
        need = {'cyclic': 1, 'fixed': 1, 'symbolic': 1, 'alphabetic': 2, 'numeric': 2}.get(system[1])
        if need is not None and len(desc['symbols'] or ()) < need:
            return f'{css}: registered with {len(desc["symbols"] or ())} symbols for system {system[1]}'
        if system[1] == 'additive' and len(desc['additive_symbols'] or ()) < 2:
            return f'{css}: additive style registered with fewer than two tuples'
        if system[1] == 'fixed' and not isinstance(system[2], int):
            return f'{css}: fixed without a first symbol value'
    weights = [w for w, _ in (desc['additive_symbols'] or ())]
    if any(a <= b for a, b in zip(weights, weights[1:])) or any(w < 0 for w in weights):
        return f'{css}: additive weights {weights} are not strictly decreasing non-negative integers'
    if isinstance(desc['range'], tuple):
        for entry in desc['range']:
            if not (isinstance(entry, tuple) and len(entry) == 2):
                return f'{css}: range holds {entry!r}, which render_value cannot unpack as (min, max)'
            if not entry[0] <= entry[1]:
                return f'{css}: range {entry} is not ordered'
    if desc['pad'] is not None and desc['pad'][0] < 0:
        return f'{css}: negative pad length'
    return None
