"""The PM stage-2c document-level correspondence (multi-column containers)."""
from harness import docs, pm_col, pm_corr
from vlib import sx


def real_line(doc):
    import traceback
    try:
        with docs.time_limit(20):
            return pm_col.run_real(doc)
    except docs.Hang:
        return 'err:Hang'
    except Exception as exc:  # noqa: BLE001
        frames = [f for f in traceback.extract_tb(exc.__traceback__) if '/weasyprint/' in f.filename]
        where = f'{frames[-1].filename.split("/")[-1]}:{frames[-1].name}' if frames else 'harness'
        if isinstance(exc, AssertionError) and where == 'page.py:make_page':
            return 'err:pagination'
        if where.split(':')[0] in ('block.py', 'column.py'):
            return f'err:{type(exc).__name__}'            # a modelled failure point: the model prints the same
        return f'err:{type(exc).__name__}@{where}'       # outside the model (e.g. page.py:_update_page_groups)


def doc_from_json(data):
    """Inverse of `pm_corr.doc_json` for the extended documents."""
    from fractions import Fraction
    doc = pm_corr.doc_from_json(data)
    if 'pageW' in doc:
        doc['pageW'] = Fraction(doc['pageW'])
    for box in pm_col.walk(doc['root']):
        if 'gap' in box:
            box['gap'] = Fraction(box['gap'])
    return doc


def model_line(driver, doc):
    from vlib import lean
    return lean.run_driver(driver, [pm_col.doc_line(doc)])[0]


def add_cases(run, sec, count, gen=None, skip_errors=True, mode=None):
    """Queue the corpus documents of the repaired defects (regression cases, first), then `count` generated
    multi-column documents: protocol line for `driver_s2col` + the real layout, canonicalised.
    `skip_errors`: an exception of the implementation is C02's business; C01/C03 only count it."""
    docs.quiet()
    corpus = [] if gen else [witness_doc(name)[0] for name in REGRESSIONS]
    for k in range(len(corpus) + count):
        if k < len(corpus):
            doc = corpus[k]
        else:
            doc = gen(run.rng) if gen else pm_col.gen_doc(run.rng, mode=mode)
        out = real_line(doc)
        if skip_errors and out.startswith('err:') and out != 'err:pagination':
            sec.tags['implementation raised (left to C02)'] += 1
            continue
        pages = out.count('(page ')
        tags = pm_col.features(doc) + [f'pages{min(pages, 10)}'] + (['corpus-regression'] if k < len(corpus) else [])
        sec.add(pm_col.doc_line(doc), out, meta={'doc': pm_corr.doc_json(doc)},
                nontrivial=pages >= 2 and pm_col.has_columns(doc), tags=tags)


# ---------------------------------------------------------------------------------------------
# oracles on the implementation's canonical output (independent of the model)

def kids_of(frag):
    """Children list of a block-like fragment (`b`, `m`, `c`), ignoring a trailing x-mismatch marker."""
    for item in reversed(frag):
        if isinstance(item, list) and (not item or item[0] != 'x'):
            return item
    return []


def frag_lines(frag, out):
    if frag[0] == 'p':
        lines = next(item for item in reversed(frag) if isinstance(item, list) and (not item or item[0] != 'x'))
        for i, _y in lines:
            out.append((int(frag[1]), int(i)))
    else:
        for kid in kids_of(frag):
            frag_lines(kid, out)
    return out


def expected_lines(box, out):
    return pm_corr.expected_lines(box, out)


def lossy_reason(doc):
    """Known reason for which the unchanged code loses content in this grammar (see known_findings.txt): fixed
    heights on blocks and paragraphs (`fixed-height-forgets-overflow`). (`column-span: all` children were one
    until b24b457.)"""
    for box in pm_col.walk(doc['root']):
        if box['st']['height'] != 'auto' and box['kind'] != 'columns':
            return 'fixed-height'
    return None


def conservation_violation(doc, impl_out, strict=False):
    """C01 clause on the implementation's output: the (paragraph, line) pairs shown by the pages, in page and
    tree order, are exactly the lines of the document, in order, each once. With `strict=False` documents with
    a known lossy construct are not judged."""
    if impl_out.startswith('err:'):
        return f'pagination raised {impl_out}'
    pages = sx.loads_line(impl_out)
    got = []
    for page in pages:
        frag_lines(page[-1], got)
    want = expected_lines(doc['root'], [])
    if got != want and (strict or not lossy_reason(doc)):
        missing = [w for w in want if w not in got]
        dup = sorted({g for g in got if got.count(g) > 1})
        return f'lines lost {missing[:5]} duplicated {dup[:5]} or reordered (got {len(got)} of {len(want)})'
    return None


def box_ids(frag, out):
    if frag[0] == 'p':
        lines = next(item for item in reversed(frag) if isinstance(item, list) and (not item or item[0] != 'x'))
        out.add(('box', int(frag[1]), tuple(sorted(int(i) for i, _ in lines))))
    else:
        if frag[0] != 'c':
            out.add(('box', int(frag[1])))
        for kid in kids_of(frag):
            box_ids(kid, out)
    return out


def progress_violation(doc, impl_out):
    """C03 clause: every non-blank page shows something new (a line or a box not seen before), no two
    consecutive blank pages, and the number of pages is bounded by 2·(lines + boxes) + 8."""
    if impl_out.startswith('err:'):
        return f'pagination raised {impl_out}'
    pages = sx.loads_line(impl_out)
    n_lines = len(expected_lines(doc['root'], []))
    bound = 2 * (n_lines + sum(1 for _ in pm_col.walk(doc['root']))) + 8
    if len(pages) > bound:
        return f'{len(pages)} pages for {n_lines} lines'
    seen = set()
    previous_blank = False
    for page in pages:
        blank = page[3] == 'true'
        lines = frag_lines(page[-1], [])
        ids = box_ids(page[-1], set())
        new = (set(lines) | ids) - seen
        if not blank and not new:
            return f'page {page[1]} shows nothing new'
        if blank and previous_blank:
            return f'two consecutive blank pages at {page[1]}'
        seen |= set(lines) | ids
        previous_blank = blank
    return None


def deco_ok(doc):
    """Hypothesis `DecoOk` of `C03GeoCol.paginate_line_fits` (stage 1: `PStyle.DecoOk`): no paragraph or block has
    `box-decoration-break: clone` with `padding-bottom + border-bottom + margin-bottom < 0` (the cloned bottom
    decoration is reserved by *adding* that sum to the bottom space: a negative sum lets lines pass the bottom)."""
    from fractions import Fraction
    for box in pm_col.walk(doc['root']):
        st = box['st']
        if box['kind'] != 'columns' and st['clone'] and (
                Fraction(st['pb']) + Fraction(st['bb']) + Fraction(st['mb']) < 0):
            return False
    return True


def geometry_violation(doc, impl_out):
    """C03 geometry clause: a line whose bottom is below the page bottom is the first line placed on its page, or
    the first line of a column box of a group of columns before which no line was placed on the page (the columns
    of one group are laid out with the `page_is_empty` the group started with; after a spanning block or any other
    content the first line of a column has to fit like every other line)."""
    if impl_out.startswith('err:') or not deco_ok(doc):
        return None
    pages = sx.loads_line(impl_out)
    from fractions import Fraction
    page_h = Fraction(doc['pageH'])
    line_h = {b['id']: Fraction(b['lineH']) for b in pm_col.walk(doc['root']) if b['kind'] == 'para'}
    for page in pages:
        state = {'first': True}

        def visit(frag):
            if frag[0] == 'p':
                lines = next(i for i in reversed(frag) if isinstance(i, list) and (not i or i[0] != 'x'))
                for i, y in lines:
                    bottom = Fraction(y) + line_h[int(frag[1])]
                    if bottom > page_h * (1 + Fraction(1, 10**9)) and not state['first']:
                        return f'page {page[1]}: line {frag[1]}.{i} bottom {bottom} > {page_h} and not first'
                    state['first'] = False
                return None
            group_first = None          # `first` at the start of the current run of column boxes
            for kid in kids_of(frag):
                if kid[0] == 'c':
                    if group_first is None:
                        group_first = state['first']
                    state['first'] = group_first
                else:
                    group_first = None
                bad = visit(kid)
                if bad:
                    return bad
                if kid[0] == 'c' and not group_first:
                    state['first'] = False
            return None
        bad = visit(page[-1])
        if bad:
            return bad
    return None


# ---------------------------------------------------------------------------------------------
# the repaired defects (regression theorems of lean/WpModel/Witness/C01Col.lean) replayed on the implementation

REGRESSIONS = {
    # corpus file -> judge of the implementation's output: text if the defect is (back) there
    'colspan_lost': lambda doc, out: conservation_violation(doc, out, strict=True),
    'colspan_group_dropped': lambda doc, out: (
        conservation_violation(doc, out, strict=True) or progress_violation(doc, out)),
    'colspan_find_earlier_attribute_error': lambda doc, out: out if out.startswith('err:') else None,
    'columns_negative_margin_bottom': lambda doc, out: geometry_violation(doc, out),     # corpus/C03
    'columns_margin_top_ignored': lambda doc, out: margin_top_ignored(out),              # corpus/C05
    # a spanning block with block children cut by a page (d7e3d63): content lost / IndexError in the inline layout
    'colspan_block_resume_lost': lambda doc, out: (
        out if out.startswith('err:') else conservation_violation(doc, out, strict=True)),
    'colspan_block_resume_crash': lambda doc, out: (
        out if out.startswith('err:') else conservation_violation(doc, out, strict=True)),
}

# no finding of this grammar is open; the dictionary stays as the place for the next one (name -> judge)
OPEN = {}
WITNESSES = {**REGRESSIONS, **OPEN}          # every corpus document that `replay_witness` knows
# finding id (known_findings.txt) -> corpus document, read by harness/pm_stage2.finding_replays()
FINDING_WITNESS = {}


def margin_top_ignored(out):
    """corpus/C05/columns_margin_top_ignored: border-box top of the container (position_y + margin_top) is the bottom
    of the 10px paragraph before it, although the container has margin-top: 10px."""
    from fractions import Fraction
    if out.startswith('err:'):
        return None
    body = sx.loads_line(out)[0][-1][-1][0]
    container = [k for k in kids_of(body) if k[0] == 'm'][0]
    top = Fraction(container[3]) + Fraction(container[4])
    return f'container border box at {top}' if top == 10 else None


def witness_doc(name):
    import json
    from vlib.paths import CORPUS
    path = next(p for p in (CORPUS / c / f'{name}.json' for c in ('C01', 'C03', 'C05')) if p.exists())
    data = json.loads(path.read_text())
    return doc_from_json(data['doc']), data


def replay_witness(name):
    """True if the real code shows the defect recorded in corpus/C01|C03|C05/<name>.json (REGRESSIONS: repaired,
    see the `fixed:` lines of known_findings.txt - these documents are also the first cases of every pm-col section;
    OPEN: the `finding:` lines)."""
    docs.quiet()
    doc, _ = witness_doc(name)
    return bool(WITNESSES[name](doc, real_line(doc)))


doc_json = pm_corr.doc_json
