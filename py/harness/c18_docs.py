"""C18 document-level correspondence: generated headings / links / anchors / metadata, rendered with the
real pipeline, compared with the Lean models run on the same abstract input.

Sections (all fed by the same rendered documents):
  doc-gather             real laid-out box tree of every page -> model `gather` == Page.anchors/links/bookmarks
  doc-bookmark-tree      Page.bookmarks + heights -> model `mbt` == Document.make_bookmark_tree(scale, transform)
  doc-one-per-element    boxes carrying a bookmark label, by element -> model `watch` == labels kept after layout
  doc-outline-structure  headings of the *generated document* -> model `docoutl` == /Outlines tree of the PDF
  doc-pdf-outlines       Page.bookmarks -> model `pdfoutl` == outline dictionaries of the PDF, every field
  doc-pdf-links          Page.links/anchors -> model `doclinks` == /Annots of every page and /Names /Dests
  doc-info               <title>/<meta>/lang of the generated document -> model `info` == /Info and /Lang
  doc-link-elements      href, rel, id, name attributes of the generated document -> model `docels` == Page.links / Page.anchors
"""
import html as html_mod
import urllib.parse
from fractions import Fraction

from harness import c18_gen as G
from harness import c18_pdf, docs
from vlib import sx

F = Fraction
esc = G.esc
DOC_KINDS = ('doc',)

NAME_POOL = ['a', 'b', 'c', 'top', 'sec 1', 'é', 'x(y)', 'Zed', 'aé']
WORDS = ['aa', 'bbb', 'cccc', 'dd', 'eee', 'ffff', 'g', 'hh']
UNI_WORDS = ['é', 'ñandú', '中文', 'x(y)', 'a\\b', '😀', 'ça']
TRANSFORMS = [
    ('scale(2)', True), ('scale(0.5, 2)', True), ('scale(-1, 1)', True), ('translate(8px, 4px)', True),
    ('translate(25%, 50%)', True), ('matrix(1, 0, 0, 1, 5, 5)', True), ('matrix(0, 1, -1, 0, 0, 0)', True),
    ('scale(2) translate(10px, 25%)', True), ('translate(-16px, 12px) scale(0.5)', True),
    ('matrix(0.5, 0, 0, 0.5, 12, -8) scale(2, 1)', True),
]
META_STRINGS = ['Plain title', 'Ünïcödé 中文 😀', 'with (parens) and \\ backslash', '  spaced  out  ', 'a,b', '',
                'tab\there', 'line\nbreak', 'nbsp end ', 'Ω', 'x' * 60, '&amp; <tag> "q" \'s\'']


# horizontal / vertical margins, paddings and borders of inline links, anchors and bookmarked spans: the clickable
# rectangle is the border box horizontally and the line height vertically, whatever the margins
INLINE_BOX_STYLES = ['margin:0 8px', 'margin:0 4px 0 12px;padding:0 4px', 'padding:2px 4px;border:1px solid',
                     'margin:0 -4px 0 8px', 'margin:4px 16px;padding:0 2px;border-left:2px solid', 'margin-left:20px',
                     'margin-right:12px;padding-right:8px']


class Unsupported(Exception):
    pass


# ------------------------------------------------------------------ generator

def gen_words(rng, n, unicode_ok=False):
    return [rng.choice(UNI_WORDS) if unicode_ok and rng.random() < 0.15 else rng.choice(WORDS) for _ in range(n)]


def gen_link(rng, counter):
    kind = rng.choice(['internal', 'internal', 'internal', 'external', 'external', 'attachment', 'relative', 'samedoc'])
    link = {'k': next(counter), 'words': gen_words(rng, rng.choice([1, 1, 2, 6])), 'id': None, 'name': None,
            'transform': None}
    if kind == 'internal':
        name = rng.choice(NAME_POOL + ['missing', 'nope'])
        link.update(type='internal', target=name,
                    href='#' + (urllib.parse.quote(name) if rng.random() < 0.8 else name))
    elif kind == 'samedoc':
        name = rng.choice(NAME_POOL + ['missing'])
        link.update(type='internal', target=name, href=None, samedoc=True)   # href: base URL + '#name', at render time
    elif kind == 'external':
        url = rng.choice(['http://example.org/', 'https://example.org/a/b?q=1#frag', 'mailto:x@example.org',
                          'http://example.org/%C3%A9'])
        link.update(type='external', target=url, href=url)
    elif kind == 'relative':
        rel = rng.choice(['rel/x.html', 'other.html#sec', '../up', '?page=2#top', '?q=a#a'])
        link.update(type='external', target=None, href=rel)      # target: urljoin(base, rel), filled at render time
    else:
        data = rng.choice(['data:text/plain,hello', 'data:text/plain,bye', 'data:,x'])
        link.update(type='attachment', target=data, href=data)
    # rel: `attachment` is a space-separated, ASCII case-insensitive token
    if link['type'] == 'attachment':
        link['rel'] = rng.choice(['attachment', 'attachment', 'Attachment', 'nofollow ATTACHMENT', 'attachment\tx'])
    else:
        link['rel'] = rng.choice([None, None, None, None, 'attachments', 'nofollow', 'attach ment'])
    k = rng.random()
    if k < 0.15:
        link['id'] = rng.choice(NAME_POOL)
    elif k < 0.25:
        link['name'] = rng.choice(NAME_POOL)
    elif k < 0.29:
        link['id'], link['name'] = rng.sample(NAME_POOL, 2)      # both: the element carries two names
    if rng.random() < 0.05:
        link['transform'] = rng.choice(TRANSFORMS)[0]
    link['box'] = rng.choice(INLINE_BOX_STYLES) if rng.random() < 0.25 else None
    return link


def gen_block(rng, counter, depth, unicode_ok):
    k = rng.random()
    block = {'k': next(counter), 'break_before': rng.random() < 0.08, 'id': None, 'transform': None}
    if rng.random() < 0.3:
        block['id'] = rng.choice(NAME_POOL)
    if rng.random() < 0.1:
        block['transform'] = rng.choice(TRANSFORMS)[0]
    if k < 0.5:
        level = rng.randint(1, 6) if rng.random() < 0.85 else rng.randint(7, 9)
        n_words = rng.choice([1, 1, 2, 3, 3, 12, 30]) if rng.random() < 0.9 else rng.randint(1, 40)
        block.update(kind='heading', level=level, tag=f'h{level}' if level <= 6 and rng.random() < 0.8 else 'div',
                     state='closed' if rng.random() < 0.25 else 'open', words=gen_words(rng, n_words, unicode_ok),
                     link=None, no_bookmark=rng.random() < 0.04, string_label=None)
        if block['tag'] == 'div':
            block['no_bookmark'] = False
        if rng.random() < 0.1:
            block['link'] = gen_link(rng, counter)
        if rng.random() < 0.04:
            block['string_label'] = rng.choice(['Custom é', 'x', 'Two words'])
        # bookmarked ::before / ::after boxes (their own de-duplication lists in layout_document)
        block['pseudo'] = []
        for which in ('before', 'after'):
            if rng.random() < 0.07:
                block['pseudo'].append({'which': which, 'level': rng.randint(1, 7), 'label': f'{which} {block["k"]}',
                                        'words': gen_words(rng, rng.choice([1, 2, 12]))})
    elif k < 0.8 or depth >= 2:
        items = []
        for _ in range(rng.choice([1, 1, 2, 3, 5])):
            r = rng.random()
            if r < 0.55:
                items.append(gen_link(rng, counter))
            elif r < 0.65:
                # an inline bookmarked element: one box per line it spans, all carrying the label
                items.append({'k': next(counter), 'span': True, 'level': rng.randint(1, 7),
                              'state': 'closed' if rng.random() < 0.25 else 'open',
                              'words': gen_words(rng, rng.choice([1, 3, 8, 20])),
                              'box': rng.choice(INLINE_BOX_STYLES) if rng.random() < 0.3 else None})
            else:
                items.append({'words': gen_words(rng, rng.randint(1, 4))})
        block.update(kind='para', items=items)
    else:
        bookmarked = rng.random() < 0.6
        block.update(kind='wrapper', transform=rng.choice(TRANSFORMS)[0] if rng.random() < (0.2 if bookmarked else 0.8)
                     else None, bm=None,
                     blocks=[gen_block(rng, counter, depth + 1, unicode_ok)
                             for _ in range(rng.randint(2, 6) if bookmarked else rng.randint(1, 3))])
        if bookmarked:
            # a bookmarked container (chapter) around bookmarked headings: it continues on the next pages
            # *after* other bookmarked elements
            block['bm'] = {'level': rng.randint(1, 4), 'state': 'closed' if rng.random() < 0.25 else 'open',
                           'label': rng.choice(['Chapter', 'Part é', 'A (b)']) + f' {block["k"]}'}
    return block


def gen_head(rng, adversarial):
    head = []
    for _ in range(rng.choice([0, 1, 2, 4, 7])):
        k = rng.random()
        if k < 0.2:
            head.append(('title', rng.choice(META_STRINGS)))
            continue
        name = rng.choice(['author', 'author', 'description', 'keywords', 'generator', 'dcterms.created',
                           'dcterms.modified', 'Author', 'KEYWORDS', 'DCTERMS.Created', 'other', ''])
        if name.lower().startswith('dcterms'):
            content = G.date_string(rng)[0]
            if rng.random() < 0.25:
                content = G.mutate_date(rng, content)
            if rng.random() < 0.1:
                content = ' ' + content + '\n'
        elif name.lower() == 'keywords':
            content = rng.choice(['a, b', 'k1,k2 , k1,,', ' spaced  words ,x', '', ',', 'é, 中文', 'one', '\xa0k1\xa0, k2\x0c,\tk3\n'])
        else:
            content = rng.choice(META_STRINGS)
        head.append(('meta', name, content))
    return head


ATTACH_HREFS = ['data:text/plain,DOC1', 'data:text/csv;base64,YSxiCjEsMgo=', 'data:,', 'missing-doc-file.bin',
                'data:text/plain,hello', None]


def gen_attach_head(rng):
    """<link rel=attachment> elements: href (fetchable data: URL, a file that does not exist, or missing), title."""
    return [{'href': rng.choice(ATTACH_HREFS), 'title': rng.choice([None, None, 'Desc é (x)', ''])}
            for _ in range(rng.choice([0, 0, 0, 1, 2, 3]))]


def gen_attach_option(rng):
    """Attachment objects passed as the `attachments` option of write_pdf."""
    return [{'content': rng.choice(['opt-a', '', 'zzz é']), 'name': rng.choice([None, 'b é.txt', 'a.txt', 'data.csv', 'report', 'report 2', 'a(1).txt', 'aZ.txt',
                                                                            'a', 'a#b']),
             'description': rng.choice([None, 'opt desc', ''])} for _ in range(rng.choice([0, 0, 0, 1, 2, 4]))]


def gen_doc(rng, adversarial=False, size=None):
    counter = iter(range(10 ** 6))
    n_blocks = size if size is not None else rng.choice([0, 1, 2, 4, 6, 10, 16, 30])
    unicode_ok = rng.random() < 0.4
    blocks = [gen_block(rng, counter, 0, unicode_ok) for _ in range(n_blocks)]
    return {
        'width': 200, 'height': rng.choice([60, 80, 100, 140, 300]), 'margin': rng.choice([0, 0, 8]),
        # pages of different heights: the first page, the left pages (outline targets are measured from the bottom of
        # *their own* page)
        'first_height': rng.choice([None, None, None, 120, 260, 40]), 'left_height': rng.choice([None, None, None, 160, 60]),
        'zoom': rng.choice([1, 1, 2, 0.5]), 'lang': rng.choice([None, None, 'fr', 'en-GB', '']),
        'head': gen_head(rng, adversarial), 'blocks': blocks,
        'attach_head': gen_attach_head(rng), 'attach_option': gen_attach_option(rng),
    }


# ------------------------------------------------------------------ serialisation

def attr(value):
    # a raw CR would be turned into LF by the HTML input-stream preprocessing: write it as a reference
    return html_mod.escape(value, quote=True).replace('\r', '&#13;')


def link_html(link):
    attrs = [f'data-k="{link["k"]}"', f'href="{attr(link["href"])}"']
    rel = link.get('rel', 'attachment' if link['type'] == 'attachment' else None)
    if rel is not None:
        attrs.append(f'rel="{attr(rel)}"')
    if link['id'] is not None:
        attrs.append(f'id="{attr(link["id"])}"')
    if link['name'] is not None:
        attrs.append(f'name="{attr(link["name"])}"')
    styles = ([f'transform:{link["transform"]}'] if link['transform'] else []) + (
        [link['box']] if link.get('box') else [])
    if styles:
        attrs.append(f'style="{";".join(styles)}"')
    return f'<a {" ".join(attrs)}>{html_mod.escape(" ".join(link["words"]))}</a>'


def item_html(item):
    if 'href' in item:
        return link_html(item)
    text = html_mod.escape(' '.join(item['words']))
    if item.get('span'):
        state = ';bookmark-state:closed' if item['state'] == 'closed' else ''
        if item.get('box'):
            state += ';' + item['box']
        return (f'<span data-k="{item["k"]}" style="bookmark-level:{item["level"]};bookmark-label:content(text)'
                f'{state}">{text}</span>')
    return text


def pseudo_css(spec):
    rules = []
    for block in walk_blocks(spec['blocks']):
        for pseudo in block.get('pseudo') or ():
            rules.append(f'[data-k="{block["k"]}"]::{pseudo["which"]}{{content:"{" ".join(pseudo["words"])} ";'
                         f'bookmark-level:{pseudo["level"]};bookmark-label:"{pseudo["label"]}"}}')
    return ''.join(rules)


def block_html(block):
    styles, attrs = [], [f'data-k="{block["k"]}"']
    if block['break_before']:
        styles.append('break-before:page')
    if block['transform']:
        styles.append(f'transform:{block["transform"]}')
    if block['id'] is not None:
        attrs.append(f'id="{attr(block["id"])}"')
    if block['kind'] == 'heading':
        if block['tag'] == 'div':
            styles.append(f'bookmark-level:{block["level"]};bookmark-label:content(text)')
        if block['no_bookmark']:
            styles.append('bookmark-level:none')
        if block['state'] == 'closed':
            styles.append('bookmark-state:closed')
        if block['string_label']:
            styles.append(f"bookmark-label:'{block['string_label']}'")
        words = html_mod.escape(' '.join(block['words']))
        if block['link']:
            words += ' ' + link_html(block['link'])
        inner, tag = words, block['tag']
    elif block['kind'] == 'para':
        inner = ' '.join(item_html(i) for i in block['items'])
        tag = 'p'
    else:
        inner, tag = ''.join(block_html(b) for b in block['blocks']), 'div'
        if block.get('bm'):
            attrs.append(f'title="{attr(block["bm"]["label"])}"')
            styles.append(f'bookmark-level:{block["bm"]["level"]};bookmark-label:attr(title)')
            if block['bm']['state'] == 'closed':
                styles.append('bookmark-state:closed')
    if styles:
        attrs.append(f'style="{";".join(styles)}"')
    return f'<{tag} {" ".join(attrs)}>{inner}</{tag}>'


def doc_html(spec):
    head = []
    for el in spec['head']:
        if el[0] == 'title':
            head.append(f'<title>{html_mod.escape(el[1], quote=False)}</title>'.replace('\r', '&#13;'))
        else:
            head.append(f'<meta name="{attr(el[1])}" content="{attr(el[2])}">')
    for el in spec.get('attach_head') or ():
        href = '' if el['href'] is None else f' href="{attr(el["href"])}"'
        title = '' if el['title'] is None else f' title="{attr(el["title"])}"'
        head.append(f'<link rel="attachment"{href}{title}>')
    lang = '' if spec['lang'] is None else f' lang="{attr(spec["lang"])}"'
    style = (f'@page{{size:{spec["width"]}px {spec["height"]}px;margin:{spec["margin"]}px}}' +
             (f'@page :left{{size:{spec["width"]}px {spec["left_height"]}px}}' if spec.get('left_height') else '') +
             (f'@page :first{{size:{spec["width"]}px {spec["first_height"]}px}}' if spec.get('first_height') else '') +
             'body{margin:0;font:20px/20px weasyprint}'
             'h1,h2,h3,h4,h5,h6,p,div{display:block;font-size:20px;margin:0;font-weight:normal}' + pseudo_css(spec))
    return (f'<!DOCTYPE html><html{lang}><head>{"".join(head)}<style>{style}</style></head><body>'
            f'{"".join(block_html(b) for b in spec["blocks"])}</body></html>')


# ------------------------------------------------------------------ expectations read from the spec

def walk_blocks(blocks):
    for block in blocks:
        yield block
        if block['kind'] == 'wrapper':
            yield from walk_blocks(block['blocks'])


def heading_label(block):
    if block['string_label']:
        return block['string_label']
    words = list(block['words'])
    if block['link']:
        words += block['link']['words']
    return ' '.join(words)


def spec_bookmarks(spec):
    """Every bookmarked element (and pseudo-element) in document order:
    {level, label, state, k: data-k of the element, or None for a pseudo-element}."""
    out = []
    for b in walk_blocks(spec['blocks']):
        if b['kind'] == 'heading':
            pseudo = {p['which']: p for p in b.get('pseudo') or ()}
            if not b['no_bookmark']:
                out.append({'level': b['level'], 'label': heading_label(b), 'state': b['state'], 'k': b['k']})
            for which in ('before', 'after'):      # ::before box first, ::after box last, both inside the element
                if which in pseudo:
                    entry = {'level': pseudo[which]['level'], 'label': pseudo[which]['label'], 'state': 'open', 'k': None}
                    out.append(entry)
        elif b['kind'] == 'wrapper' and b.get('bm'):
            out.append(dict(b['bm'], k=b['k']))
        elif b['kind'] == 'para':
            for item in b['items']:
                if item.get('span'):
                    out.append({'level': item['level'], 'label': ' '.join(item['words']), 'state': item['state'],
                                'k': item['k']})
    return out


def spec_headings(spec):
    return [(b['level'], b['label'], b['state']) for b in spec_bookmarks(spec)]


def spec_links(spec):
    out = []
    for block in walk_blocks(spec['blocks']):
        if block['kind'] == 'heading' and block['link']:
            out.append(block['link'])
        elif block['kind'] == 'para':
            out.extend(i for i in block['items'] if 'href' in i)
    return out


def link_names(link, shadow=False):
    """The names an <a> carries: its id and its name.  `shadow`: as the code sees it (known finding
    anchor-id-shadowed-by-name: the name hides the id)."""
    if link['id'] and link['name'] and shadow:
        return [link['name']]
    return [n for n in (link['id'], link['name']) if n]


def spec_anchor_names(spec, shadow=False):
    """Ids / names in document order (an element's id comes with the element, before its descendants)."""
    out = []
    for block in walk_blocks(spec['blocks']):
        if block['id']:
            out.append(block['id'])
        links = ([block['link']] if block['kind'] == 'heading' and block['link'] else
                 [i for i in block.get('items', []) if 'href' in i])
        for link in links:
            out.extend(link_names(link, shadow))
    return out


def has_shadowed_id(spec):
    return any(l['id'] and l['name'] and l['id'] != l['name'] for l in spec_links(spec))


def spec_elements(spec):
    """The elements of the generated document that can carry a link or a name, in document order:
    [data-k, tag, id, name, href, rel] (what `Wp.LinkAttr.documentLinks` reads)."""
    out = []
    for block in walk_blocks(spec['blocks']):
        tag = block['tag'] if block['kind'] == 'heading' else 'p' if block['kind'] == 'para' else 'div'
        out.append([block['k'], tag, block['id'], None, None, None])
        for link in ([block['link']] if block['kind'] == 'heading' and block['link'] else
                     [i for i in block.get('items', []) if 'href' in i]):
            out.append([link['k'], 'a', link['id'], link['name'], link['href'],
                        link.get('rel', 'attachment' if link['type'] == 'attachment' else None)])
    return out


# ------------------------------------------------------------------ abstraction of real objects

def dim_wire(d):
    if d.unit == 'px':
        return ['px', G.frac(d.value)]
    if d.unit == '%':
        return ['pct', G.frac(d.value)]
    raise Unsupported(f'unit {d.unit}')


GEOM_KEYS = ('position_x', 'position_y', 'width', 'height', 'margin_top', 'margin_right', 'margin_bottom', 'margin_left',
             'padding_top', 'padding_right', 'padding_bottom', 'padding_left', 'border_top_width', 'border_right_width',
             'border_bottom_width', 'border_left_width')


def geom_wire(box):
    """The used values of a laid-out box (attributes, no method of the box is called)."""
    try:
        return [G.frac(getattr(box, key)) for key in GEOM_KEYS]
    except (AttributeError, TypeError, ValueError):
        raise Unsupported('box without used values')


def expected_hit(box):
    """The clause on the clickable rectangle, stated on the used values: the border box; for an inline box the
    border box horizontally and the whole line height (its margin box) vertically."""
    from weasyprint.formatting_structure import boxes
    g = dict(zip(GEOM_KEYS, geom_wire(box)))
    x = g['position_x'] + g['margin_left']
    w = g['width'] + g['padding_left'] + g['padding_right'] + g['border_left_width'] + g['border_right_width']
    h = g['height'] + g['padding_top'] + g['padding_bottom'] + g['border_top_width'] + g['border_bottom_width']
    if isinstance(box, boxes.InlineBox):
        return x, g['position_y'], w, h + g['margin_top'] + g['margin_bottom']
    return x, g['position_y'] + g['margin_top'], w, h


def real_box_wire(box):
    """What gather_anchors reads from a laid-out box, as the wire form of `Anchors.RBox`."""
    from weasyprint.formatting_structure import boxes
    if isinstance(box, boxes.InlineBox):
        kind = 'inline'
    elif isinstance(box, boxes.TextBox):
        kind = 'text'
    elif isinstance(box, boxes.LineBox):
        kind = 'line'
    else:
        kind = 'other'
    ops = []
    for name, args in box.style['transform'] or ():
        if name == 'scale':
            ops.append(['scale', G.frac(args[0]), G.frac(args[1])])
        elif name == 'translate':
            ops.append(['translate', dim_wire(args[0]), dim_wire(args[1])])
        elif name == 'matrix':
            ops.append(['matrix'] + [G.frac(v) for v in args])
        else:
            raise Unsupported(name)
    origin = box.style['transform_origin']
    geom = geom_wire(box)
    level = box.style['bookmark_level']
    link = box.style['link']
    if link is not None:
        if link[0] != 'url':
            raise Unsupported('link token')
        link = [esc(link[1][0]), esc(link[1][1])]
    if box.is_input():
        raise Unsupported('input')
    anchor = box.style['anchor']
    return [kind, ops, dim_wire(origin[0]), dim_wire(origin[1]), geom,
        esc(box.bookmark_label or ''), None if level == 'none' else level, esc(box.style['bookmark_state']), link,
        bool(box.is_attachment()), None if anchor is None else esc(anchor),
        [real_box_wire(child) for child in box.all_children()]]


def gathered_wire(page):
    return (sx.dumps([[esc(n)] + [G.frac(v) for v in rect] for n, rect in page.anchors.items()]) + ' ' +
            sx.dumps([[esc(k), esc(t)] + [G.frac(v) for v in rect] for k, t, rect, _ in page.links]) + ' ' +
            sx.dumps([[lvl, esc(lab), G.frac(x), G.frac(y), esc(st)] for lvl, lab, (x, y), st in page.bookmarks]))


def six_decimals(values):
    """True when every value is written exactly by pydyf's `f'{x:f}'` (6 decimal places)."""
    return all((G.frac(v) * 10 ** 6).denominator == 1 for v in values)


class Pdf:
    """The navigation objects of a written PDF."""

    def __init__(self, data):
        self.objects, self.trailer = c18_pdf.read(data)
        self.catalog = self.objects[int(self.trailer['Root'])]
        self.info = self.objects[int(self.trailer['Info'])] if 'Info' in self.trailer else {}
        self.page_numbers = [int(r) for r in self.objects[int(self.catalog['Pages'])]['Kids']]
        self.pages = [self.objects[n] for n in self.page_numbers]

    def outline_objects(self):
        return sorted(n for n in self.objects.numbers_with(b'/Title') if isinstance(self.objects[n], dict) and
                      'Title' in self.objects[n] and 'Dest' in self.objects[n])

    def outline_wire(self):
        """Same canonical form as the direct add_outlines section."""
        def ref(o, key):
            return int(o[key]) if key in o else None
        out = []
        for n in self.outline_objects():
            o = self.objects[n]
            dest = o['Dest']
            extra = set(o) - {'Title', 'Dest', 'Count', 'Prev', 'Next', 'First', 'Last', 'Parent'}
            if len(dest) != 5 or str(dest[1]) != 'XYZ' or dest[4] != 0 or extra:
                out.append(['bad-outline', n])
                continue
            out.append([n, esc(str(o['Title'])), int(dest[0]), dest[2], dest[3], int(o['Count']), ref(o, 'Prev'),
                        ref(o, 'Next'), ref(o, 'First'), ref(o, 'Last'), ref(o, 'Parent')])
        dictionary, count = None, 0
        if 'Outlines' in self.catalog:
            n = int(self.catalog['Outlines'])
            d = self.objects[n]
            if set(d) != {'Count', 'First', 'Last'}:
                return f'bad-outlines-dictionary {sorted(d)}'
            dictionary = [n, int(d['Count']), int(d['First']), int(d['Last'])]
            count = int(d['Count'])
        return sx.dumps(out) + ' ' + sx.dumps(dictionary) + ' ' + sx.atom(count)

    def outline_structure(self):
        """Walk First/Next from the outlines dictionary, checking Prev/Last/Parent on the way:
        nested (title count (children)) + the dictionary's Count."""
        if 'Outlines' not in self.catalog:
            return '() 0'
        root_number = int(self.catalog['Outlines'])
        root = self.objects[root_number]
        seen = set()

        def children(parent_number, parent):
            out, number, prev = [], parent.get('First'), None
            if (number is None) != ('Last' not in parent):
                raise ValueError(f'object {parent_number}: First without Last')
            while number is not None:
                number = int(number)
                if number in seen:
                    raise ValueError(f'outline {number} reached twice')
                seen.add(number)
                o = self.objects[number]
                if int(o['Parent']) != parent_number:
                    raise ValueError(f'outline {number}: Parent {o["Parent"]!r}, reached from {parent_number}')
                if (int(o['Prev']) if 'Prev' in o else None) != prev:
                    raise ValueError(f'outline {number}: Prev {o.get("Prev")!r}, previous sibling {prev}')
                out.append([esc(str(o['Title'])), int(o['Count']), children(number, o)])
                prev, number = number, o.get('Next')
            if prev is not None and int(parent['Last']) != prev:
                raise ValueError(f'object {parent_number}: Last {parent["Last"]!r}, last child {prev}')
            return out
        try:
            tree = children(root_number, root)
        except (ValueError, KeyError) as exc:
            return 'bad-links:' + esc(str(exc))
        if seen != set(self.outline_objects()):
            return 'bad-links:unreachable-outline-objects'
        return sx.dumps(tree) + ' ' + sx.atom(int(root['Count']))

    def links_wire(self):
        pages = []
        for page in self.pages:
            annots = []
            for r in page.get('Annots', []):
                a = self.objects[int(r)]
                rect = list(a['Rect'])
                if str(a.get('Subtype')) == 'Link':
                    if 'Dest' in a:
                        annots.append(['internal', esc(str(a['Dest']))] + rect)
                    elif 'A' in a and str(a['A'].get('S')) == 'URI':
                        annots.append(['external', esc(str(a['A']['URI']))] + rect)
                    else:
                        annots.append(['bad-link', int(r)])
                elif str(a.get('Subtype')) == 'FileAttachment':
                    annots.append(['attachment'] + rect)
                else:
                    annots.append(['other-annot', int(r)])
            pages.append(annots)
        dests = []
        names = self.catalog.get('Names', {})
        if 'Dests' in names:
            array = c18_pdf.deref(self.objects, names['Dests'])['Names']
            for key, value in zip(array[::2], array[1::2]):
                if len(value) != 5 or str(value[1]) != 'XYZ' or value[4] != 0 or int(value[0]) not in self.page_numbers:
                    dests.append(['bad-dest', esc(str(key))])
                else:
                    dests.append([esc(str(key)), self.page_numbers.index(int(value[0])), value[2], value[3]])
        return sx.dumps(pages) + ' ' + sx.dumps(dests)

    def attachments_wire(self):
        """Per page the /FileAttachment annotations, the link-level file specifications (creation order), the
        document-level ones and the /EmbeddedFiles name array — the output form of `docatt`."""
        import hashlib
        filespecs = sorted(n for n in self.objects.numbers_with(b'/Filespec') if isinstance(self.objects[n], dict) and
                           str(self.objects[n].get('Type')) == 'Filespec')
        embedded, names = [], None
        catalog_names = self.catalog.get('Names', {})
        if 'EmbeddedFiles' in catalog_names:
            array = c18_pdf.deref(self.objects, catalog_names['EmbeddedFiles'])['Names']
            embedded = sorted({int(r) for r in array[1::2]})
            names = [[esc(key.raw.decode('utf-8', errors='replace')), embedded.index(int(ref))]
                     for key, ref in zip(array[::2], array[1::2])]
        link_level = [n for n in filespecs if n not in embedded]

        def spec(n):
            o = self.objects[n]
            stream = self.objects[int(o['EF']['F'])]
            data = stream['__stream__']
            params = stream['Params']
            ok = (o['F'].raw == str(o['UF']).encode('utf-8') and int(params['Size']) == len(data) and
                  params['CheckSum'].raw == hashlib.md5(data).digest() and str(stream.get('Type')) == 'EmbeddedFile')
            if not ok:
                return ['bad-filespec', n]
            return [esc(str(o['UF'])), esc(str(stream['Subtype'])), len(data), esc(str(o['Desc']))]
        pages = []
        for page in self.pages:
            annots = []
            for r in page.get('Annots', []):
                a = self.objects[int(r)]
                if str(a.get('Subtype')) == 'FileAttachment':
                    fs = int(a['FS'])
                    annots.append([link_level.index(fs) if fs in link_level else 'lost'] + list(a['Rect']))
            pages.append(annots)
        return (sx.dumps(pages) + ' ' + sx.dumps([spec(n) for n in link_level]) + ' ' +
                sx.dumps([spec(n) for n in embedded]) + ' ' + sx.dumps(names))

    def embedded_contents(self):
        names = self.catalog.get('Names', {})
        if 'EmbeddedFiles' not in names:
            return []
        array = c18_pdf.deref(self.objects, names['EmbeddedFiles'])['Names']
        return [self.objects[int(self.objects[int(ref)]['EF']['F'])]['__stream__'] for ref in array[1::2]]

    def info_wire(self):
        out = []
        for key in ('Title', 'Author', 'Subject', 'Keywords', 'Creator', 'CreationDate', 'ModDate'):
            if key in self.info:
                out.append([key, G.cps(str(self.info[key]))])
        if 'Lang' in self.catalog:
            out.append(['Lang', G.cps(str(self.catalog['Lang']))])
        return sx.dumps(out)


# ------------------------------------------------------------------ the sections

def render_spec(spec):
    from weasyprint import Attachment
    document = docs.render(doc_html(spec))
    options = [Attachment(string=a['content'], name=a['name'], description=a['description'])
               for a in spec.get('attach_option') or ()]
    data = document.write_pdf(zoom=spec['zoom'], uncompressed_pdf=True, full_fonts=True, attachments=options or None)
    return document, Pdf(data)


def fetch_model(url):
    """What the default fetcher delivers for a URL of the generated documents: the `Att` the model reads.
    data: URLs are decoded by the standard library; anything else is a file that does not exist."""
    import urllib.request
    from os.path import basename
    from urllib.parse import unquote, urlsplit
    size = None
    if url.startswith('data:'):
        with urllib.request.urlopen(url) as response:
            size = len(response.read())
    url_base = basename(unquote(urlsplit(url).path)) if urlsplit(url).path else None
    return {'size': size, 'name': None, 'urlBase': url_base, 'description': None}


def base_url():
    return docs._env()[1]


def fill_targets(spec):
    for link in spec_links(spec):
        if link.get('samedoc') and link['href'] is None:
            link['href'] = base_url() + '#' + urllib.parse.quote(link['target'])
        if link['target'] is None:
            link['target'] = urllib.parse.urljoin(base_url(), link['href'])


def watch_items(document):
    """Boxes that carry (or carried) a bookmark label, in the order of layout_document's pass."""
    items, kept = [], []
    ids = {}
    for page in document.pages:
        for box in page._page_box.descendants():
            label_style = box.style['bookmark_label']
            if box.style['bookmark_level'] == 'none' or not label_style or box.element is None:
                continue
            if box.bookmark_label is None:
                continue
            tag = box.element_tag
            pseudo = 'before' if tag.endswith('::before') else 'after' if tag.endswith('::after') else 'none'
            items.append([ids.setdefault(id(box.element), len(ids)), pseudo])
            kept.append(bool(box.bookmark_label))
    return items, kept


def add_document_cases(secs, spec, run, stats):
    fill_targets(spec)
    html = doc_html(spec)
    meta = {'kind': 'doc', 'html': html, 'zoom': spec['zoom'], 'spec': spec}
    try:
        document, pdf = render_spec(spec)
    except Exception as exc:  # noqa: BLE001 - rendering must be total: reported through the structure section
        secs['structure'].add(sx.line('docoutl', [[lvl, esc(lab), esc(st)] for lvl, lab, st in spec_headings(spec)]),
                              G.err_outcome(exc), meta=meta, tags=['render-error'])
        return
    scale = F(spec['zoom']) * F(3, 4)
    headings = spec_headings(spec)
    n_pages = len(document.pages)
    split = sum(1 for kept in watch_items(document)[1] if not kept)
    tags = [f'pages{min(n_pages, 5)}', f'headings{min(len(headings) // 5 * 5, 40)}']
    if len({p.height for p in document.pages}) > 1:
        tags.append('page-heights-differ')
    if split:
        tags.append('heading-split-over-pages')

    # gather_anchors on the real box trees
    for page in document.pages:
        try:
            wire = real_box_wire(page._page_box)
        except Unsupported:
            stats['unsupported'] += 1
            continue
        payload = bool(page.anchors or page.links or page.bookmarks)
        styled = any(getattr(box, 'margin_left', 0) or getattr(box, 'margin_right', 0)
                     for _, _, _, box in page.links if type(box).__name__ == 'InlineBox')
        secs['gather'].add(sx.line('gatherraw', wire), gathered_wire(page), meta=meta, nontrivial=payload,
                           tags=[t for t, c in (('anchors', page.anchors), ('links', page.links),
                                                ('bookmarks', page.bookmarks),
                                                ('inline-link-with-horizontal-margin', styled)) if c])

    # make_bookmark_tree on the real pages
    pages_wire = [[G.frac(p.height), [[lvl, esc(lab), G.frac(x), G.frac(y), esc(st)]
                                      for lvl, lab, (x, y), st in p.bookmarks]] for p in document.pages]
    for transform in (False, True):
        out = G.outcome(lambda: sx.dumps(G.tree_wire(document.make_bookmark_tree(scale, transform))))
        secs['tree'].add(sx.line('mbt', scale, transform, pages_wire), out, meta=meta,
                         nontrivial=len(headings) >= 3 and n_pages >= 2, tags=tags)

    # one bookmark per element
    items, kept = watch_items(document)
    interleaved = any(items[i] in items[:i] and items[i - 1] != items[i] for i in range(1, len(items)))
    watch_tags = ['split' if split else 'nosplit']
    if interleaved:
        watch_tags.append('fragments-interleaved-with-other-bookmarks')
    if any(item[1] != 'none' for item in items):
        watch_tags.append('pseudo-element')
    secs['watch'].add(sx.line('watch', items), sx.dumps(kept), meta=meta, nontrivial=split > 0, tags=watch_tags)

    # outline structure from the generated document
    secs['structure'].add(sx.line('docoutl', [[lvl, esc(lab), esc(st)] for lvl, lab, st in headings]),
                          pdf.outline_structure(), meta=meta, nontrivial=len(headings) >= 3 and len(
                              {h[0] for h in headings}) >= 2, tags=tags)

    # exact outline dictionaries
    coords = [v for p in document.pages for _, _, (x, y), _ in p.bookmarks
              for v in (G.frac(x) * scale, (G.frac(p.height) - G.frac(y)) * scale)]
    numbers = pdf.outline_objects()
    if six_decimals(coords):
        secs['outlines'].add(sx.line('pdfoutl', scale, numbers[0] if numbers else 0, pdf.page_numbers, pages_wire),
                             pdf.outline_wire(), meta=meta, nontrivial=len(headings) >= 3, tags=tags)
    else:
        stats['float_rounding_skipped'] += 1

    # links and named destinations
    coords = []
    for p in document.pages:
        for _, _, rect, _ in p.links:
            coords.extend([G.frac(rect[0]) * scale, G.frac(rect[2]) * scale, (G.frac(p.height) - G.frac(rect[1])) * scale,
                           (G.frac(p.height) - G.frac(rect[3])) * scale])
        for x, y, _, _ in p.anchors.values():
            coords.extend([G.frac(x) * scale, (G.frac(p.height) - G.frac(y)) * scale])
    if six_decimals(coords):
        line = sx.line('doclinks', scale, [
            [G.frac(p.height), [[esc(n), G.cps(n), G.frac(r[0]), G.frac(r[1])] for n, r in p.anchors.items()],
             [[esc(k), esc(t)] + [G.frac(v) for v in rect] for k, t, rect, _ in p.links]] for p in document.pages])
        n_links = sum(len(p.links) for p in document.pages)
        all_names = [n for p in document.pages for n in p.anchors]
        secs['links'].add(line, pdf.links_wire(), meta=meta, nontrivial=n_links >= 1 and len(all_names) >= 1,
                          tags=[t for t, c in (('duplicate-across-pages', len(set(all_names)) < len(all_names)),
                                               ('links', n_links), ('anchors', all_names)) if c])
    else:
        stats['float_rounding_skipped'] += 1

    # attachments (document level: <link rel=attachment>, write_pdf(attachments=…); link level: <a rel=attachment>)
    if six_decimals(coords):
        base = base_url()
        line, table = docatt_line(spec, document.pages, scale, True)
        n_link = sum(1 for p in document.pages for l in p.links if l[0] == 'attachment')
        doc_keys = [expected_attachment_name(None, u).encode() for u, a in
                    ((urllib.parse.urljoin(base, el['href']), None) for el in spec['attach_head'] if el['href'] is not None)
                    if table[u]['size'] is not None]
        doc_keys += [expected_attachment_name(a['name'], None).encode() for a in spec['attach_option']]
        secs['attach'].add(line, pdf.attachments_wire(), meta=meta,
                           nontrivial=bool(n_link or spec['attach_head'] or spec['attach_option']),
                           tags=[t for t, c in (('link-level', n_link), ('link-rel-attachment', spec['attach_head']),
                                                ('option', spec['attach_option']),
                                                ('failing', any(a['size'] is None for a in table.values())),
                                                ('missing-href', any(el['href'] is None for el in spec['attach_head'])),
                                                ('keys-reordered', doc_keys != sorted(doc_keys)),
                                                ('keys-written-form-differs', sorted(doc_keys) != sorted(
                                                    doc_keys, key=written_form)),
                                                ('keys-duplicate', len(set(doc_keys)) < len(doc_keys)))
                                 if c])

    # a subset of the pages: document.copy(pages).write_pdf() after the whole document has been written
    if n_pages >= 2:
        indices = gen_subset(run.rng, n_pages)
        add_subset_cases(secs, spec, document, indices, scale, meta, stats)

    # metadata
    head = [['title', G.cps(el[1])] if el[0] == 'title' else ['meta', G.cps(el[1]), G.cps(el[2])] for el in spec['head']]
    secs['info'].add(sx.line('info', None if spec['lang'] is None else G.cps(spec['lang']), head), pdf.info_wire(),
                     meta=meta, nontrivial=bool(spec['head']),
                     tags=sorted({el[1].lower() if el[0] == 'meta' else 'title' for el in spec['head']}))

    # link elements / anchors of the generated document
    by_element = []
    for page in document.pages:
        for link_type, target, _, box in page.links:
            k = int(box.element.get('data-k'))
            if not by_element or by_element[-1][0] != k:
                by_element.append([k, link_type, G.cps(target)])
    names = []
    for page in document.pages:
        names.extend(n for n in page.anchors if n not in names)
    out = sx.dumps(by_element) + ' ' + sx.dumps([G.cps(n) for n in names])
    links = spec_links(spec)

    def opt(v):
        return None if v is None else G.cps(v)
    line = sx.line('docels', G.cps(base_url()), [[k, tag, opt(i), opt(n), opt(h), opt(r)]
                                                 for k, tag, i, n, h, r in spec_elements(spec)])
    secs['elements'].add(line, out, meta=meta, nontrivial=bool(links),
                         tags=sorted({l['type'] for l in links}) + [t for t, c in (
                             ('rel-other-spelling', any(l.get('rel') not in (None, 'attachment') for l in links)),
                             ('id-and-name', any(l['id'] and l['name'] for l in links)),
                             ('same-path-other-query', any((l['href'] or '').startswith('?') for l in links))) if c])


def docatt_line(spec, pages, scale, with_options):
    """The `docatt` line for a PDF written from `pages`: the <link rel=attachment> elements of the document, the
    `attachments` option (or none) and the attachment links of those pages."""
    from harness import c18_attach as A
    base = base_url()
    head_links = [[None if el['href'] is None else esc(urllib.parse.urljoin(base, el['href'])),
                   None if el['title'] is None else esc(el['title'])] for el in spec['attach_head']]
    urls = {urllib.parse.urljoin(base, el['href']) for el in spec['attach_head'] if el['href'] is not None}
    urls |= {t for p in pages for k, t, _, _ in p.links if k == 'attachment'}
    table = {u: fetch_model(u) for u in sorted(urls)}
    option_atts = [{'size': len(a['content'].encode()), 'name': a['name'], 'urlBase': None,
                    'description': a['description']} for a in (spec['attach_option'] if with_options else [])]
    line = sx.line('docatt', A.guesses_for(list(table.values()) + option_atts),
                   [[esc(u), A.att_wire(a)] for u, a in table.items()], head_links,
                   [A.att_wire(a) for a in option_atts],
                   [[scale, G.frac(p.height), [[esc(t)] + [G.frac(v) for v in rect]
                                               for k, t, rect, _ in p.links if k == 'attachment']]
                    for p in pages])
    return line, table


def gen_subset(rng, n_pages):
    """Indices of the pages given to Document.copy: some pages dropped, order reversed, a page given twice."""
    k = rng.random()
    if k < 0.5:
        indices = [i for i in range(n_pages) if rng.random() < 0.6] or [rng.randrange(n_pages)]
    elif k < 0.7:
        indices = list(range(n_pages))[::-1]
    elif k < 0.85:
        indices = [rng.randrange(n_pages) for _ in range(rng.randint(1, n_pages + 1))]
    else:
        indices = list(range(rng.randrange(n_pages), n_pages))
    return indices[:12]


def subset_pdf(document, indices, zoom):
    pages = [document.pages[i] for i in indices]
    return pages, Pdf(document.copy(pages).write_pdf(zoom=zoom, uncompressed_pdf=True, full_fonts=True))


def add_subset_cases(secs, spec, document, indices, scale, meta, stats):
    meta = dict(meta, subset=indices)
    n_meta = sum(1 for el in spec['attach_head'] if el['href'] is not None)
    try:
        pages, pdf = subset_pdf(document, indices, spec['zoom'])
    except Exception as exc:  # noqa: BLE001 - a document must be writable again: the model expects the files once more
        line, _ = docatt_line(spec, [document.pages[i] for i in indices], scale, False)
        secs['subset'].add(line, G.err_outcome(exc), meta=meta, nontrivial=True, tags=['second-write-error'])
        return
    coords = []
    for p in pages:
        for _, _, rect, _ in p.links:
            coords.extend([G.frac(rect[0]) * scale, G.frac(rect[2]) * scale, (G.frac(p.height) - G.frac(rect[1])) * scale,
                           (G.frac(p.height) - G.frac(rect[3])) * scale])
        for x, y, _, _ in p.anchors.values():
            coords.extend([G.frac(x) * scale, (G.frac(p.height) - G.frac(y)) * scale])
        for _, _, (x, y), _ in p.bookmarks:
            coords.extend([G.frac(x) * scale, (G.frac(p.height) - G.frac(y)) * scale])
    if not six_decimals(coords):
        stats['float_rounding_skipped'] += 1
        return
    all_names = {n for p in pages for n in p.anchors}
    dropped = any(k == 'internal' and t not in all_names for p in pages for k, t, _, _ in p.links)
    tags = [t for t, c in (('pages-dropped', len(set(indices)) < len(document.pages)),
                           ('page-repeated', len(set(indices)) < len(indices)),
                           ('pages-reordered', indices != sorted(indices)),
                           ('link-to-unselected-page', dropped and any(
                               k == 'internal' and t not in all_names and any(t in q.anchors for q in document.pages)
                               for p in pages for k, t, _, _ in p.links))) if c]
    line = sx.line('doclinks', scale, [
        [G.frac(p.height), [[esc(n), G.cps(n), G.frac(r[0]), G.frac(r[1])] for n, r in p.anchors.items()],
         [[esc(k), esc(t)] + [G.frac(v) for v in rect] for k, t, rect, _ in p.links]] for p in pages])
    secs['subset'].add(line, pdf.links_wire(), meta=meta, nontrivial=len(set(indices)) < len(document.pages),
                       tags=tags + ['links'])
    pages_wire = [[G.frac(p.height), [[lvl, esc(lab), G.frac(x), G.frac(y), esc(st)]
                                      for lvl, lab, (x, y), st in p.bookmarks]] for p in pages]
    numbers = pdf.outline_objects()
    secs['subset'].add(sx.line('pdfoutl', scale, numbers[0] if numbers else 0, pdf.page_numbers, pages_wire),
                       pdf.outline_wire(), meta=meta, nontrivial=len(set(indices)) < len(document.pages),
                       tags=tags + ['outlines'])
    # the <link rel=attachment> files are embedded again (a0bb005: Attachment.source opens its source for each write),
    # the attachment links of the selected pages get their annotations and files
    line, table = docatt_line(spec, pages, scale, False)
    secs['subset'].add(line, pdf.attachments_wire(), meta=meta, nontrivial=bool(n_meta),
                       tags=tags + ['attachments'] + (['second-write-of-attachments'] if n_meta else []))


def oracle_subset(spec, indices):
    """The clauses on `document.copy(pages).write_pdf()`: the links, destinations and outline entries of the
    selected pages only — a link to an anchor of an unselected page is dropped, not left dangling; every entry points
    into the page list of the new document.  -> (what, finding id) | None"""
    fill_targets(spec)
    try:
        document, _ = render_spec(spec)
    except Exception as exc:  # noqa: BLE001
        return f'rendering raised {type(exc).__name__}: {exc}', None
    try:
        pages, pdf = subset_pdf(document, indices, spec['zoom'])
    except Exception as exc:  # noqa: BLE001
        return f'writing the pages {indices} after the whole document raised {type(exc).__name__}: {exc}', None
    what = _oracle_subset(spec, indices, document, pages, pdf)
    if what:
        return what, None
    # written a second time, the <link rel=attachment> files are all there again, unchanged
    import urllib.request
    want = []
    for el in spec.get('attach_head') or ():
        if el['href'] is not None and el['href'].startswith('data:'):
            with urllib.request.urlopen(el['href']) as response:
                want.append(response.read())
    got = pdf.embedded_contents()
    if sorted(got) != sorted(want):
        return (f'the second PDF (pages {indices}) embeds {[c[:20] for c in got]}; the <link rel=attachment> files of '
                f'the document are {[c[:20] for c in want]}'), None
    return None


def _oracle_subset(spec, indices, document, pages, pdf):
    scale = F(spec['zoom']) * F(3, 4)

    def to_pdf(page, x, y):
        return scale * G.frac(x), scale * (G.frac(page.height) - G.frac(y))
    first = {}
    for position, page in enumerate(pages):
        for name, rect in page.anchors.items():
            first.setdefault(name, (position, to_pdf(page, rect[0], rect[1])))
    links_wire, dests_wire = sx.loads_line(pdf.links_wire())
    got = {d[0]: (int(d[1]), (F(d[2]), F(d[3]))) for d in dests_wire if d[0] != 'bad-dest'}
    if len(got) != len(dests_wire):
        return f'malformed or repeated destinations {dests_wire}'
    want = {esc(n): v for n, v in first.items()}
    if set(got) != set(want):
        return f'destinations {sorted(got)}; the selected pages {indices} carry the names {sorted(want)}'
    for name, (position, point) in got.items():
        if position != want[name][0] or not close(point, want[name][1]):
            return (f'destination {name!r} points to page {position} at {point}; its first element among the pages '
                    f'{indices} is on page {want[name][0]} at {want[name][1]}')
    keys = [dest_key_bytes(n) for n in sorted(first, key=dest_key_bytes)]
    if [d[0] for d in dests_wire] != [esc(n) for n in sorted(first, key=dest_key_bytes)]:
        return f'named destinations {[d[0] for d in dests_wire]} are not in the byte order of their keys {keys}'
    for position, (annots, page) in enumerate(zip(links_wire, pages)):
        kept = [l for l in page.links if l[0] != 'internal' or l[1] in first]
        kept = [l for l in kept if l[0] != 'attachment'] + [l for l in kept if l[0] == 'attachment']
        if [a[0] for a in annots] != [l[0] for l in kept]:
            return (f'page {position} (page {indices[position]} of the document): annotations {[a[:2] for a in annots]} '
                    f'for the links {[l[:2] for l in page.links]} (destinations on the selected pages: {sorted(first)})')
        for a, l in zip(annots, kept):
            if a[0] == 'internal' and a[1] not in got:
                return f'dangling internal link to {a[1]!r}'
            if a[0] != 'attachment' and a[1] != esc(l[1]):
                return f'annotation {a[:2]} for the link {l[:2]}'
            want_rect = to_pdf(page, l[2][0], l[2][1]) + to_pdf(page, l[2][2], l[2][3])
            if not close(tuple(F(v) for v in a[-4:]), want_rect):
                return f'annotation of {l[:2]} has Rect {[str(v) for v in a[-4:]]}, its link covers {[str(v) for v in want_rect]}'
    bookmarks = [(position, page, b) for position, page in enumerate(pages) for b in page.bookmarks]
    numbers = pdf.outline_objects()
    structure = pdf.outline_structure()
    if structure.startswith('bad-links'):
        return f'outline links inconsistent: {structure}'
    want_tree, want_count = expected_structure([(lvl, lab, st) for _, _, (lvl, lab, _, st) in bookmarks])
    if structure != sx.dumps(want_tree) + ' ' + sx.atom(want_count):
        return (f'outline {structure} is not the outline of the bookmarks of the pages {indices}: '
                f'{sx.dumps(want_tree)} {want_count}')
    for number, (position, page, (_, label, (x, y), _)) in zip(numbers, bookmarks):
        dest = pdf.objects[number]['Dest']
        if int(dest[0]) != pdf.page_numbers[position] or not close((dest[2], dest[3]), to_pdf(page, x, y)):
            return (f'outline {label!r} points to object {dest[0]} at {(dest[2], dest[3])}; its bookmark is on page '
                    f'{position} of the new document (object {pdf.page_numbers[position]}) at {to_pdf(page, x, y)}')
    return None


def regression_specs():
    """Corpus-first documents: the inputs of the repaired findings of C18 (a `fixed:` line of known_findings.txt
    suppresses nothing — if the defect comes back the sections below disagree and the oracle reports it)."""
    def para(k, ident):
        return {'k': k, 'break_before': False, 'id': ident, 'transform': None, 'kind': 'para',
                'items': [{'words': ['aa']}]}

    def heading(k, ident, transform):
        return {'k': k, 'break_before': False, 'id': ident, 'transform': transform, 'kind': 'heading', 'level': 1,
                'tag': 'h1', 'state': 'open', 'words': ['one'], 'link': None, 'no_bookmark': False,
                'string_label': None, 'pseudo': []}

    def option(content, name):
        return {'content': content, 'name': name, 'description': None}
    base = {'width': 200, 'height': 100, 'margin': 0, 'zoom': 1, 'lang': None, 'head': [], 'attach_head': [],
            'attach_option': []}
    return [
        # dests-not-byte-sorted, fixed by 09da5a8: ids `z` and `aé`
        dict(base, blocks=[para(0, 'z'), para(1, 'aé')]),
        dict(base, blocks=[para(0, 'é'), para(1, 'Zed'), para(2, 'aé'), para(3, 'a')], zoom=2),
        # embedded-files-not-sorted, fixed by 186e86a: attachments b.txt then a.txt
        dict(base, blocks=[para(0, None)], attach_option=[option('1', 'b.txt'), option('2', 'a.txt')]),
        dict(base, blocks=[para(0, None)], attach_option=[option('1', 'b é.txt'), option('2', None), option('3', 'a.txt')],
             attach_head=[{'href': 'data:text/plain,DOC1', 'title': None}]),
        # embedded-files-written-form-order, fixed by e909019: a key that is a prefix of the next, keys with ( ) \\
        dict(base, blocks=[para(0, None)], attach_option=[option('1', 'report 2'), option('2', 'report')]),
        dict(base, blocks=[para(0, None)], attach_option=[option('1', 'aZ.txt'), option('2', 'a(1).txt'), option('3', 'a#b'),
                                                          option('4', 'a'), option('5', 'a\\b'), option('6', 'a)')]),
        # attachment-second-write-crash, fixed by a0bb005: <link rel=attachment>, two pages (the copy is a second write)
        dict(base, blocks=[para(0, None), dict(para(1, 'b'), break_before=True)],
             attach_head=[{'href': 'data:text/plain,hello', 'title': None}, {'href': 'missing-doc-file.bin', 'title': 'x'}]),
        # anchor-double-transform, fixed by a37277b: <h1 id=a style="transform: translate(…)">
        dict(base, blocks=[heading(0, 'a', 'translate(8px, 4px)'), para(1, 'b')]),
    ]


def document_sections(prop, run):
    import collections
    secs = {
        'gather': run.section(
            'doc-gather', 'gather_anchors as run by Page.__init__ on every page of generated documents (real laid-out '
            'boxes abstracted to what the function reads); non-trivial = the page has an anchor, link or bookmark'),
        'tree': run.section(
            'doc-bookmark-tree', 'Document.make_bookmark_tree(scale, False/True) of rendered documents; non-trivial = '
            'at least 3 headings over at least 2 pages'),
        'watch': run.section(
            'doc-one-per-element', 'which boxes keep their bookmark label after layout_document (headings, bookmarked '
            'containers around bookmarked headings, inline bookmarked spans over several lines, ::before/::after '
            'bookmarks, all split over lines and pages); non-trivial = some element has several labelled boxes (a later '
            'fragment loses its label)'),
        'structure': run.section(
            'doc-outline-structure', '/Outlines of the written PDF (walked through First/Next, Prev/Last/Parent checked) '
            'against the outline computed from the headings of the generated document; non-trivial = at least 3 '
            'headings of at least 2 levels'),
        'outlines': run.section(
            'doc-pdf-outlines', 'every field of every outline dictionary of the PDF against the model run on '
            'Page.bookmarks; non-trivial = at least 3 headings'),
        'links': run.section(
            'doc-pdf-links', '/Annots of every page (Rect, Dest / URI, FileAttachment) and the sorted /Names /Dests '
            'array against resolve_links + add_links + sorted() of the model run on Page.links / Page.anchors; '
            'non-trivial = at least one link and one anchor'),
        'subset': run.section(
            'doc-page-subset', 'document.copy(pages).write_pdf() written after the whole document (pages dropped, reversed, '
            'repeated): /Annots, /Dests and the outline dictionaries against resolve_links + add_links + the sort and '
            'make_bookmark_tree + add_outlines of the model run on the selected pages; non-trivial = a page is left out'),
        'attach': run.section(
            'doc-attachments', '/FileAttachment annotations of every page (Rect, which embedded file), the embedded '
            'files of attachment links (one per URL, creation order) and of <link rel=attachment> / '
            'write_pdf(attachments=…) with the /EmbeddedFiles name array (names, descriptions, MIME subtype, size; '
            'content and MD5 checked) against the attachment model; non-trivial = the document has an attachment'),
        'info': run.section(
            'doc-info', '/Info (Title Author Subject Keywords Creator CreationDate ModDate) and /Lang against the '
            'metadata model run on the generated <title>/<meta>/lang; non-trivial = at least one head element'),
        'elements': run.section(
            'doc-link-elements', 'link elements (type, target) and anchor names of Page.links / Page.anchors against '
            'the model of get_link_attribute / is_attachment / the anchor cascade run on the href, rel, id, name '
            'attributes of the generated document and its base URL; non-trivial = at least one link'),
    }
    stats = collections.Counter()
    rng = run.rng
    for spec in regression_specs():
        add_document_cases(secs, spec, run, stats)
    for i in range(run.n(200, 3600)):
        spec = gen_doc(rng, size=80 if i % 97 == 96 else None)
        add_document_cases(secs, spec, run, stats)
    run.extra['float_rounding_skipped'] = stats['float_rounding_skipped']
    run.extra['unsupported_pages'] = stats['unsupported']


# ------------------------------------------------------------------ oracle (judge / search / replay)

def nearest_smaller_depths(levels):
    stack, out = [], []
    for level in levels:
        while stack and stack[-1] >= level:
            stack.pop()
        stack.append(level)
        out.append(len(stack))
    return out


def close(got, want):
    """Equal up to the 6 decimal places pydyf writes."""
    return len(got) == len(want) and all(abs(F(a) - F(b)) <= F(1, 10 ** 6) for a, b in zip(got, want))


def has_transform(spec):
    for block in walk_blocks(spec['blocks']):
        if block['transform']:
            return True
        links = ([block['link']] if block['kind'] == 'heading' and block['link'] else
                 [i for i in block.get('items', []) if 'href' in i])
        if any(l['transform'] for l in links):
            return True
    return False


def strip_transforms(spec):
    import copy
    spec = copy.deepcopy(spec)
    for block in walk_blocks(spec['blocks']):
        block['transform'] = None
        if block['kind'] == 'heading' and block['link']:
            block['link']['transform'] = None
        for item in block.get('items', []):
            if 'href' in item:
                item['transform'] = None
    return spec


def expected_structure(headings):
    """One entry per heading in document order; parent = nearest preceding heading of smaller level;
    Count = descendants visible when open (negative when closed)."""
    root = []
    stack = [(0, root)]
    for level, label, state in headings:
        while len(stack) > 1 and stack[-1][0] >= level:
            stack.pop()
        node = {'title': esc(label), 'state': state, 'kids': []}
        stack[-1][1].append(node)
        stack.append((level, node['kids']))

    def visible(kids):
        return sum(1 + (0 if k['state'] == 'closed' else visible(k['kids'])) for k in kids)

    def wire(kids):
        return [[k['title'], -visible(k['kids']) if k['state'] == 'closed' else visible(k['kids']), wire(k['kids'])]
                for k in kids]
    return wire(root), visible(root)


def dest_key_bytes(name):
    """The bytes of the string object a named destination is written as (what a reader compares)."""
    return name.encode('ascii') if name.isascii() else b'\xfe\xff' + name.encode('utf-16-be')


def expected_attachment_name(name, url):
    """`name`, else the basename of the URL's path, else attachment.bin (clause of write_pdf_attachment)."""
    from os.path import basename
    from urllib.parse import unquote, urlsplit
    if name:
        return name
    if url and urlsplit(url).path:
        return basename(unquote(urlsplit(url).path))
    return 'attachment.bin'


def oracle(spec):
    """The clauses of C18 stated directly on the rendered document.  -> (what, finding id) | None."""
    found = _oracle(spec, False)
    if found and found[1] is None and has_shadowed_id(spec):
        # is the hidden id of an <a id name> (known finding) all that is wrong?
        again = _oracle(spec, True)
        if again is None or again[1] is not None:
            return found[0], 'anchor-id-shadowed-by-name'
        return again
    return found


def _oracle(spec, shadow):
    fill_targets(spec)
    try:
        document, pdf = render_spec(spec)
    except Exception as exc:  # noqa: BLE001
        return f'rendering raised {type(exc).__name__}: {exc}', None
    headings = spec_headings(spec)
    # (1) one outline entry per bookmarked element, in document order, nested by the level rule, links consistent
    structure = pdf.outline_structure()
    if structure.startswith('bad-links'):
        return f'outline links inconsistent: {structure}', None
    want_tree, want_count = expected_structure(headings)
    if structure != sx.dumps(want_tree) + ' ' + sx.atom(want_count):
        return (f'outline of the PDF {structure} is not the outline of the bookmarked elements in document order '
                f'{sx.dumps(want_tree)} {want_count} (headings {headings})'), None
    # each outline points to the page of its element's first box
    first_page = {}
    for index, page in enumerate(document.pages):
        for box in page._page_box.descendants():
            if box.element is not None and box.element.get('data-k') is not None:
                first_page.setdefault(int(box.element.get('data-k')), index)
    heading_blocks = spec_bookmarks(spec)
    for number, block in zip(pdf.outline_objects(), heading_blocks):
        if block['k'] is None:
            continue
        dest_page = pdf.page_numbers.index(int(pdf.objects[number]['Dest'][0]))
        if dest_page != first_page.get(block['k']):
            return (f'outline {block["label"]!r} points to page {dest_page}, its element starts on page '
                    f'{first_page.get(block["k"])}'), None
    # … and, when no transform is in force anywhere, to the top-left corner of its first box
    plain = not has_transform(spec)
    scale = F(spec['zoom']) * F(3, 4)

    def to_pdf(page, x, y):
        return scale * G.frac(x), scale * (G.frac(page.height) - G.frac(y))
    if plain:
        first_box = {}
        for page in document.pages:
            for box in page._page_box.descendants():
                if (box.element is not None and box.element.get('data-k') is not None and box.bookmark_label and
                        '::' not in box.element_tag):
                    first_box.setdefault(int(box.element.get('data-k')), (page, box))
        for number, block in zip(pdf.outline_objects(), heading_blocks):
            if block['k'] is None or block['k'] not in first_box:
                continue
            page, box = first_box[block['k']]
            dest = pdf.objects[number]['Dest']
            want = to_pdf(page, *expected_hit(box)[:2])
            if not close((dest[2], dest[3]), want):
                return (f'outline {block["label"]!r} points to {(dest[2], dest[3])}; the top-left corner of its '
                        f'element is at {want} (PDF points)'), None
    # (2) links
    links_wire, dests_wire = sx.loads_line(pdf.links_wire())
    dest_names = [d[0] for d in dests_wire]
    if len(set(dest_names)) != len(dest_names):
        return f'named destinations listed twice: {dest_names}', None
    wanted_names = []
    for n in spec_anchor_names(spec, shadow):
        if n not in wanted_names:
            wanted_names.append(n)
    if sorted(dest_names) != sorted(esc(n) for n in wanted_names):
        return f'named destinations {dest_names}, ids of the document {wanted_names}', None
    in_key_order = sorted(wanted_names, key=dest_key_bytes)
    if dest_names != [esc(n) for n in in_key_order]:
        return (f'named destinations {dest_names} are not in the byte order of their keys '
                f'{[dest_key_bytes(n) for n in in_key_order]} (ISO 32000-1 7.9.6)'), None
    element_of_name = {}
    for block in walk_blocks(spec['blocks']):
        candidates = [(block['id'], block['k'])]
        for link in ([block['link']] if block['kind'] == 'heading' and block['link'] else
                     [i for i in block.get('items', []) if 'href' in i]):
            candidates.extend((n, link['k']) for n in link_names(link, shadow))
        for name, k in candidates:
            if name:
                element_of_name.setdefault(name, k)
    for name, page_index, _, _ in dests_wire:
        raw = next(n for n in wanted_names if esc(n) == name)
        if int(page_index) != first_page.get(element_of_name[raw]):
            return (f'destination {raw!r} is on page {page_index}; the first element carrying it starts on page '
                    f'{first_page.get(element_of_name[raw])}'), None
    if plain:
        first_anchor_box = {}
        for page in document.pages:
            for box in page._page_box.descendants():
                if box.style['anchor']:
                    first_anchor_box.setdefault(box.style['anchor'], (page, box))
        for name, page_index, x, y in dests_wire:
            raw = next(n for n in wanted_names if esc(n) == name)
            page, box = first_anchor_box[raw]
            want = to_pdf(page, *expected_hit(box)[:2])
            if not close((F(x), F(y)), want):
                return (f'destination {raw!r} points to {(F(x), F(y))}; the first element carrying it is at {want} '
                        f'(PDF points)'), None
        for annots, page in zip(links_wire, document.pages):
            kept = [l for l in page.links if l[0] != 'internal' or esc(l[1]) in dest_names]
            kept = [l for l in kept if l[0] != 'attachment'] + [l for l in kept if l[0] == 'attachment']
            for annot, link in zip(annots, kept):
                x, y, w, h = expected_hit(link[3])
                want = to_pdf(page, x, y) + to_pdf(page, x + w, y + h)
                if not close(tuple(F(v) for v in annot[-4:]), want):
                    return (f'annotation of link {link[:2]} has Rect {[str(v) for v in annot[-4:]]}; its box covers '
                            f'{[str(v) for v in want]} (PDF points)'), None
    expected_links = [l for l in spec_links(spec)]
    seen = []
    for annots, page in zip(links_wire, document.pages):
        for a in annots:
            if a[0] == 'internal' and a[1] not in dest_names:
                return f'dangling internal link to {a[1]!r}', None
            if a[0] in ('bad-link', 'other-annot'):
                return f'unexpected annotation {a}', None
        boxes_links = [(int(b.element.get('data-k')), t, tg) for t, tg, _, b in page.links]
        kept = [x for x in boxes_links if x[1] != 'internal' or esc(x[2]) in dest_names]
        kept = [x for x in kept if x[1] != 'attachment'] + [x for x in kept if x[1] == 'attachment']
        if [a[0] for a in annots] != [x[1] for x in kept]:
            return f'annotations {[a[:2] for a in annots]} for link boxes {kept}', None
        for k, t, tg in boxes_links:
            if not seen or seen[-1][0] != k:
                seen.append((k, t, tg))
    if seen != [(l['k'], l['type'], l['target']) for l in expected_links]:
        return (f'link elements {seen} are not the links of the document '
                f'{[(l["k"], l["type"], l["target"]) for l in expected_links]}'), None
    # (2b) attachments: document level unchanged and in order, link level one annotation per readable link box
    import urllib.request
    want_files = []
    for el in spec.get('attach_head') or ():
        if el['href'] is None or not el['href'].startswith('data:'):
            continue
        with urllib.request.urlopen(el['href']) as response:
            want_files.append((expected_attachment_name(None, el['href']).encode(), el['title'] or '', response.read()))
    for a in spec.get('attach_option') or ():
        want_files.append((expected_attachment_name(a['name'], None).encode(), a['description'] or '',
                           a['content'].encode()))
    names = pdf.catalog.get('Names', {})
    got_files = []
    if 'EmbeddedFiles' in names:
        array = c18_pdf.deref(pdf.objects, names['EmbeddedFiles'])['Names']
        for key, ref in zip(array[::2], array[1::2]):
            filespec = pdf.objects[int(ref)]
            if filespec['F'].raw != key.raw or str(filespec['UF']).encode() != key.raw:
                return f'/EmbeddedFiles key {key.raw!r} names the file {filespec["F"].raw!r} / {str(filespec["UF"])!r}', None
            got_files.append((key.raw, str(filespec['Desc']), pdf.objects[int(filespec['EF']['F'])]['__stream__']))
    # every attachment once, unchanged (name, description, bytes) …
    if sorted(got_files) != sorted(want_files):
        return (f'embedded files {[(k, d, c[:20]) for k, d, c in got_files]}; attachments of the document '
                f'{[(k, d, c[:20]) for k, d, c in want_files]}'), None
    # … attachments of one name in document order (only their key can move them)
    for key in {k for k, _, _ in want_files}:
        if [f for f in got_files if f[0] == key] != [f for f in want_files if f[0] == key]:
            return f'attachments named {key!r} are not listed in document order', None
    embedded_keys = [k for k, _, _ in got_files]
    for index, (page, pdf_page) in enumerate(zip(document.pages, pdf.pages)):
        want_n = sum(1 for k, t, _, _ in page.links if k == 'attachment' and t.startswith('data:'))
        got_n = sum(1 for r in pdf_page.get('Annots', [])
                    if str(pdf.objects[int(r)].get('Subtype')) == 'FileAttachment')
        if got_n != want_n:
            return f'page {index}: {got_n} file attachment annotations for {want_n} attachment link boxes', None
    distinct = {t for page in document.pages for k, t, _, _ in page.links if k == 'attachment' and t.startswith('data:')}
    n_specs = len(pdf.objects.numbers_with(b'/Filespec')) - len(got_files)
    if n_specs != len(distinct):
        return f'{n_specs} files embedded for the {len(distinct)} distinct URLs of the attachment links', None
    # (3) metadata
    want = reference_info(spec)
    got = [(k, ''.join(chr(int(c)) for c in v)) for k, v in sx.loads_line(pdf.info_wire())[0]]
    if got != want:
        return f'/Info {got}, metadata of the document {want}', None
    # the keys of the /EmbeddedFiles name tree: sorted by their bytes, none twice (ISO 32000-1 7.9.6)
    if embedded_keys != sorted(embedded_keys):
        return f'/EmbeddedFiles keys are not in byte order: {embedded_keys}', None
    if len(set(embedded_keys)) != len(embedded_keys):
        return f'/EmbeddedFiles lists a key twice: {embedded_keys}', 'embedded-files-duplicate-keys'
    return None


def written_form(key):
    """pydyf.String(<bytes>).data: the literal string as written."""
    import re
    return b'(' + re.sub(rb'([\\\(\)])', rb'\\\1', key) + b')'


def reference_meta(head):
    """get_html_metadata stated directly: first title / description / generator / valid date, every author,
    keywords split on commas, stripped of HTML white space, without repetition."""
    import re
    title = description = generator = created = modified = None
    authors, keywords = [], []
    for el in head:
        if el[0] == 'title':
            if title is None:
                title = el[1]
            continue
        name = re.sub('[A-Z]', lambda m: m.group(0).lower(), el[1])
        content = el[2]
        if name == 'keywords':
            for keyword in content.split(','):
                keyword = keyword.strip(' \t\n\f\r')
                if keyword not in keywords:
                    keywords.append(keyword)
        elif name == 'author':
            authors.append(content)
        elif name == 'description' and description is None:
            description = content
        elif name == 'generator' and generator is None:
            generator = content
        elif name == 'dcterms.created' and created is None:
            created = content if _valid_w3c(content) else None
        elif name == 'dcterms.modified' and modified is None:
            modified = content if _valid_w3c(content) else None
    return {'title': title, 'description': description, 'generator': generator, 'keywords': keywords,
            'authors': authors, 'created': created, 'modified': modified}


def reference_info(spec):
    """The metadata clauses stated directly (first title, authors joined, …)."""
    meta = reference_meta(spec['head'])
    title, description, generator = meta['title'], meta['description'], meta['generator']
    authors, keywords, created, modified = meta['authors'], meta['keywords'], meta['created'], meta['modified']
    out = []
    if title:
        out.append(('Title', title))
    if authors:
        out.append(('Author', ', '.join(authors)))
    if description:
        out.append(('Subject', description))
    if keywords:
        out.append(('Keywords', ', '.join(keywords)))
    if generator:
        out.append(('Creator', generator))
    for key, value in (('CreationDate', created), ('ModDate', modified)):
        if value:
            out.append((key, _pdf_date(value)))
    if spec['lang']:
        out.append(('Lang', spec['lang']))
    return out


_W3C = (r'[ \t\n\f\r]*(\d{4})(?:-(0\d|1[012])(?:-([012]\d|3[01])(?:T([01]\d|2[0-3]):([0-5]\d)(?::([0-5]\d)(?:\.\d+)?)?'
        r'(?:(Z)|([+-])([01]\d|2[0-3]):([0-5]\d)))?)?)?[ \t\n\f\r]*')


def _valid_w3c(s):
    import re
    return re.fullmatch(_W3C, s, flags=re.ASCII) is not None


def _pdf_date(s):
    import re
    y, mo, d, h, mi, se, z, sign, th, tm = re.fullmatch(_W3C, s, flags=re.ASCII).groups()
    out = 'D:' + y + (mo or '') + (d or '')
    if h:
        out += h + mi + (se or '00') + ('Z' if z else f"{sign}{th}'{tm}")
    return out


def shrink(spec, budget=40):
    """Greedy reduction of a failing document: drop blocks (top level, then inside containers), head
    elements, while the oracle still reports a failure that is not a known finding."""
    import copy

    def fails(candidate):
        try:
            found = oracle(copy.deepcopy(candidate))
        except Exception:  # noqa: BLE001
            return False
        return bool(found and found[1] is None)

    def block_lists(sp):
        yield sp['blocks']
        for block in walk_blocks(sp['blocks']):
            if block['kind'] == 'wrapper':
                yield block['blocks']
    spec = copy.deepcopy(spec)
    if spec['head']:
        candidate = dict(spec, head=[])
        budget -= 1
        if fails(candidate):
            spec = candidate
    progress = True
    while progress and budget > 0:
        progress = False
        for index, blocks in enumerate(list(block_lists(spec))):
            i = len(blocks) - 1
            while i >= 0 and budget > 0:
                candidate = copy.deepcopy(spec)
                target = list(block_lists(candidate))[index]
                del target[i]
                budget -= 1
                if fails(candidate):
                    spec = candidate
                    blocks = list(block_lists(spec))[index]
                    progress = True
                i -= 1
    return spec


_SHRUNK = [0]


def judge(meta, d):
    if 'spec' not in meta:
        return None
    if meta.get('subset') is not None:
        found = oracle_subset(meta['spec'], list(meta['subset']))
        if found and found[1] is None:
            return f'{found[0]}  [document.copy of the pages {list(meta["subset"])} of: {doc_html(meta["spec"])}]'
        return None
    found = oracle(_revive_spec(meta['spec']))
    if found and found[1] is None:
        _SHRUNK[0] += 1
        if _SHRUNK[0] > 2:
            return found[0]
        small = shrink(meta['spec'], budget=30)
        again = oracle(small)
        if again and again[1] is None:
            return f'{again[0]}  [reduced document: {doc_html(small)}]'
        return found[0]
    return None


def _revive_spec(spec):
    return spec


def search(prop, run, failures):
    """Generated documents judged by the oracle (only after something broke)."""
    docs.quiet()
    rng = run.rng
    found = []
    specs = []
    for f in failures:
        detail = f.get('detail')
        if f['kind'] == 'correspondence' and isinstance(detail, dict) and isinstance(detail.get('meta'), dict):
            if 'spec' in detail['meta']:
                specs.append(detail['meta']['spec'])
    specs = specs[:20] + [strip_transforms(sp) for sp in specs[:20]]
    specs.sort(key=lambda sp: len(sp['blocks']))
    budget = 400 if run.thorough else 150
    for i in range(budget):
        spec = specs[i] if i < len(specs) else gen_doc(rng, size=rng.choice([1, 2, 3, 5, 8]))
        if i >= len(specs) and i % 2:
            spec = strip_transforms(spec)
        run.search_stats['evaluations'] += 1
        try:
            what = oracle(spec)
        except Exception as exc:  # noqa: BLE001
            what = (f'oracle crashed: {type(exc).__name__}: {exc}', None)
        if not what and i % 3 == 0:
            try:       # the same document written through Document.copy with a subset of its pages
                n_pages = len(render_spec(spec)[0].pages)
                indices = gen_subset(rng, n_pages) if n_pages >= 2 else None
                sub = oracle_subset(spec, indices) if indices else None
            except Exception as exc:  # noqa: BLE001
                indices, sub = [], (f'oracle crashed: {type(exc).__name__}: {exc}', None)
            if sub:
                found.append({'what': sub[0], 'input': {'html': doc_html(spec), 'zoom': spec['zoom'],
                                                        'meta': {'kind': 'doc', 'spec': spec, 'subset': indices}},
                              'signature': sub[0][:80], 'finding_id': sub[1]})
        if what:
            text, finding = what
            found.append({'what': text, 'input': {'html': doc_html(spec), 'spec': spec, 'zoom': spec['zoom']},
                          'signature': text[:80], 'finding_id': finding})
            if len([v for v in found if not v['finding_id']]) >= 3:
                break
    return found


def replay_html(inp):
    if isinstance(inp.get('meta'), dict) and inp['meta'].get('subset') is not None:
        return replay_meta(inp['meta'])
    if 'spec' in inp:
        found = oracle(inp['spec'])
        return found[0] if found else None
    return None


def replay_meta(meta):
    if 'spec' in meta and meta.get('subset') is not None:
        found = oracle_subset(meta['spec'], list(meta['subset']))
        return found[0] if found else None
    if 'spec' in meta:
        found = oracle(meta['spec'])
        return found[0] if found else None
    return None


# ------------------------------------------------------------------ known findings

_BASE = ('<style>@page{size:200px 100px;margin:0}body{margin:0;font:20px/20px weasyprint}'
         'h1,div{display:block;font-size:20px;margin:0;font-weight:normal}</style>')


def replay_pdf_string_cr():
    """<title>a&#13;b</title>: the title read back from /Info must be the title of the document."""
    docs.quiet()
    document = docs.render(_BASE + '<title>a&#13;b</title><div>x</div>')
    pdf = Pdf(document.write_pdf(uncompressed_pdf=True))
    return str(pdf.info.get('Title')) != document.metadata.title


def _embedded_keys(names):
    from weasyprint import Attachment
    docs.quiet()
    document = docs.render(_BASE + '<div>x</div>')
    pdf = Pdf(document.write_pdf(uncompressed_pdf=True, attachments=[
        Attachment(string=str(i), name=name) for i, name in enumerate(names)]))
    return [k.raw for k in c18_pdf.deref(pdf.objects, pdf.catalog['Names']['EmbeddedFiles'])['Names'][::2]]


def replay_embedded_files_duplicate_keys():
    """Two attachments named a.txt: the name tree must not hold a key twice."""
    keys = _embedded_keys(['a.txt', 'a.txt'])
    return len(set(keys)) != len(keys)


def replay_anchor_id_shadowed():
    """<a id=x name=y>: both x and y name the element; a link to #x must find it."""
    docs.quiet()
    document = docs.render(_BASE + '<div><a id="x" name="y">target</a> <a href="#x">link</a></div>')
    return 'x' not in document.pages[0].anchors
